"""C01 -- returned fields satisfy the documented governing PDEs wherever smooth.

Mode L: every parameter vector within K deviations of the default (K=1 quick, K=2 thorough; Guderley over the five
memoised (geometry, gamma) pairs x rho0) of Noh, Noh2, Noh2Cog, the twenty Coggeshall solutions, EHEP, both 1D Riemann solvers
(state lattice + the tabulated problems and their mirror images), Sedov and Guderley; every time of a lattice inside the
validity interval; 12 lattice points in every smooth region located from the returned fields.

Oracle: 4th-order central differences (5-point stencils in r and in t, three step sizes, minimum residual reported) of
the PUBLIC solver output substituted into the equations the package documents (written here, nothing imported from the
code under test):
  * Coggeshall: mass, momentum and energy of cog/__init__.py with F = -(c*lambda/3) d(a T^4)/dr, lambda = lambda0 rho^alpha T^beta,
    c = 2.997e10, a = 137.20.  The docstring prints the energy equation's first term as T/(gamma-1)[T_t + u T_r]; with
    e = Gamma T/(gamma-1) conservation of energy requires Gamma/(gamma-1)[T_t + u T_r] (the printed form is not even
    dimensionally consistent), so the conservative form  rho De/Dt + p div u + div F = 0  is what is checked, with the
    returned e and p.  Solutions documented without lambda0 (Cog8, 9, 11, 12, 18) claim to hold for every lambda0: the
    hydrodynamic part and div F = 0 are checked separately.  alpha/beta fixed by a documented formula (Cog10, 11, 12, 16)
    are taken from the docstring formula.  Solutions documented with no conduction parameter (Cog1-7, 19-21) : F = 0.
  * Noh, Sedov, Guderley: mass, momentum and entropy equations of their package docstrings in geometry k.
  * Noh2 / Noh2Cog: Euler equations (mass, momentum, energy) of noh2/__init__.py.
  * Riemann solvers, EHEP: planar conservation form of riemann/__init__.py.
"""
import numpy as np

from xpmc import hydro, lattice, oracle
from xpmc import x_C01_fd as fd
from xpmc.engine import Digest
from xpmc.solvers import call, Inadmissible

ID = "C01"
LEVEL = "exploration"
TECHNIQUE = ("bounded exhaustive enumeration of deviation-bounded parameter lattices on the real solvers (explicit-state exploration, "
             "mode L) with a finite-difference PDE-residual oracle on the public output")
CLAIM = ("Every parameter vector within K deviations of the default (K=1 quick, K=2 thorough) of Noh, Noh2, Noh2Cog, the twenty Coggeshall "
         "solutions, EHEP, the ideal-gas and general-EOS 1D Riemann solvers (state lattice plus the tabulated problems and their mirror images), "
         "Sedov and Guderley (five memoised geometry/gamma pairs) is constructed and called on 5-point stencils in r and t around 12 lattice "
         "points of every smooth region located from the returned fields, at every lattice time; the documented mass, momentum and "
         "energy/entropy equations (with the documented heat flux) are evaluated by 4th-order differences at three step sizes. Exhaustive over "
         "the stated alphabet; right level because a wrong exponent, amplitude, sign or unit in a closed-form/self-similar field is wrong on an "
         "open set of (r,t) for a whole slice of parameter space, which lattice enumeration plus differentiation exposes.")
LEVEL_NOTE = ("trusted: numpy, the transcription of the documented equations in props/C01.py, the locus detector of xpmc/x_C01_fd.py, the "
              "memoised Guderley exponent (keyed by the hash of eexp.py); assumed: defects confined to parameter values, times or radii "
              "between lattice values are not seen; a residual below the class tolerance (A 1e-6 / 1e-5 with second derivatives, B 1e-5, C 1e-2; Sedov 1e-2, and 0.2 where rho/rho_shock < 1e-2) is not seen")
BOUND = {"quick": "K=1 deviations from the default vector for every family (Riemann tables: K=2 = all problems x mirror); 2-4 times per "
                  "family (Sedov 2, Guderley one before and one after the reflection)",
         "thorough": "K=2 deviations for every family (Guderley K=2 over pair x rho0 = full product); 2-4 times per family (Sedov 3, Guderley 4)"}
RULE = ("tasks = all parameter vectors with <=K deviations from the default over each family's alphabet (heavy families split per time); "
        "per vector every lattice time x 12 lattice points per smooth region between the loci located from the fields; an evaluation is one "
        "public solver call; a case (family, vector, time, region, point) is non-trivial when at least two terms of at least one equation "
        "exceed 1e-6 of the largest and the sum of |terms| is above 10x the rounding floor (i.e. not a constant state); distinct by that tuple")
ASSUMPTIONS = [
    "values outside the parameter/time/point alphabets are not explored",
    "the equations are transcribed from the package docstrings; the Coggeshall energy equation is taken in its conservative form "
    "rho De/Dt + p div u + div F = 0 (the docstring's first term T/(gamma-1) is a misprint of Gamma/(gamma-1))",
    "Coggeshall solutions documented without any conduction parameter (Cog1-7, 19-21, Noh2Cog) are checked with F = 0; those documented "
    "without lambda0 (Cog8, 9, 11, 12, 18) are checked for the hydrodynamic part and for div F = 0 separately",
    "a stencil is kept inside one smooth region: loci (jumps, kinks) are located from the returned fields at t and t +- 2*k_max and "
    "matched by proximity; the hull of each locus over the time stencil is excluded, a locus seen at only some of the three times is "
    "excluded with the largest displacement seen (counted); at most the documented number of loci per profile is excluded (12 for the "
    "general-EOS solver, whose p table adds interpolation kinks where it is coarse)",
    "a point is reported only if its residual exceeds the tolerance at every usable step size and so does a neighbouring lattice point of "
    "the same region (isolated candidates are counted, not alarmed on)",
    "Sedov (3001-point table) and the general-EOS Riemann solver (2001-point x grid + 501-point p table, as in the shared catalogue) are "
    "class C: steps >= 8 internal cells, tolerance 1e-2; GenEOS fan points where the p table does not resolve the fan (p < 33 dp) are counted, "
    "not judged; Sedov's documented untrusted small-radius region (fields exactly linear in r from the origin) is excluded only where "
    "rho/rho_shock < 1e-3 at its edge, and the tolerance is 0.2 where rho/rho_shock < 1e-2",
    "'wherever smooth' is decided at the scale of the stencil: a point is judged for an equation only if the equation's terms computed with "
    "two consecutive step sizes agree to tol/30; other points are counted (point_equations_not_smooth_at_stencil_scale)",
    "the planar conservation laws (Riemann, EHEP) are normalised by the terms of the same law after the product rule, because both terms of "
    "the conservation form vanish at a sonic point of a self-similar fan",
    "a local PDE check cannot see a change that replaces one exact local solution by another (e.g. a fan centred elsewhere, a fan computed "
    "with the other side's gamma together with its own energy): those break continuity/EOS/jump conditions (C02-C04)",
]

K = {"quick": 1, "thorough": 2}
DEBUG = None            # development aid: a dict here receives the per-point residuals of the last level
NPTS = 12
C_LIGHT = 2.997e10      # the constants the Coggeshall sources document
A_RAD = 1.3720e+02
LAZARUS = 0.750024322   # reduced oracle for the recorded Guderley time-unit finding (DESIGN.md 3.6)
# Sedov tolerance bands (rho / rho_post-shock at the point >= bound, tolerance, label).  The solver documents that its standard
# case loses accuracy at small radius (double precision of the similarity variable).  Measured on the thorough lattice (K=2,
# 3 times, 219 tasks): worst residual 3.9e-4 where rho/rho_2 >= 1e-2 (typically 1e-6..5e-5), 6.6e-3 (9.8e-3 with a looser
# smoothness gate) where rho/rho_2 < 1e-2 outside the exactly linear interpolated core; the core itself (rho/rho_2 < 1e-3 at
# its edge, excluded; extent 0.02..0.54 r_shock in the standard case) violates the equations by 0.56.
# Tolerances = 25x / 20x the measured worst; the cached-shock-radius mutant gives 0.16 (momentum, outer band) and 1.0.
SEDOV_BANDS = [(1e-2, 1e-2, "rho/rho_shock>=1e-2"), (0.0, 2e-1, "rho/rho_shock<1e-2")]

# tolerance classes (DESIGN.md 4.1).  eta = rounding-noise allowance of one returned value (relative);
# rsteps/tsteps = step sizes relative to the local length / time scale; cells = minimum steps in internal cells (class C)
# Worst residuals of the correct code MEASURED over the thorough lattice (K=2; 2090 tasks, 97 349 points, 301 803 point-equations;
# defective solutions excluded, Cog13/17/20 measured on the patched scratch tree):
#   A  tol1 = 1e-6 (first derivatives):  1.24e-8 (Cog21 momentum); smooth closed forms <= 4e-9, piecewise (Noh, Cog19-21, EHEP, IGEOS) <= 1.3e-8
#      tol2 = 1e-5 (second derivatives): 2.7e-7 (Cog8 div F = 0), other flux-free solutions <= 4.3e-10, energy with flux (Cog10/14/16) <= 3.2e-10
#   B  tol  = 1e-5 (Guderley, ODE rtol 5e-11): 9.4e-9 with the reduced oracle (4.0e-9 in user time on the unit-patched scratch tree)
#   C  tol  = 1e-2 (GenEOS, 2001-point x grid, 501-point p table): 2.6e-4 (mass; 3.0e-4 with a looser smoothness gate), where the
#      p table resolves the fan (p >= 33 dp; 8e-3 measured at p = 7 dp)
#      Sedov: see SEDOV_BANDS
# Residuals reported for the property-breaking changes tried (mutants/C01): 0.08..0.93 (class A), 0.21 (B), 0.16..1.0 (C).
CLS = {
    "A": dict(eta=1e-14, tol1=1e-6, tol2=1e-5, rsteps=(4e-3, 1e-3, 2.5e-4), tsteps=(4e-3, 1e-3, 2.5e-4), cells=None),
    # B and C: steps in ratio 2 so that the three time stencils share their points (t +- k, 2k, 4k, 8k: 8 calls, not 12)
    "B": dict(eta=1e-10, tol1=1e-5, tol2=1e-5, rsteps=(8e-3, 4e-3, 2e-3), tsteps=(8e-3, 4e-3, 2e-3), cells=None),
    "C": dict(eta=1e-8, tol1=1e-2, tol2=1e-2, rsteps=(1.6e-2, 8e-3, 4e-3), tsteps=(1.6e-2, 8e-3, 4e-3), cells=(32, 16, 8)),
}

# ----------------------------------------------------------------------------------------------------------------
# what the documentation says about each family (no expected values)
# ----------------------------------------------------------------------------------------------------------------


def _k(c, default=3):
    return c.get("geometry", default) - 1


def _cog_flux(n):
    """(mode, alpha(cfg), beta(cfg)) as documented in the solution's docstring."""
    par = lambda name: (lambda c: c[name])
    if n in (8, 9, 18):
        return ("free", par("alpha"), par("beta"))
    if n == 11:     # alpha = beta + 4 + (k-1)/(2-(gamma-1)(k+1))
        return ("free", lambda c: c["beta"] + 4.0 + (_k(c) - 1.0) / (2.0 - (c["gamma"] - 1.0) * (_k(c) + 1.0)), par("beta"))
    if n == 12:     # alpha = (beta+4)(1-gamma) + (k-1)(gamma+1)/(2k)
        return ("free", lambda c: (c["beta"] + 4.0) * (1.0 - c["gamma"]) + (_k(c) - 1.0) * (c["gamma"] + 1.0) / (2.0 * _k(c)), par("beta"))
    if n == 10:     # alpha = beta + 4 - 1/k
        return ("full", lambda c: c["beta"] + 4.0 - 1.0 / _k(c), par("beta"))
    if n == 16:     # alpha = 1 - 1/k, beta = alpha/2 - 3
        return ("full", lambda c: 1.0 - 1.0 / _k(c), lambda c: (1.0 - 1.0 / _k(c)) / 2.0 - 3.0)
    if n in (13, 14, 17):
        return ("full", par("alpha"), par("beta"))
    return None


def _spec():
    from xpmc import hydro_more
    S = {}
    t_t = lambda c, t: t
    S["Noh"] = dict(pde="entropy", cls="A", radial=True, maxloci=1, tscale=t_t)
    for nm in ("Noh2", "Noh2Cog"):
        S[nm] = dict(pde="lagrangian", cls="A", radial=True, maxloci=0, tscale=lambda c, t: 1.0 - t)
    for n in list(range(1, 15)) + [16, 17, 18, 19, 20, 21]:
        S["Cog%d" % n] = dict(pde="lagrangian", cls="A", radial=True, maxloci=1 if n >= 19 else 0, flux=_cog_flux(n),
                              tscale=(lambda c, t: c["tau"] - t) if n in (6, 7, 18) else t_t)
    S["Sedov"] = dict(pde="entropy", cls="C", radial=True, maxloci=3, tscale=t_t, sedov=True, split=True,
                      times={"quick": lambda c: [0.3, 1.0], "thorough": lambda c: [0.3, 1.0, 2.2]})
    for nm in ("IGEOS", "IGEOS_table"):
        S[nm] = dict(pde="conservation", cls="A", radial=False, maxloci=6, tscale=t_t, scan=4097)
    for nm in ("GenEOS", "GenEOS_table"):
        S[nm] = dict(pde="conservation", cls="C", radial=False, maxloci=12, tscale=t_t, geneos=True, split=True)
    # EHEP: times on both sides of t~ and of the C-D and B-D corner times (1.17..1.5 and 2.3..3.0 t~ over the alphabet); all of
    # regions I-V are met; the domain runs from the piston to beyond the front x = D t
    S["EHEP"] = dict(pde="conservation", cls="A", radial=False, maxloci=6, scan=1025,
                     tscale=lambda c, t: min(t, abs(t - c["xtilde"] / c["D"])),
                     times=lambda c: [f * c["xtilde"] / c["D"] for f in (0.5, 1.1, 2.0, 3.3)],
                     domain=lambda c, t: (c["up"] * t + 1e-9, min(9.9, 1.1 * max(c["xtilde"], c["D"] * t))))
    # Guderley costs 10-100 ms per POINT (one ODE integration each): 65-point scan + bisection to 1e-5 of the domain,
    # 6 lattice points per region; quick tier: one time before and one after the reflection
    S["Guderley"] = dict(pde="entropy", cls="B", radial=True, maxloci=2, tscale=lambda c, t: abs(t - LAZARUS), bisect=True, split=True,
                         reduced=LAZARUS, npts=6,
                         times={"quick": lambda c: [0.6, 0.9], "thorough": lambda c: [0.3, 0.6, 0.9, 1.2]})
    return S


_SPEC = None


def spec(name):
    global _SPEC
    if _SPEC is None:
        _SPEC = _spec()
    return _SPEC[name]


def families():
    import os
    from xpmc import hydro_more  # noqa: F401
    _ = spec("Noh")
    fams = [f for f in hydro.FAMILIES if f["name"] in _SPEC]
    only = os.environ.get("XPMC_C01_FAMILIES")      # development aid (mutant runs); registered commands never set it
    if only:
        fams = [f for f in fams if f["name"] in only.split(",")]
    return fams


def fam_times(f, sp, cfg, tier):
    tm = sp.get("times")
    if isinstance(tm, dict):
        tm = tm[tier]
    return list((tm or f["times"])(cfg))


def preimport():
    import scipy.integrate  # noqa: F401
    import scipy.optimize  # noqa: F401
    import scipy.interpolate  # noqa: F401
    for f in families():
        try:
            from xpmc.solvers import get_class
            get_class(f["path"])
        except Exception:
            pass


def tasks(tier, seed):
    out = []
    fams = families()
    # the per-time tasks of the expensive families are issued first (they determine the wall time); within a family
    # the order is simplest (fewest deviations) first
    fams = [f for f in fams if spec(f["name"]).get("split")][::-1] + [f for f in fams if not spec(f["name"]).get("split")]
    for f in fams:
        sp = spec(f["name"])
        k = K[tier]
        if f["cost"] == "heavy":
            k = min(K[tier], f.get("maxK", 1)) if tier != "quick" else f.get("quickK", 1)
        if f["name"].endswith("_table"):
            k = 2
        for dev in lattice.enumerate_checked(f["alphabet"], k):
            if sp.get("split"):
                cfg = lattice.full_cfg(f["alphabet"], dev)
                for ti in range(len(fam_times(f, sp, cfg, tier))):
                    out.append({"family": f["name"], "dev": dev, "tier": tier, "ti": ti})
            else:
                out.append({"family": f["name"], "dev": dev, "tier": tier})
    return out


# ----------------------------------------------------------------------------------------------------------------
# observation: fields on arbitrary (x, t) through the public call
# ----------------------------------------------------------------------------------------------------------------

NAMES = {"rho": "density", "u": "velocity", "p": "pressure", "e": "specific_internal_energy", "T": "temperature"}


class SolverRaised(Exception):
    """The public call raised: C20's business, counted here."""


class Probe:
    def __init__(self, f, sp, cfg, s, dg):
        self.f, self.sp, self.cfg, self.s, self.dg = f, sp, cfg, s, dg
        self.ncall = 0
        self.sentinel = None

    def fields(self, x, t):
        x = np.asarray(x, float)
        try:
            if self.sentinel is not None:
                sol = call(self.s, np.append(x, self.sentinel), t)
                cut = slice(0, -1)
            else:
                sol = call(self.s, x, t)
                cut = slice(None)
        except Exception as ex:
            raise SolverRaised(type(ex).__name__)
        self.ncall += 1
        out = {}
        for k, n in NAMES.items():
            if n in sol.dtype.names:
                out[k] = np.asarray(sol[n], float)[cut].copy()
                self.dg.add(out[k])
        return out

    def matrix(self, x, t):
        F = self.fields(x, t)
        return np.array([F[k] for k in ("rho", "u", "p", "T") if k in F])


# ----------------------------------------------------------------------------------------------------------------
# the documented equations
# ----------------------------------------------------------------------------------------------------------------

q_rho = lambda F: F["rho"]
q_u = lambda F: F["u"]
q_p = lambda F: F["p"]
q_e = lambda F: F["e"]


def eq_lagrangian(S, r, k, tol1, tol2, flux, cfg):
    rho, u, p = S.val(q_rho), S.val(q_u), S.val(q_p)
    eqs = []
    eqs.append(("pde:mass", [S.dt(q_rho), fd.lin(u, S.dr(q_rho)), fd.lin(rho, S.dr(q_u)), fd.plain(k * rho * u / r)], tol1))
    eqs.append(("pde:momentum", [fd.lin(rho, S.dt(q_u)), fd.lin(rho * u, S.dr(q_u)), S.dr(q_p)], tol1))
    hyd = [fd.lin(rho, S.dt(q_e)), fd.lin(rho * u, S.dr(q_e)), fd.lin(p, S.dr(q_u)), fd.plain(k * p * u / r)]
    if flux is None:
        eqs.append(("pde:energy", hyd, tol1))
        return eqs
    mode, fa, fb = flux
    al, be = fa(cfg), fb(cfg)
    # r^k rho^alpha T^beta and T^4 on the stencil: the abscissa of each stencil point is carried in F["x"]
    qKr = lambda F: F["x"] ** k * np.power(F["rho"], al) * np.power(F["T"], be)
    qG = lambda F: F["T"] ** 4
    with np.errstate(all="ignore"):
        dK, dG, d2G, Kc = S.dr(qKr), S.dr(qG), S.d2r(qG), S.val(qKr)
        if mode == "free":
            eqs.append(("pde:energy", hyd, tol1))
            eqs.append(("pde:heat-flux-divergence", [fd.prod(1.0, dK, dG), fd.lin(Kc, d2G)], tol2))
        else:
            cf = -(C_LIGHT * A_RAD * cfg["lambda0"] / 3.0) / r ** k
            eqs.append(("pde:energy", hyd + [fd.prod(cf, dK, dG), fd.lin(cf * Kc, d2G)], tol2))
    return eqs


def eq_entropy(S, r, k, gamma, tol1):
    rho, u, p = S.val(q_rho), S.val(q_u), S.val(q_p)
    return [
        ("pde:mass", [S.dt(q_rho), fd.lin(u, S.dr(q_rho)), fd.lin(rho, S.dr(q_u)), fd.plain(k * rho * u / r)], tol1),
        ("pde:momentum", [fd.lin(rho, S.dt(q_u)), fd.lin(rho * u, S.dr(q_u)), S.dr(q_p)], tol1),
        # D(p rho^-gamma)/Dt = 0 multiplied by rho^(gamma+1) so that vacuum / cold states are regular
        ("pde:entropy", [fd.lin(rho, S.dt(q_p)), fd.lin(rho * u, S.dr(q_p)), fd.lin(-gamma * p, S.dt(q_rho)),
                         fd.lin(-gamma * p * u, S.dr(q_rho))], tol1),
    ]


def eq_conservation(S, tol1):
    """Planar conservation form as documented; each residual is normalised by the terms of the same law after the
    product rule (primitive form), because d/dt and d/dx of a conserved density both vanish at a sonic point of a fan."""
    q_m = lambda F: F["rho"] * F["u"]
    q_pi = lambda F: F["rho"] * F["u"] ** 2 + F["p"]
    q_E = lambda F: 0.5 * F["rho"] * F["u"] ** 2 + F["rho"] * F["e"]
    q_H = lambda F: F["u"] * (0.5 * F["rho"] * F["u"] ** 2 + F["rho"] * F["e"] + F["p"])
    rho, u, p, e = S.val(q_rho), S.val(q_u), S.val(q_p), S.val(q_e)
    rt, ut, et = S.dt(q_rho)[0], S.dt(q_u)[0], S.dt(q_e)[0]
    rx, ux, px, ex = S.dr(q_rho)[0], S.dr(q_u)[0], S.dr(q_p)[0], S.dr(q_e)[0]
    E = 0.5 * rho * u ** 2 + rho * e
    return [
        ("pde:mass", [S.dt(q_rho), S.dr(q_m)], tol1, [rt, u * rx, rho * ux]),
        ("pde:momentum", [S.dt(q_m), S.dr(q_pi)], tol1, [rho * ut, u * rt, u * u * rx, 2 * rho * u * ux, px]),
        ("pde:energy", [S.dt(q_E), S.dr(q_H)], tol1,
         [0.5 * u * u * rt, rho * u * ut, rho * et, e * rt, (E + p) * ux, 0.5 * u ** 3 * rx, rho * u * u * ux, u * rho * ex, u * e * rx, u * px]),
    ]


def equations(f, sp, cfg, S, r, tier_cls):
    k = f["geom"](cfg) - 1
    if sp["pde"] == "lagrangian":
        return eq_lagrangian(S, r, k, tier_cls["tol1"], tier_cls["tol2"], sp.get("flux"), cfg)
    if sp["pde"] == "entropy":
        return eq_entropy(S, r, k, f["gamma"](cfg), tier_cls["tol1"])
    return eq_conservation(S, tier_cls["tol1"])


# ----------------------------------------------------------------------------------------------------------------
# structure of one time level
# ----------------------------------------------------------------------------------------------------------------

def _zones_dense(pr, sp, a, b, n, t, cell=None):
    xs = np.linspace(a, b, n)
    M = pr.matrix(xs, t)
    z = fd.detect(xs, M)
    if cell:     # class C: a locus is smeared over one internal cell and located to one scan cell
        for q in z:
            q["lo"] -= 2.0 * cell
            q["hi"] += 2.0 * cell
    return z, xs, M


def _zones_bisect(pr, sp, a, b, t):
    js = oracle.locate_jumps(lambda x: pr.matrix(x, t), a, b, n=65, geometric=True, max_jumps=4, tol=1e-5)
    w = 1e-4 * (b - a)
    return [{"lo": j["lo"] - w, "hi": j["hi"] + w, "jump": j["rel"], "kink": 0.0, "kind": "jump"} for j in js]


def sedov_setup(pr, t_hi):
    """Sentinel maximum radius (keeps the solver's internal 3001-point grid identical for every batch of this level):
    1.25 x the shock radius located from the fields at the latest time of the level (trial radii 1, 4, 16, ...)."""
    rmax = 1.0
    for _ in range(12):
        pr.sentinel = rmax
        xs = np.linspace(0.0, rmax, 751)
        M = pr.matrix(xs, t_hi)
        z = [q for q in fd.detect(xs, M, kinks=False) if q["kind"] == "jump"]
        if z:
            sh = max(z, key=lambda q: q["hi"])          # the shock is the outermost discontinuity
            if sh["hi"] < 0.3 * rmax:        # shock resolved by too few internal cells of this trial grid: zoom in
                rmax = 2.0 * sh["hi"]
                continue
            pr.sentinel = float("%.4g" % (1.25 * sh["hi"]))
            return pr.sentinel
        rmax *= 4.0
    return None


def linear_core(xs, M):
    """Sedov: largest index m such that all fields are linear in r on xs[0..m] to 1e-9 of their local size (fields exactly linear
    from the origin = the documented untrusted interpolation region).  Returns m (0 if none)."""
    n = len(xs)
    m = 0
    with np.errstate(all="ignore"):
        d2 = np.abs(M[:, :-2] - 2 * M[:, 1:-1] + M[:, 2:])
        ref = np.abs(M[:, :-2]) + np.abs(M[:, 2:]) + 1e-300
        ok = (d2 <= 1e-9 * ref).all(axis=0)
    for j in range(n - 2):
        if ok[j]:
            m = j + 2
        else:
            break
    return m


def level(f, sp, cfg, pr, t, tier, res, tkey):
    """All checks of one (vector, time).  Appends to res."""
    C = res["counters"]
    cls = CLS[sp["cls"]]

    def cnt(name, v=1):
        C[name] = C.get(name, 0) + v
    tau = sp["tscale"](cfg, t)
    ks = [g * tau for g in cls["tsteps"]]
    D = 2.0 * ks[0]
    if t - D <= 0 and sp["pde"] != "lagrangian":
        cnt("levels_skipped_time_stencil_reaches_t0")
        return
    cell = None
    if sp.get("sedov"):
        if sedov_setup(pr, t + D) is None:
            cnt("levels_skipped_no_shock_located")
            return
        a, b = 0.0, pr.sentinel
        cell = pr.sentinel / 3000.0
        nscan = 751
    else:
        a, b = (sp.get("domain") or f["domain"])(cfg, t)
        nscan = sp.get("scan", 4097)
        if sp.get("geneos"):
            pr.fields(np.array([a, b]), t)
            cell = float(np.max(np.diff(np.asarray(pr.s.x, float))))
            nscan = int(min(4097, max(257, (b - a) / (4.0 * cell)))) + 1
    zones3 = []
    scan0 = None
    for tt in (t - D, t, t + D):
        if sp.get("bisect"):
            z = _zones_bisect(pr, sp, a, b, tt)
        else:
            z, xs, M = _zones_dense(pr, sp, a, b, nscan, tt, cell)
            if tt == t:
                scan0 = (xs, M)
        z, dropped = fd.strongest(z, sp["maxloci"])
        if dropped:
            cnt("loci_beyond_documented_count_not_excluded", len(dropped))
        zones3.append(z)
    pad = (b - a) / (nscan - 1) if not sp.get("bisect") else 1e-4 * (b - a)
    hulls, unmatched = fd.hull(zones3, 1, 0.05 * (b - a), 2.0 * pad)
    if unmatched:
        cnt("loci_seen_at_only_some_times_of_the_stencil", unmatched)
    cnt("loci_excluded", len(hulls))
    segs = fd.segments(a, b, hulls, pad, edge=6.0 * pad)
    # Sedov: documented untrusted small-radius region
    rho_sh = None
    if sp.get("sedov") and scan0 is not None and segs:
        xs, M = scan0
        m = linear_core(xs, M[:3])
        jz = [q for q in zones3[1] if q["kind"] == "jump"]
        sh = max(jz, key=lambda q: q["hi"]) if jz else None      # the shock is the outermost discontinuity
        i_sh = int(np.searchsorted(xs, sh["lo"])) - 3 if sh else len(xs) - 1
        rho_sh = abs(M[0, max(i_sh, 0)])
        if not (rho_sh > 0 and np.isfinite(rho_sh)):      # no shock zone at this time: largest density of the profile (r > 0)
            fin_ = np.abs(M[0, 1:][np.isfinite(M[0, 1:])])
            rho_sh = float(fin_.max()) if fin_.size else None
        if m >= 8:
            edge = xs[m]
            ratio = abs(M[0, m]) / rho_sh if rho_sh > 0 else 0.0
            res["extent"].append({"t": t, "linear_core_over_shock_radius": float(edge / sh["lo"]) if sh else None, "rho_ratio_at_edge": float(ratio)})
            if ratio < 1e-3:
                cnt("sedov_untrusted_linear_core_excluded")
                segs = [(max(A, edge + 4 * cell), B) for A, B in segs if B > edge + 4 * cell]
            else:
                cnt("sedov_linear_core_not_excludable")
    X, H, REG = [], [], []
    for si, (A, B) in enumerate(segs):
        W = B - A
        if W <= 0:
            continue
        if cls["cells"]:
            hmin = max(cls["rsteps"][-1] * W, cls["cells"][-1] * cell)
            A2, B2 = A + 2 * hmin + cell, B - 2 * hmin - cell
            if B2 - A2 < 4 * cell:
                cnt("segments_too_narrow_for_a_stencil")
                continue
            x = fd.lattice(A2, B2, sp.get("npts", NPTS), False)
        else:
            x = fd.lattice(A, B, sp.get("npts", NPTS), sp["radial"] and A > 0 and B / A > 4)
        ell = np.minimum(W, np.abs(x)) if sp["radial"] else np.full_like(x, W)
        ell = np.where(ell > 0, ell, W)
        hs = []
        for i, g in enumerate(cls["rsteps"]):
            h = g * ell
            if cls["cells"]:
                h = np.maximum(h, cls["cells"][i] * cell)
            hs.append(h)
        X.append(x)
        H.append(np.array(hs))
        REG.append(np.full(len(x), si))
    if not X:
        cnt("levels_without_a_usable_segment")
        return
    X = np.concatenate(X)
    H = np.concatenate(H, axis=1)             # nsteps x n
    REG = np.concatenate(REG)
    segA = np.array([segs[i][0] for i in REG])
    segB = np.array([segs[i][1] for i in REG])
    n = len(X)
    ns = H.shape[0]
    # one call for every r-stencil point, 4*ns calls for the time stencils
    offs = [(i, j) for i in range(ns) for j in (-2, -1, 1, 2)]
    allx = np.concatenate([X] + [X + j * H[i] for i, j in offs])
    Fall = pr.fields(allx, t)
    fc = {k: v[:n] for k, v in Fall.items()}
    fc["x"] = X
    fr = {}
    for m, (i, j) in enumerate(offs):
        d = {k: v[(m + 1) * n:(m + 2) * n] for k, v in Fall.items()}
        d["x"] = X + j * H[i]
        fr[(i, j)] = d
    ft = {}
    tcache = {}
    for i in range(ns):
        for j in (-2, -1, 1, 2):
            key = round(j * ks[i] / ks[-1], 6)          # offsets in units of the smallest step: shared when steps are nested
            if key not in tcache:
                d = pr.fields(X, t + j * ks[i])
                d["x"] = X
                tcache[key] = d
            ft[(i, j)] = tcache[key]
    names = [k for k in fc if k != "x"]
    gate = np.ones(n, bool)
    if sp.get("geneos"):
        # documented resolution of the rarefaction table: num_int_pts pressures equally spaced between the side's initial
        # pressure and 0; the fan is a linear interpolant in p, so it is resolved only where p >> dp (error ~ 0.45 (dp/p)^2
        # measured).  Side from the data: left fan has u - a = xi < u, right fan xi > u.
        from xpmc import hydro_more
        c_ = hydro_more._riemann_cfg(cfg)
        xi = (X - c_["xd0"]) / t
        pside = np.where(xi < fc["u"], c_["pl"], c_["pr"])
        gate = fc["p"] >= 33.0 * pside / (pr.s.num_int_pts + 1.0)
        cnt("points_under_resolved_by_the_p_table", int((~gate).sum()))
    # tolerance bands: one band with the class tolerance, except Sedov (see SEDOV_BANDS)
    band = np.zeros(n, int)
    band_labels = [""]
    band_scale = np.ones(n)
    if sp.get("sedov") and rho_sh:
        ratio_ = np.abs(fc["rho"]) / rho_sh
        band = np.where(ratio_ >= SEDOV_BANDS[0][0], 0, 1)
        band_labels = [b_[2] for b_ in SEDOV_BANDS]
        band_scale = np.where(band == 0, SEDOV_BANDS[0][1], SEDOV_BANDS[1][1]) / cls["tol1"]
    variants = [("", 1.0)]
    if sp.get("reduced"):
        variants.append((":lazarus-time-units", sp["reduced"]))
    # per (variant, clause, step): residual, non-triviality, usable mask, term values (for the smoothness gate)
    per = {}
    for i in range(ns):
        valid = (X - 2 * H[i] >= segA) & (X + 2 * H[i] <= segB)
        for vtag, tf in variants:
            S = fd.Stencil(fc, {j: fr[(i, j)] for j in (-2, -1, 1, 2)}, {j: ft[(i, j)] for j in (-2, -1, 1, 2)}, H[i], ks[i], cls["eta"], tf)
            okf = S.finite(names)
            with np.errstate(all="ignore"):
                eqs = equations(f, sp, cfg, S, X, cls)
            for eq in eqs:
                clause, terms, tol = eq[:3]
                tol = tol * band_scale
                r_, nt_ = fd.balance(terms, tol, eq[3] if len(eq) > 3 else None)
                per[(vtag, clause, i)] = (r_, nt_, valid & okf & gate, np.array([t_[0] for t_ in terms]),
                                          np.array([t_[1] for t_ in terms]).sum(axis=0), tol)
    # "wherever smooth", measured at the scale of the stencil: a point is judged for an equation only if the terms of that
    # equation computed with two consecutive step sizes agree to kappa = tol/30 (a stencil over a kink, an unresolved table
    # cell or solver noise fails this; a smooth but wrong field passes it and is judged)
    best = {}          # (variant, clause) -> [res array (inf where not judged), nontrivial array, tol]
    for vtag, _tf in variants:
        for clause in sorted({c for (v_, c, _i) in per if v_ == vtag}):
            tol = per[(vtag, clause, 0)][5]
            kappa = tol / 30.0
            r0 = np.full(n, np.inf)
            nt0 = np.zeros(n, bool)
            for i in range(ns - 1):
                ra, na, ua, Va, Na, _ = per[(vtag, clause, i)]
                rb, nb, ub, Vb, Nb, _ = per[(vtag, clause, i + 1)]
                with np.errstate(all="ignore"):
                    inc = np.abs(Va - Vb).sum(axis=0) / (np.abs(Va).sum(axis=0) + np.abs(Vb).sum(axis=0) + (Na + Nb) / kappa + 1e-300)
                ok = ua & ub & (inc <= kappa)
                r0 = np.where(ok, np.minimum(r0, np.minimum(ra, rb)), r0)
                nt0 |= ok & (na | nb)
            best[(vtag, clause)] = [r0, nt0, tol]
    usable = np.zeros(n, bool)
    for (vtag, clause, i), v_ in per.items():
        if vtag == "":
            usable |= v_[2]
    anyvalid = np.zeros(n, bool)
    for (vtag, clause), v_ in best.items():
        if vtag == "":
            anyvalid |= np.isfinite(v_[0])
    cnt("points_not_smooth_at_stencil_scale", int((usable & ~anyvalid).sum()))
    cnt("point_equations_judged", int(sum(np.isfinite(v_[0]).sum() for (vt_, c_), v_ in best.items() if vt_ == "")))
    cnt("point_equations_not_smooth_at_stencil_scale", int(sum((usable & ~np.isfinite(v_[0])).sum() for (vt_, c_), v_ in best.items() if vt_ == "")))
    if DEBUG is not None:
        DEBUG.update(X=X, REG=REG, best=best, H=H, segs=segs, anyvalid=anyvalid)
    cnt("points_without_usable_stencil", int((~anyvalid).sum()))
    cnt("points_checked", int(anyvalid.sum()))
    cnt("levels_checked")
    nontriv = np.zeros(n, bool)
    worst = res["worst"]
    clauses = sorted({c for (_, c) in best})
    for clause in clauses:
        r0, nt0, tol = best[("", clause)]
        judged = np.isfinite(r0)
        nontriv |= nt0 & judged
        bad = judged & (r0 > tol)
        for bi, bl in enumerate(band_labels):
            fin = np.where(judged & (band == bi) & ~bad, r0, 0.0)
            wk = "%s|%s%s" % (f["name"], clause, ("|" + bl) if bl else "")
            if fin.size and fin.max() > worst.get(wk, 0.0):
                worst[wk] = float(fin.max())
        if sp.get("reduced"):
            rr_ = best[(":lazarus-time-units", clause)][0]
            rr_ = np.where(np.isfinite(rr_), rr_, 0.0)
            wk = "%s|%s|reduced-oracle(d/dt x %.9f)" % (f["name"], clause, sp["reduced"])
            if rr_.size and rr_.max() > worst.get(wk, 0.0):
                worst[wk] = float(rr_.max())
        if not bad.any():
            continue
        # neighbour rule: two adjacent lattice points of the same region must both fail
        for si in np.unique(REG[bad]):
            idx = np.where(REG == si)[0]
            b_ = bad[idx]
            pair = b_[:-1] & b_[1:]
            if not pair.any():
                cnt("isolated_candidates", int(b_.sum()))
                continue
            ii = idx[b_]
            iw = int(ii[np.argmax(r0[ii])])
            cl = clause
            if sp.get("reduced"):
                rr = best[(":lazarus-time-units", clause)][0][ii]
                if np.isfinite(rr).any() and (rr[np.isfinite(rr)] <= tol[ii][np.isfinite(rr)]).all():
                    cl = clause + ":lazarus-time-units"     # fails in user time, passes with d/dt scaled: the recorded finding
            res["violations"].append({
                "solver": f["name"], "cfg": cfg, "clause": cl, "where": {"t": t, "region": int(si)},
                "value": float(min(r0[iw], 1e300)), "tol": float(tol[iw]),
                "detail": {"x": float(X[iw]), "n_bad_points": int(b_.sum()), "n_points": int(len(idx)),
                           "segment": [float(segs[si][0]), float(segs[si][1])],
                           "residual_min_over_bad_points": float(r0[ii].min())}})
    for i in np.where(nontriv)[0]:
        res["nontrivial"].append("%s|%s|%d|%d" % (tkey, repr(t), REG[i], i))
    if res["sample"] is None:
        res["sample"] = {"family": f["name"], "cfg": cfg, "t": t, "segments": [[float(A), float(B)] for A, B in segs][:6],
                         "loci": [[float(lo), float(hi)] for lo, hi in hulls][:6], "n_points": int(n),
                         "clauses": clauses, "steps_r_first_point": [float(h[0]) for h in H], "steps_t": [float(k_) for k_ in ks],
                         "worst_residual": {c: float(np.where(np.isfinite(best[("", c)][0]), best[("", c)][0], 0.0).max()) for c in clauses}}


def run_task(task):
    from xpmc import hydro_more  # noqa: F401  (registers the remaining families)
    f = hydro.by_name(task["family"])
    sp = spec(task["family"])
    cfg = lattice.full_cfg(f["alphabet"], task["dev"])
    tier = task.get("tier", "quick")
    dg = Digest()
    res = {"evals": 0, "nontrivial": [], "violations": [], "counters": {}, "sample": None, "worst": {}, "extent": []}
    C = res["counters"]
    try:
        s = hydro.make(f, cfg)
    except Inadmissible:
        C["inadmissible_vectors"] = 1
        res["digest"] = dg.add("inadmissible").hex()
        return res
    except Exception as ex:
        C["construct_exceptions"] = 1
        C["cexc:%s:%s" % (f["name"], type(ex).__name__)] = 1
        res["digest"] = dg.add("cexc", type(ex).__name__).hex()
        return res
    pr = Probe(f, sp, cfg, s, dg)
    times = fam_times(f, sp, cfg, tier)
    if "ti" in task:
        times = [times[task["ti"]]]
    tkey = "%s|%s" % (f["name"], sorted(task["dev"].items()))
    for t in times:
        try:
            level(f, sp, cfg, pr, t, tier, res, tkey)
        except SolverRaised as ex:
            # a raising public call is C20's business; here it is counted, not judged
            C["call_exceptions"] = C.get("call_exceptions", 0) + 1
            key = "exc:%s:%s" % (f["name"], ex.args[0])
            C[key] = C.get(key, 0) + 1
            dg.add("exc", ex.args[0])
    res["evals"] = pr.ncall
    res["digest"] = dg.hex()
    return res          # "worst" and "extent" are side channels picked up by postprocess


def postprocess(agg, tier):
    worst = {}
    extent = []
    for r in agg["results"]:
        if not r:
            continue
        for k_, v in r.get("worst", {}).items():
            if v > worst.get(k_, 0.0):
                worst[k_] = v
        extent.extend(r.get("extent", []))
    out = {"worst_passing_residual_by_family_clause": {k_: worst[k_] for k_ in sorted(worst)}}
    import os
    if os.environ.get("XPMC_C01_FAMILIES"):      # development runs on a subset are never called exhaustive
        out["capped"] = True
        out["families_restricted_by_env"] = os.environ["XPMC_C01_FAMILIES"]
    if extent:
        vals = [e["linear_core_over_shock_radius"] for e in extent if e.get("linear_core_over_shock_radius")]
        if vals:
            out["sedov_linear_core_over_shock_radius_min_max"] = [min(vals), max(vals)]
            out["sedov_linear_core_rho_ratio_max"] = max(e["rho_ratio_at_edge"] for e in extent)
    return out
