"""C02 -- every shock, detonation front and contact obeys the Rankine-Hugoniot relations.

Mode L: every parameter vector within K deviations of the default (K=1 quick, K=2 thorough; full product for the
black-box Noh lattice) of every solver family whose solution contains a discontinuity, at every lattice time.
Per (vector, time): the discontinuities are located *from the returned fields* (scan + subdivision to 1e-13), each is
re-located at neighbouring times t +/- dt, t +/- 2dt for several step sizes, the speed is the finite difference of the
located positions, the one-sided states are the fields at the two ends of the final bracket (same public call), and the
jump conditions are evaluated in the textbook form (x_c02_jumps.jump_residuals).  Nothing is taken from the solver's
own `jumps` report or from its wave-speed formulas.
"""
import math
import os

import numpy as np

from xpmc import lattice, oracle
from xpmc import x_c02_jumps as J
from xpmc import x_c02_families as X
from xpmc.engine import Digest
from xpmc.solvers import Inadmissible

ID = "C02"
LEVEL = "exploration"
TECHNIQUE = ("bounded exhaustive enumeration of deviation-bounded parameter lattices on the real solvers (explicit-state exploration, "
             "mode L) with a Rankine-Hugoniot oracle evaluated on every discontinuity located from the returned fields")
CLAIM = ("Every parameter vector within K deviations of the default (K=1 quick, K=2 thorough; the full product for black-box Noh) of the "
         "16 solver families whose solutions contain a shock, detonation front or contact is constructed and called at every lattice time; "
         "every discontinuity found in the returned fields is tracked over neighbouring times and the mass, momentum and energy jump "
         "conditions (contacts: [p]=[u]=0, s=u; reaction zone: mass and momentum flux at every lattice point; elastic-plastic waves with "
         "total stress) are evaluated with the speed implied by the located positions. Exhaustive over the stated alphabet; right level "
         "because the property is an algebraic identity at finitely many loci per solution whose failure modes are parameter-dependent "
         "formulas, which lattice coverage of every parameter that enters the jump conditions exposes.")
LEVEL_NOTE = ("trusted: numpy, the transcription of the jump conditions in xpmc/x_c02_jumps.py, the memoised Guderley exponent (keyed by the hash "
              "of eexp.py) and an in-process memo of guderley.ramsey.get_shock_position (pure function, computed by the real code once per task); "
              "assumed: defects confined to parameter values between lattice values are not seen; RMTV ignores t, so its shock speed is checked "
              "only through the speed-independent combination of mass and momentum, [T]=0 and the similarity scaling of the implied speed")
BOUND = {"quick": "K=1 deviations from the default vector (black-box Noh: full product 7 EOS x 3 geometries x 5 initial states x 6 Newton guesses; "
                  "tabulated Riemann problems x mirror: full product; general-EOS Riemann: last lattice time only)",
         "thorough": "K=2 deviations (black-box Noh and tabulated Riemann problems: full product; Guderley: all 10 cached vectors)"}
RULE = ("tasks = all parameter vectors with <=K deviations from the default over each family's alphabet (x lattice time for the heavy "
        "families); an evaluation is one public solver call; a case is one located discontinuity (or, for SDRZ, the reaction zone of one "
        "profile; for Mader, the front state of one profile); it is non-trivial when some field jumps by more than 1e-3 relative across "
        "it and the jump survives the one-sided-variation test; distinct by (family, vector, time, wave index)")
ASSUMPTIONS = [
    "values outside the parameter/time alphabets are not explored",
    "a discontinuity is what the locator recognises: a relative jump > 1e-3 in some field that persists down to a bracket of 1e-13 (class C: 3 internal cells) and whose one-sided variation over 16 bracket widths is < 5 % of the jump",
    "detonation fronts (EHEP, Mader) release the documented heat q = D^2 / (2 (gamma^2 - 1)); Mader's upstream density is not returned, so mass and momentum are checked in the combination that eliminates it",
    "Sedov is evaluated at nodes of its documented internal grid (each point in its own batch [x, 375 x]) where no interpolation takes place",
    "black-box Noh: a Newton solve that raises or converges to a root without a shock in r > 0 is counted, not judged (C16/C20)",
    "RMTV: the solver ignores t; the absolute shock speed is not observable through the public interface",
]

# family -> (K quick, K thorough, one task per time?)
FAMILIES = {      # heavy families first (load balance); inside a family the enumeration is simplest-first
    "Guderley": (1, 2, True), "GenEOS": (1, 2, True), "GenEOS_table": (2, 2, True), "Sedov": (1, 2, True), "RMTV": (1, 2, False),
    "BBNoh": (4, 4, False), "IGEOS": (1, 2, False), "IGEOS_table": (2, 2, False), "IGEOS_bnd": (2, 2, False),
    "Noh": (1, 2, False), "Cog19": (1, 2, False), "Cog20": (1, 2, False), "Cog21": (1, 2, False),
    "EPpiston": (1, 2, False), "EHEP": (1, 2, False), "SDRZ": (1, 2, False), "Mader": (2, 2, False),
}

# Tolerances: >= 10 x the worst residual of the unchanged code over the *thorough* lattice (measured value in the comment;
# every run writes the current maxima to evidence coverage.worst_passing_residual).  The seeded changes of mutants/C02
# produce residuals 1.6e-3 ... 0.9, i.e. >= 1e5 x the class-A tolerances.
TOL = {
    "Noh": 1e-9,           # measured 3.8e-14
    "Cog19": 1e-9,         # measured 8.1e-14
    "Cog20": 1e-9,         # (every case violates: finding cog20-shock-location)
    "Cog21": 1e-8,         # measured 2.7e-12 (4th-order difference of r ~ t^-2)
    "BBNoh": 1e-7,         # Newton tolerance 1e-10; measured 2.2e-15 (default state and reduced oracle rhIC)
    "IGEOS": 1e-8, "IGEOS_table": 1e-8, "IGEOS_bnd": 1e-8,     # measured 7.4e-12 (bisection on p* to 2e-12), LeBlanc 1.8e-10
    "GenEOS": 6e-2, "GenEOS_table": 6e-2,   # class C: p-u curves tabulated at 501 points and interpolated linearly; measured 6.0e-3 (LeBlanc:
                                            # the star pressure lies inside the first interval of the shock table), 1.6e-3 otherwise
    "EPpiston": 1e-9,      # measured 3.2e-15 (overdriven vectors: 6.0e-6, finding ep-piston-overdriven-not-rejected)
    "EHEP": 1e-5,          # region assignment has a 1e-6 wide noisy band (see x_c02_families.EHEPA); measured 3.2e-8
    "SDRZ": 1e-9,          # front; measured 1.9e-14.  reaction zone: SDRZ_ZONE_TOL
    "Mader": 1e-8,         # front state extrapolated from cell means of width 1e-6 D t; measured 6.6e-11
    "Sedov": 1e-4,         # fminbound on (lambda - lambda_want)^2 resolves v to ~1e-8: measured 1.1e-6
    "Guderley": 1e-7,      # reduced oracle (Lazarus time), 4th-order difference at dt/t = 1e-3; measured 1.3e-10
    "RMTV": 1e-8,          # measured 9.3e-14
}
SDRZ_ZONE_TOL = 3e-4       # linear interpolation in a 201-point table: measured 1.2e-5
# a discontinuity is a contact when no mass crosses it: |u - s| <= CTOL x velocity scale on both sides
CTOL = {"GenEOS": 3e-2, "GenEOS_table": 3e-2, "EHEP": 1e-5}     # GenEOS: measured [u] across a contact 2.3e-3 (two interpolations)
CTOL_DEFAULT = 1e-6
GUDERLEY_FACTOR = 0.750024322   # t_user = 0.750024322 (t_Lazarus + 1)  (ramsey.py; finding guderley-time-units)


def tasks(tier, seed):
    out = []
    only = [x for x in os.environ.get("XPMC_ONLY_FAMILIES", "").split(",") if x]     # development only (mutant runs); never set by registered commands
    for name, (kq, kt, split) in FAMILIES.items():
        if only and name not in only:
            continue
        k = kq if tier == "quick" else kt
        alpha = X.alphabet(name)
        for dev in lattice.enumerate_checked(alpha, k):
            if split:
                cfg = lattice.full_cfg(alpha, dev)
                for t in X.times(name, cfg, tier):
                    out.append({"family": name, "dev": dev, "t": t})
            else:
                out.append({"family": name, "dev": dev})
    return out


# ----------------------------------------------------------------------------------------------
# per-profile analyses
# ----------------------------------------------------------------------------------------------

def generic_cases(A, t, cnt):
    """Locate, track and judge every discontinuity of the profile at time t.  Returns (cases, info)."""
    name = A.fam["name"]
    ctol = CTOL.get(name, CTOL_DEFAULT)
    a, b = A.window(t)
    pad, xtol = 0.0, A.xtol
    if hasattr(A, "cell"):
        c = A.cell(t)
        pad, xtol = 2.0 * c, 1e-13      # class C: brackets stop at 3 cells (xabs = 1.5 pad) and are widened by 2 cells
    F = lambda x: A.Fat(x, t)
    jumps = J.locate(F, a, b, n=A.scan, geometric=A.geometric, arity=A.arity, xtol=xtol, max_jumps=A.max_jumps, cnt=cnt, pad=pad)
    cases = []
    for k, j in enumerate(jumps):
        sp = J.speed_fd(A.Fat, j, t, A.rel_steps, A.window, arity=A.arity, cnt=cnt, order=A.order, xtol=xtol,
                        origin=A.origin, pad=pad)
        best = {}
        kinds = set()
        speeds = []
        for dt, s in sp:
            if s is None:
                continue
            speeds.append(s)
            kind, res = J.jump_residuals(j["L"], j["R"], s, ctol=ctol, q=A.q, energy=A.energy, Vfloor=1e-6 * j["V"])
            kinds.add(kind)
            if name == "Guderley":
                # reduced oracle for the recorded defect (velocities are per unit Lazarus time, positions move in user time)
                _, resL = J.jump_residuals(j["L"], j["R"], s * GUDERLEY_FACTOR, ctol=ctol, Vfloor=1e-6 * j["V"])
                res.update({"rhL:" + c.split(":", 1)[1]: v for c, v in resL.items()})
            if A.origin is not None and kind == "shock":
                x0, t0 = A.origin
                res["speed:x_s=x0+s*t"] = abs(s * (t - t0) - (j["x"] - x0)) / max(abs(j["x"] - x0), abs(s * (t - t0)), 1e-300)
            for c, v in res.items():
                best[c] = min(best.get(c, np.inf), v)
        case = {"wave": k, "x": j["x"], "rel": j["rel"], "L": j["L"], "R": j["R"], "speeds": speeds, "res": best,
                "kind": "/".join(sorted(kinds)) or "untracked", "tracked": bool(speeds)}
        cases.append(case)
    return cases


def sdrz_zone(A, t, cnt):
    """Steady reaction zone: rho (D - u) = rho0 D and p + rho (D - u)^2 = rho0 D^2 at every lattice point behind the front."""
    D, r0 = A.cfg["D"], A.cfg["rho_0"]
    x = D * t * (np.arange(200) + 0.5) / 200.0
    M = A.Fat(x, t)
    cnt.calls += 1
    rho, u, p = M[J.RHO], M[J.U], M[J.P]
    mass = oracle.relres(rho * (D - u), -r0 * D * np.ones_like(rho))
    mom = oracle.relres(p, rho * (D - u) ** 2, -r0 * D * D * np.ones_like(rho))
    i, k = int(np.argmax(mass)), int(np.argmax(mom))
    return {"wave": "zone", "x": float(x[i]), "rel": float(np.ptp(p) / max(np.abs(p).max(), 1e-300)), "kind": "reaction-zone",
            "tracked": True, "speeds": [D], "L": M[:, 0], "R": M[:, -1],
            "res": {"zone:mass-flux": float(mass[i]), "zone:momentum-flux": float(mom[k])}, "tolmap": {"zone:": SDRZ_ZONE_TOL}}


def mader_front(A, t, cnt):
    """CJ state of the Mader problem.  The solver's coordinate is the distance behind the front (front at r = 0, returned
    field xdet = D t - r is the laboratory position) and its values are means over cells of width (r[-1]-r[0])/N; the
    state at the front is the quadratic extrapolation to r = 0 of the first cells of a fine grid (cell 1e-6 D t)."""
    c = A.cfg
    D, g, pcj = c["d_cj"], c["gamma"], c["p_cj"]
    n = 32
    h = 1e-6 * D * t
    r = (np.arange(n) + 0.5) * h

    def front(tt):
        sol = A.raw(r, tt)
        cnt.calls += 1
        out = {}
        for nm in ("velocity", "pressure", "density", "sound_speed", "xdet"):
            y = np.asarray(sol[nm], float)[:6]
            out[nm] = float(np.polyval(np.polyfit(r[:6] / h, y, 2), 0.0))
        return out
    f0 = front(t)
    best = {}
    speeds = []
    for rs in (1e-2, 1e-3):
        dt = rs * t
        s = (front(t + dt)["xdet"] - front(t - dt)["xdet"]) / (2 * dt)      # laboratory position of the front: xdet at r=0
        speeds.append(s)
        u, p, rho = f0["velocity"], f0["pressure"], f0["density"]
        e = p / ((g - 1.0) * rho)                                            # documented EOS p = (gamma-1) rho e
        q = D * D / (2.0 * (g * g - 1.0))                                    # documented reaction enthalpy
        w = s - u
        res = {
            # upstream at rest, p0 = 0: rho0 s = rho w and rho0 s^2 = p + rho w^2  =>  p = rho w u  (rho0 eliminated)
            "cj:mass+momentum": float(oracle.relres(p, -rho * w * u)),
            # e + p/rho + w^2/2 = q + s^2/2
            "cj:energy": float(oracle.relres(e, p / rho, 0.5 * w * w, -q, -0.5 * s * s)),
            "cj:p=p_cj": float(oracle.mismatch(np.array([p]), np.array([pcj]))[0]),
        }
        for cl, v in res.items():
            best[cl] = min(best.get(cl, np.inf), v)
    S = np.array([f0["density"], f0["velocity"], f0["pressure"], NAN, 0.0])
    return {"wave": "front", "x": 0.0, "rel": 1.0, "kind": "detonation", "tracked": True, "speeds": speeds, "L": S, "R": S, "res": best}


NAN = float("nan")


def rmtv_cases(A, t, cnt):
    """Isothermal shock of the RMTV problem.  The solver ignores t (the front radius rf is a parameter), so no speed can
    be measured from positions.  Checked: [T] = 0; the speed-free combination of mass and momentum,
    (u1-u2)^2 = (p1-p2)(1/rho2 - 1/rho1); and that the speed implied by mass conservation scales with the front radius
    as the similarity law demands, s ~ rf^(1 - 1/alpha), alpha = (2b-1)/(2b-2-kappa(1-a)) by dimensional analysis of
    the documented equations with kappa measured from the returned cold density profile rho = g0 r^kappa."""
    a, b = A.window(t)
    F = lambda x: A.Fat(x, t)
    jumps = J.locate(F, a, b, n=A.scan, arity=A.arity, max_jumps=A.max_jumps, cnt=cnt)
    out = []
    for k, j in enumerate(jumps):
        L, R = j["L"], j["R"]
        sol = A.raw(np.array([j["lo"], j["hi"]]), t)
        T = np.asarray(sol["temperature"], float)
        res = {"rh:isothermal[T]=0": float(oracle.relres(T[0], -T[1])),
               "rh:mass+momentum": float(oracle.relres((L[J.U] - R[J.U]) ** 2, -(L[J.P] - R[J.P]) * (1.0 / R[J.RHO] - 1.0 / L[J.RHO])))}
        s_imp = (L[J.RHO] * L[J.U] - R[J.RHO] * R[J.U]) / (L[J.RHO] - R[J.RHO])
        # neighbouring "time": a second solver whose heat front is 25 % further out
        rf = A.cfg["rf"]
        cfg2 = dict(A.cfg)
        cfg2["rf"] = 1.25 * rf
        A2 = X.adapter("RMTV", cfg2)
        a2, b2 = A2.window(t)
        j2 = J.locate(lambda x: A2.Fat(x, t), a2, b2, n=A2.scan, arity=A2.arity, max_jumps=1, cnt=cnt)
        cold = A.raw(np.array([1.05 * rf, 1.25 * rf]), t)
        kappa = math.log(cold["density"][1] / cold["density"][0]) / math.log(1.25 / 1.05)
        av, bv = A.s.aval, A.s.bval
        alpha = (2 * bv - 1.0) / (2 * bv - 2.0 - kappa * (1.0 - av))
        if j2:
            L2, R2 = j2[0]["L"], j2[0]["R"]
            s2 = (L2[J.RHO] * L2[J.U] - R2[J.RHO] * R2[J.U]) / (L2[J.RHO] - R2[J.RHO])
            res["rh:speed-scaling"] = float(oracle.relres(s2 / s_imp, -(1.25 ** (1.0 - 1.0 / alpha))))
            res["rh:position-scaling"] = float(oracle.relres(j2[0]["x"] / j["x"], -1.25))
        out.append({"wave": k, "x": j["x"], "rel": j["rel"], "kind": "isothermal-shock", "tracked": True, "speeds": [float(s_imp)],
                    "L": L, "R": R, "res": res})
    return out


def bbnoh_reduced(A, t, case):
    """Reduced oracle for the recorded defect `bbnoh-unshocked-state-ignores-initial-conditions`: the jump conditions with
    the *constructor's* initial state (documented pre-shock solution rho0 (1 - u0 t / r)^m, u0, p0) on the unshocked side,
    the returned state on the shocked side and the located speed."""
    ic = A.cfg.get("ic", [1, -1, 0])
    m = A.cfg["geometry"] - 1
    r = case["x"]
    rho_pre = ic[0] * (1.0 - ic[1] * t / r) ** m
    e0 = float(A.s._xp_eos.e(ic[0], ic[2]))
    R = np.array([rho_pre, ic[1], ic[2], e0, 0.0])
    best = {}
    for s in case["speeds"]:
        _, res = J.jump_residuals(case["L"], R, s, ctol=CTOL_DEFAULT)
        for c, v in res.items():
            best["rhIC:" + c.split(":", 1)[1]] = min(best.get("rhIC:" + c.split(":", 1)[1], np.inf), v)
    return best


# ----------------------------------------------------------------------------------------------

def run_task(task):
    name = task["family"]
    alpha = X.alphabet(name)
    cfg = lattice.full_cfg(alpha, task["dev"])
    dg = Digest()
    res = {"evals": 0, "nontrivial": [], "violations": [], "counters": {}, "sample": None, "worst": {}}
    C = res["counters"]

    def bump(k, n=1):
        C[k] = C.get(k, 0) + n
    try:
        A = X.adapter(name, cfg)
    except Inadmissible:
        bump("inadmissible_vectors")
        res["digest"] = dg.add("inadmissible").hex()
        return res
    except Exception as ex:                       # C20's business; counted
        if not X.solver_fault(ex):
            raise
        bump("construct_exceptions")
        bump("cexc:%s:%s" % (name, type(ex).__name__))
        res["digest"] = dg.add("cexc", type(ex).__name__).hex()
        return res
    times = [task["t"]] if "t" in task else X.times(name, cfg, task.get("tier", "thorough"))
    tol = TOL[name]
    for t in times:
        cnt = J.Counter()
        try:
            if name == "RMTV":
                cases = rmtv_cases(A, t, cnt)
            elif name == "Mader":
                cases = [mader_front(A, t, cnt)]
            else:
                cases = generic_cases(A, t, cnt)
                if name == "SDRZ":
                    cases.append(sdrz_zone(A, t, cnt))
        except Exception as ex:                   # a raising call is C20's business (e.g. Newton divergence in black-box Noh)
            if not X.solver_fault(ex):
                raise
            bump("call_exceptions")
            bump("exc:%s:%s" % (name, type(ex).__name__))
            dg.add("exc", type(ex).__name__, float(t))
            continue
        bump("profiles")
        if not cases:
            bump("profiles_without_discontinuity")
        where_extra = {}
        if name.startswith("IGEOS") or name.startswith("GenEOS"):
            st = str(getattr(A.s, "soln_type", ""))
            where_extra = {"pattern": st.split("-")[-1], "du": float(A.rc["ul"] - A.rc["ur"])}
        for case in cases:
            dg.add(float(case["x"]), np.asarray(case["L"], float), np.asarray(case["R"], float), [float(s) for s in case["speeds"]])
            if not case["tracked"]:
                bump("untracked_discontinuities")
                continue
            if not np.isfinite(np.concatenate([case["L"][:3], case["R"][:3]])).all():
                # a NaN/inf state next to a discontinuity is C20's business (e.g. black-box Noh "converging" to NaN)
                bump("nonfinite_state_cases")
                continue
            bump("cases:" + case["kind"])
            r = dict(case["res"])
            if name == "BBNoh" and list(cfg.get("ic")) != [1, -1, 0]:
                r.update(bbnoh_reduced(A, t, case))
            res["nontrivial"].append("%s|%s|%g|%s" % (name, sorted(task["dev"].items()), t, case["wave"]))
            for clause, v in sorted(r.items()):
                tl = tol
                for pref, tv in case.get("tolmap", {}).items():
                    if clause.startswith(pref):
                        tl = tv
                bump("clauses_checked")
                if v <= tl:
                    wk = "%s|%s" % (name, clause)
                    res["worst"][wk] = max(res["worst"].get(wk, 0.0), float(v))
                if not (v <= tl):
                    w = {"t": t, "wave": case["wave"]}
                    w.update(where_extra)
                    res["violations"].append({
                        "solver": name, "cfg": cfg, "clause": clause, "where": w, "value": float(v), "tol": tl,
                        "detail": {"x": float(case["x"]), "kind": case["kind"], "speeds": [float(s) for s in case["speeds"]],
                                   "left": [float(x) for x in case["L"]], "right": [float(x) for x in case["R"]],
                                   "fields": ["density", "velocity", "pressure", "specific_internal_energy", "deviatoric stress"]}})
            if res["sample"] is None:
                res["sample"] = {"family": name, "cfg": cfg, "t": t, "x": float(case["x"]), "kind": case["kind"],
                                 "speed": [float(s) for s in case["speeds"]][:1], "residuals": {k: float(v) for k, v in r.items()},
                                 "left": [float(x) for x in case["L"]], "right": [float(x) for x in case["R"]]}
        res["evals"] += A.ncall
        A.ncall = 0
    res["digest"] = dg.hex()
    return res


def postprocess(agg, tier):
    """Evidence only: the largest residual that passed, per family and clause (what the tolerances are calibrated against)."""
    worst = {}
    for r in agg["results"]:
        for k, v in ((r or {}).get("worst") or {}).items():
            worst[k] = max(worst.get(k, 0.0), v)
    return {"worst_passing_residual": {k: float("%.3g" % worst[k]) for k in sorted(worst)},
            "tolerances": {k: TOL[k] for k in sorted(TOL)}}
