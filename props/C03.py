"""C03 -- thermodynamic fields returned together satisfy the problem's declared equation of state.

Mode L: every parameter vector within K deviations of the default (K=1 quick, K=2 thorough) of every
solver family that returns >= 3 thermodynamic fields, every time of the family's lattice, every point of a
deterministic point lattice plus both sides of every discontinuity located from the fields.
Oracle: the EOS as documented (written here, not imported), point by point on one public call.
"""
import numpy as np

from xpmc import hydro, lattice, oracle
from xpmc.engine import Digest
from xpmc.solvers import construct, call, Inadmissible

ID = "C03"
LEVEL = "exploration"
TECHNIQUE = "bounded exhaustive enumeration of deviation-bounded parameter lattices on the real solvers (explicit-state exploration, mode L)"
CLAIM = ("Every parameter vector within K deviations of the default (K=1 quick, K=2 thorough) of every solver family returning >=3 "
         "thermodynamic fields is constructed and called at every lattice time and point (plus both sides of every discontinuity located "
         "from the fields); the documented EOS is evaluated on every returned record. Exhaustive over the stated alphabet; right level because "
         "the property is a pointwise algebraic identity whose failure modes are parameter-dependent formulas, which lattice + branch coverage exposes.")
LEVEL_NOTE = ("trusted: numpy, the transcription of each documented EOS in props/C03.py, the memoised Guderley exponent (keyed by the hash of eexp.py); "
              "assumed: defects confined to parameter values between lattice values are not seen")
BOUND = {"quick": "K=1 deviations from the default vector, all classes", "thorough": "K=2 deviations"}
RULE = ("[black-box Noh additionally: every sequence of <=4 (quick) / <=5 (thorough) public operations over {call, set guess, "
        "solve_jump_conditions, EOS-object setter, edit initial_conditions} ending in a call, on a fresh object per sequence] "
        "tasks = all parameter vectors with <=K deviations from the default over each family's alphabet; per vector all "
        "lattice times x (24 lattice points + 6 points straddling each discontinuity located from the fields); an evaluation "
        "is one public solver call; a case (family, vector, time, point) is non-trivial when pressure and density are both "
        "non-zero and finite there (cold/vacuum states satisfy every EOS trivially); distinct by (family, vector, time, point index)")
ASSUMPTIONS = [
    "values outside the parameter/time/point alphabets are not explored",
    "the EOS forms are transcribed from the package documentation (gamma-law, p=Gamma rho T & e=Gamma T/(gamma-1), JWL in Mie-Gruneisen form, Mie-Gruneisen for the piston, supplied EOS object for black-box Noh)",
    "the adiabatic index of Cog3/5/6/7/18/21 is the one their docstrings fix as a function of geometry",
]

K = {"quick": 1, "thorough": 2}
TOL_A = 1e-10


def families():
    from xpmc import hydro_more  # noqa: F401  (registers the remaining families)
    return [f for f in hydro.FAMILIES if f.get("eos")]


def tasks(tier, seed):
    out = []
    for f in families():
        if tier == "quick":
            k = f.get("quickK", 0 if f["cost"] == "heavy" else K[tier])
        else:
            k = min(K[tier], f.get("maxK", 1)) if f["cost"] == "heavy" else max(K[tier], f.get("quickK", 0))
        for dev in lattice.enumerate_checked(f["alphabet"], k):
            out.append({"family": f["name"], "dev": dev})
    from xpmc import hydro_more
    for tag in hydro_more.BBNOH_EOS:
        for geom in (1, 2, 3):
            # the tabulated aluminium EOS has no setter and its Newton solves are slow (many end in IterationError): one level less
            out.append({"family": "BBNoh_seq", "eos": tag, "geometry": geom, "depth": SEQ_DEPTH[tier] - (1 if tag[0] == "aluminum" else 0)})
    return out


def find_contact(jumps, names):
    """The contact among the located discontinuities: pressure and velocity continuous, density or energy not."""
    if not isinstance(jumps, list):
        return None
    ip, ir, iu, ie = (names.index(n) for n in ("pressure", "density", "velocity", "specific_internal_energy"))
    cands = []
    for j in jumps:
        L, R = np.asarray(j["left"], float), np.asarray(j["right"], float)
        rj = lambda k: abs(L[k] - R[k]) / max(abs(L[k]), abs(R[k]), 1e-300)
        cs = max(abs(L[ip] / L[ir]), abs(R[ip] / R[ir])) ** 0.5
        if rj(ip) < 1e-7 and abs(L[iu] - R[iu]) < 1e-7 * cs and rj(ir) > 1e-4:
            cands.append((rj(ir), j))
    # a material interface carries a density jump; if several discontinuities qualify, the interface is the one with the
    # largest density jump (a jump in e alone, with p and rho continuous, is not a contact -- it is an EOS inconsistency)
    return max(cands, key=lambda c: c[0])[1] if cands else None


def eos_relations(f, cfg, sol, solver, t, jumps=None):
    """List of (clause, lhs, rhs, tol, nontrivial_mask)."""
    names = sol.dtype.names
    g = f["gamma"](cfg)
    rel = []
    kind = f["eos"]
    if callable(kind):
        return kind(f, cfg, sol, solver, t)
    rho = np.asarray(sol["density"], float) if "density" in names else None
    p = np.asarray(sol["pressure"], float) if "pressure" in names else None
    e = np.asarray(sol["specific_internal_energy"], float) if "specific_internal_energy" in names else None
    nt = np.isfinite(p) & np.isfinite(rho) & (p != 0) & (rho != 0) if p is not None and rho is not None else None
    # documented vacuum (rho == 0 and p == 0 exactly): every EOS holds trivially there; e and c are 0/0 (C17/C20 matter)
    vac = (rho == 0) & (p == 0) if p is not None and rho is not None else None
    tol = f.get("tol", TOL_A)
    if kind in ("gamma", "cog"):
        if e is not None:
            rel.append(("eos:p=(gamma-1)*rho*e", p, (g - 1.0) * rho * e, tol, nt))
        if "sound_speed" in names:
            c = np.asarray(sol["sound_speed"], float)
            with np.errstate(all="ignore"):
                rel.append(("eos:c^2=gamma*p/rho", c * c * rho, g * p, tol, nt))
    if kind == "cog":
        T = np.asarray(sol["temperature"], float)
        Gam = f["Gamma"](cfg) if "Gamma" in f else cfg["Gamma"]
        rel.append(("eos:p=Gamma*rho*T", p, Gam * rho * T, tol, nt))
        rel.append(("eos:e=Gamma*T/(gamma-1)", e, Gam * T / (g - 1.0), tol, np.isfinite(e) & (e != 0)))
    if kind == "rmtv":
        T = np.asarray(sol["temperature"], float)
        e = np.asarray(sol["energy"], float)
        # the solver converts jerk/keV/shake to cgs with T in eV: 1 jerk/(g keV) = 1e13 erg/(g eV)
        Geff = cfg["bigamma"] * 1.0e13
        rel.append(("eos:p=(gamma-1)*rho*e", p, (g - 1.0) * rho * e, tol, nt))
        rel.append(("eos:p=Gamma*rho*T", p, Geff * rho * T, tol, nt))
        rel.append(("eos:e=Gamma*T/(gamma-1)", e, Geff * T / (g - 1.0), tol, nt))
    if kind == "mader":
        c = np.asarray(sol["sound_speed"], float)
        rel.append(("eos:c^2=gamma*p/rho", c * c * rho, cfg["gamma"] * p, tol, nt))
    if kind == "sdrz":
        c = np.asarray(sol["sound_speed"], float)
        rel.append(("eos:c^2=gamma*p/rho", c * c * rho, cfg["gamma"] * p, tol, nt))
    if kind == "mie_gruneisen":
        # Mie-Gruneisen form of the piston docstring: p = Ph + gamma*rho*(e-Eh), Hugoniot reference curve
        r0, c0, s0, gg = cfg["rho0"], cfg["c0"], cfg["s0"], cfg["gamma"]
        eta = 1.0 - r0 / rho
        Ph = r0 * c0 ** 2 * eta / (1.0 - s0 * eta) ** 2
        Eh = eta * Ph / (2.0 * r0)
        rel.append(("eos:p=Ph+gamma*rho*(e-Eh)", p, Ph + gg * rho * (e - Eh), tol, nt))
    if kind == "object":
        eos = solver._xp_eos
        with np.errstate(all="ignore"):
            pe = np.array([eos.P(r_, e_) if np.isfinite(r_) and r_ > 0 else np.nan for r_, e_ in zip(rho, e)], float)
        ok = np.isfinite(rho) & (rho > 0)
        rel.append(("eos:p=EOS.P(rho,e)", np.where(ok, p, 0.0), np.where(ok, pe, 0.0), tol, ok & ((p != 0) | (e != 0))))
    if kind == "radshock":
        Tn = "temperature" if "temperature" in names else "temperature_mat"
        T = np.asarray(sol[Tn], float)
        c = np.asarray(sol["sound_speed"], float)
        gg, Cv = cfg["gamma"], cfg.get("Cv", 1.4472799784454e12)
        rel.append(("eos:e=Cv*T", e, Cv * T, tol, nt))
        rel.append(("eos:p=(gamma-1)*rho*e", p, (gg - 1.0) * rho * e, tol, nt))
        rel.append(("eos:c^2=gamma*p/rho", c * c * rho, gg * p, tol, nt))
    if kind == "riemann":
        from xpmc import hydro_more
        c_ = hydro_more._riemann_cfg(cfg)
        gl, gr = c_["gl"], c_["gr"]
        if c_.get("problem", "igeos") == "igeos":
            fj = 0.0 * rho
        else:
            # JWL reference curve in Mie-Gruneisen form (literature form; parameters from the package tables)
            G = gl - 1.0
            R1r, R2r = c_["R1"] * c_["r0"] / rho, c_["R2"] * c_["r0"] / rho
            fj = c_["A"] * (1.0 - G / R1r) * np.exp(-R1r) + c_["B"] * (1.0 - G / R2r) * np.exp(-R2r)
        lhs = p - fj
        ml = oracle.mismatch(lhs, (gl - 1.0) * rho * e, floor=1e-13)
        mr = oracle.mismatch(lhs, (gr - 1.0) * rho * e, floor=1e-13)
        use_r = mr < ml
        contact = find_contact(jumps, [n for n in names[1:]]) if gl != gr else None
        if contact is not None:
            # the material (and its gamma) changes at the contact located from the fields, nowhere else
            x = np.asarray(sol["position"], float)
            use_r = x > 0.5 * (contact["lo"] + contact["hi"])
        rhs = np.where(use_r, (gr - 1.0) * rho * e, (gl - 1.0) * rho * e)
        rel.append(("eos:p-f(rho)=(gamma_side-1)*rho*e", lhs, rhs, f.get("tol", TOL_A), nt))
        if gl != gr:
            rel.append(("eos:contact-identified-for-gamma-side", np.array([0.0 if contact is not None else 1.0]), np.array([0.0]), 2.0, None))
        if gl != gr:
            # the gamma in force may switch from left to right exactly once along x (at the contact)
            only_l = np.where((ml <= TOL_A) & (mr > 1e-6))[0]
            only_r = np.where((mr <= TOL_A) & (ml > 1e-6))[0]
            bad = 1.0 if (only_l.size and only_r.size and only_l.max() > only_r.min()) else 0.0
            rel.append(("eos:gamma_side_switches_once", np.array([bad]), np.array([0.0]), 0.5, None))
    return rel


# ---------------------------------------------------------------------------------------------------------------
# black-box Noh: the EOS relation after every sequence of public operations (the shocked state is cached on the object)
# ---------------------------------------------------------------------------------------------------------------
SEQ_OPS = ["call", "guess", "solve", "eos_mut", "ic"]
SEQ_DEPTH = {"quick": 4, "thorough": 5}
SEQ_PTS = [0.02, 0.05, 0.1, 0.3, 0.6]


def _seq_apply(s, eos, tag, op):
    """Returns 'dirty' (True/False/None=unchanged) and, for a call, the solution."""
    if op == "call":
        return None, call(s, np.array(SEQ_PTS), 0.6)
    if op == "guess":
        s.set_new_solver_initial_guess([5.0, 1.0, 1.0])
        return False, None
    if op == "tol":
        s.set_new_solver_tolerance(1.0e-8)
        return False, None
    if op == "solve":
        s.solve_jump_conditions()
        return False, None
    if op == "eos_mut":
        if tag[0] in ("noble_abel", "carnahan"):
            eos.set_new_co_volume(tag[2] * 3.0)
        elif tag[0] == "stiff":
            eos.set_new_sound_speed(tag[2] * 1.3)
        else:
            return None, None
        return True, None
    if op == "ic":
        s.initial_conditions["velocity"] = -2.0
        return True, None
    raise ValueError(op)


def run_bbnoh_sequences(task):
    import itertools
    from xpmc import hydro_more
    tag, geom, depth = task["eos"], task["geometry"], task["depth"]
    res = {"evals": 0, "nontrivial": [], "violations": [], "counters": {}, "sample": None}
    C = res["counters"]
    dg = Digest()
    reported = set()
    nseq = 0
    for d in range(1, depth + 1):
        for seq in itertools.product(SEQ_OPS, repeat=d):
            if seq[-1] != "call":
                continue          # only sequences that end in an observation
            nseq += 1
            try:
                # a sequence that edits initial_conditions in place gets its own dictionary: the wrappers' default argument is ONE
                # dictionary per class, so editing it through an instance would change every later default-constructed solver
                # of this process (and made this task's observations depend on what ran before it)
                s = hydro_more.bbnoh_build({"geometry": geom, "eos": tag, "guess": [5.0, 1.0, 1.0],
                                            "density": 1, "velocity": -1, "pressure": 0, "decoys": "ic" not in seq})
            except Inadmissible:
                C["inadmissible_vectors"] = C.get("inadmissible_vectors", 0) + 1
                continue
            eos = s._xp_eos
            dirty = False
            try:
                for k, op in enumerate(seq):
                    dflag, sol = _seq_apply(s, eos, tag, op)
                    if dflag is not None:
                        dirty = dflag
                    if sol is None:
                        continue
                    res["evals"] += 1
                    rho = np.asarray(sol["density"], float)
                    p = np.asarray(sol["pressure"], float)
                    e = np.asarray(sol["specific_internal_energy"], float)
                    dg.add(rho, p, e)
                    if dirty:
                        # the EOS object / initial state was changed without a re-solve: the documented flow is to call
                        # solve_jump_conditions() (or a setter) first, so nothing is demanded of this call
                        C["calls_on_unsolved_changes_skipped"] = C.get("calls_on_unsolved_changes_skipped", 0) + 1
                        continue
                    ok = np.isfinite(rho) & (rho > 0)
                    with np.errstate(all="ignore"):
                        pe = np.array([eos.P(r_, e_) if o else 0.0 for r_, e_, o in zip(rho, e, ok)], float)
                    m = oracle.mismatch(np.where(ok, p, 0.0), pe, floor=1e-13)
                    res["nontrivial"].append("bbseq|%s|%d|%s|%d" % (tag, geom, "".join(o[0] for o in seq), k))
                    if m.max() > 1e-9:
                        key = seq[:k + 1]
                        if key not in reported:
                            reported.add(key)
                            if len(reported) <= 3:       # shortest first (enumeration order); cap the list
                                res["violations"].append({
                                    "solver": "BBNoh", "cfg": {"geometry": geom, "eos": tag},
                                    "clause": "eos:p=EOS.P(rho,e):after-operation-sequence",
                                    "where": {"sequence": list(key)}, "value": float(m.max()), "tol": 1e-9,
                                    "detail": {"x": float(SEQ_PTS[int(np.argmax(m))])}})
            except Exception as ex:
                key = "seq_exc:%s" % type(ex).__name__
                C[key] = C.get(key, 0) + 1
                dg.add("exc", type(ex).__name__)
    C["operation_sequences"] = nseq
    res["sample"] = {"family": "BBNoh_seq", "eos": tag, "geometry": geom, "depth": depth, "alphabet": SEQ_OPS,
                     "sequences_ending_in_call": nseq, "example": ["call", "eos_mut", "solve", "call"]}
    res["digest"] = dg.hex()
    return res


def run_task(task):
    if task["family"] == "BBNoh_seq":
        return run_bbnoh_sequences(task)
    f = hydro.by_name(task["family"])
    cfg = lattice.full_cfg(f["alphabet"], task["dev"])
    dg = Digest()
    res = {"evals": 0, "nontrivial": [], "violations": [], "counters": {}, "sample": None}
    C = res["counters"]
    try:
        s = hydro.make(f, cfg)
    except Inadmissible as ex:
        C["inadmissible_vectors"] = 1
        res["digest"] = dg.add("inadmissible").hex()
        return res
    except Exception as ex:      # any other exception type at construction is C20's business; counted here
        C["construct_exceptions"] = 1
        C["cexc:%s:%s" % (f["name"], type(ex).__name__)] = 1
        res["digest"] = dg.add("cexc", type(ex).__name__).hex()
        return res
    for t in f["times"](cfg):
        try:
            pts, jumps, ncall = hydro.sample_points(f, cfg, t, s, _want_jumps=True)
            njump = len(jumps) if isinstance(jumps, list) else int(jumps)
            sol = call(s, pts, t)
        except Exception as ex:  # a raising call is C20's business; here it is counted, not judged
            C["call_exceptions"] = C.get("call_exceptions", 0) + 1
            key = "exc:%s:%s" % (f["name"], type(ex).__name__)
            C[key] = C.get(key, 0) + 1
            dg.add("exc", type(ex).__name__)
            continue
        res["evals"] += ncall + 1
        C["located_discontinuities"] = C.get("located_discontinuities", 0) + njump
        for n in sol.dtype.names:
            if sol[n].dtype.kind == "f":
                dg.add(np.asarray(sol[n]))
        rels = eos_relations(f, cfg, sol, s, t, jumps)
        if any(r[0] == "eos:contact-identified-for-gamma-side" and r[1][0] == 0.0 for r in rels):
            C["contacts_identified_unequal_gamma"] = C.get("contacts_identified_unequal_gamma", 0) + 1
        elif any(r[0] == "eos:contact-identified-for-gamma-side" for r in rels):
            C["contacts_not_identified_unequal_gamma"] = C.get("contacts_not_identified_unequal_gamma", 0) + 1
        if "density" in sol.dtype.names and "pressure" in sol.dtype.names:
            vac = (np.asarray(sol["density"], float) == 0) & (np.asarray(sol["pressure"], float) == 0)
            if vac.any():
                C["vacuum_points"] = C.get("vacuum_points", 0) + int(vac.sum())
                rels = [(cl, np.where(vac, 0.0, l) if len(np.atleast_1d(l)) == len(vac) else l,
                         np.where(vac, 0.0, r) if len(np.atleast_1d(r)) == len(vac) else r, tl, nt_) for cl, l, r, tl, nt_ in rels]
        anynt = np.zeros(len(pts), bool)
        for clause, lhs, rhs, tol, nt in rels:
            m = oracle.mismatch(lhs, rhs, floor=1e-13)
            if nt is not None:
                anynt |= nt
            bad = np.where(m > tol)[0]
            if bad.size:
                i = int(bad[np.argmax(m[bad])])
                where = {"t": t}
                if f["eos"] == "object" and "velocity" in sol.dtype.names:
                    # black-box Noh: which side of the shock the worst point is on (the inflow region has u = u0 != 0)
                    where["region"] = "unshocked" if float(sol["velocity"][i]) != 0.0 else "shocked"
                res["violations"].append({
                    "solver": f["name"], "cfg": cfg, "clause": clause,
                    "where": where, "value": float(m[i]), "tol": tol,
                    "detail": {"x": float(pts[i]), "lhs": float(np.asarray(lhs)[i]), "rhs": float(np.asarray(rhs)[i]),
                               "n_bad_points": int(bad.size), "n_points": int(len(pts))}})
        for i in np.where(anynt)[0]:
            res["nontrivial"].append("%s|%s|%g|%d" % (f["name"], sorted(task["dev"].items()), t, i))
        C["relations_checked"] = C.get("relations_checked", 0) + len(rels)
        if res["sample"] is None:
            res["sample"] = {"family": f["name"], "cfg": cfg, "t": t, "n_points": len(pts),
                             "first_points": [float(x) for x in pts[:4]], "relations": [r[0] for r in rels]}
    res["digest"] = dg.hex()
    return res
