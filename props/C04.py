"""C04 -- 1D Riemann solutions conserve mass, momentum and energy in integral form.

Mode L.  Left/right state lattice = every vector within K deviations (alphabet hydro_more.RIEMANN_ALPHABET) of four
root states, one per wave pattern (Sod -> RCS, mirrored Sod -> SCR, colliding streams -> SCS, receding streams -> RCR),
plus the eight tabulated problems, their mirror images and (general-EOS solver) the two JWL problems, at two times each.

Oracle (written from the conservation law; nothing imported from the code under test).  For a window [a, b] that
contains the membrane and every wave,

    int_a^b q(x, t) dx  =  (xd0 - a) q_L + (b - xd0) q_R + t (F(q_L) - F(q_R)),   q = (rho, rho u, rho (e + u^2/2)),

with q_L, q_R, F formed from the *input* states and the documented EOS.  The window is chosen from the returned
fields (first / last point of a 2049-point scan of a generous interval that differs from the far-field state), the
far-field states are checked against the input, and the integral is taken
  * ideal-gas solver (class A, exact at user points): adaptive closed Gauss-Lobatto quadrature that subdivides until
    every panel is resolved, so the discontinuities and fan heads/tails are located from the fields themselves
    (xpmc/x_c04_quad.py); explicit error bound = sum of the panel estimates + width x range of the collapsed panels;
  * general-EOS solver (class C: the returned profile is a linear interpolant on an internal grid of spacing h that
    smears each discontinuity over one cell): 2-point Gauss-Legendre on 24000 uniform panels; explicit error bound
    h x TV(q) (a profile that is within one cell of the underlying solution differs from it by at most its own
    variation over that cell) + the measured table error of the P-U curves.
The solver's own wave report (soln_type) is read only to book-keep which (pattern, du) cells the lattice reached.
"""
import math

import numpy as np

from xpmc import hydro_more as hm
from xpmc import lattice
from xpmc.engine import Digest
from xpmc.solvers import construct, call, Inadmissible
from xpmc.x_c04_quad import adaptive_integral, conserved, flux
from xpmc.x_c04_lattice import ROOTS, PATHS, FIELDS, root_alphabet, resolve, find_window

ID = "C04"
LEVEL = "exploration"
TECHNIQUE = ("bounded exhaustive enumeration of a deviation-bounded left/right state lattice on the real Riemann solvers "
             "(explicit-state exploration, mode L) with the integral conservation law as oracle")
CLAIM = ("Every left/right state within K deviations (K=2 quick, K=3 thorough for the ideal-gas solver; K=1 / K=2 for the general-EOS "
         "solver) of four root states, one per wave pattern, over the alphabet rho in {1,0.125,3}, p in {1,0.1,10}, u in {0,+-0.3,+-1.5}, "
         "gamma in {1.4,5/3,2} per side and membrane in {0.5,0.3,0}, plus the eight tabulated problems, their mirror images, the two JWL "
         "problems and 64 computed states straddling the wave-pattern classification boundaries (x mirror), is solved at two times; the integrals of mass, momentum and total energy over a window containing all waves "
         "(found from the fields) are compared with initial integral + t*(F_left - F_right) under an explicit quadrature error bound. "
         "Exhaustive over the stated lattice; the enumerator asserts that every physically reachable (pattern x velocity-difference) cell "
         "is populated. Right level: the property is an integral identity whose failure modes are per-pattern formulas, so the relevant "
         "coverage is branch x parameter-interaction coverage, which a deviation-bounded lattice with pattern book-keeping gives.")
LEVEL_NOTE = ("trusted: numpy, the transcription of the gamma-law and JWL energy in xpmc/x_c04_lattice.py, the Gauss-Lobatto/Legendre rules; "
              "assumed: states between lattice values behave like their neighbours; the general-EOS solver is judged at its documented "
              "resolution (bound h*TV), so a defect smaller than that bound is not seen there")
BOUND = {"quick": "IGEOS K=2 deviations from each of 4 pattern roots; GenEOS K=1 (num_int_pts=501, num_x_pts=4001); all tabulated problems and mirrors",
         "thorough": "IGEOS K=3; GenEOS K=2 at (501,4001) and K=1 at (2001,16001); all tabulated problems and mirrors at both resolutions"}
RULE = ("tasks = (solver, root, deviation vector) or (solver, tabulated problem, mirror flag); per task two times; an evaluation is one public "
        "solver call; a case (solver, states, membrane, time) is non-trivial when the returned profile contains at least one wave, i.e. the "
        "window integral of at least one conserved density differs from its initial value by more than 1e-9 of the balance's scale; "
        "distinct by (solver, resolved state vector, time)")
ASSUMPTIONS = [
    "states, membrane positions and times outside the alphabet are not explored",
    "initial internal energy from the documented EOS: e = p/((gamma-1) rho) (ideal gas), e = (p - f_JWL(rho))/((gamma-1) rho) (JWL, literature form)",
    "RCR with equal velocities is physically impossible (f_L(p*)+f_R(p*) = ul-ur = 0 has no root below both pressures) and SCS with equal "
    "velocities exists only as the degenerate pure contact (pl = pr); the coverage assertion asks for the seven reachable cells "
    "(six for the general-EOS solver, which labels the zero-strength waves of a pure contact shock or rarefaction as its bisection lands)",
    "general-EOS solver: agreement only to h*TV(q) + (4/num_int_pts) of the balance scale (class C)",
]

K_IGEOS = {"quick": 2, "thorough": 3}
K_GEN = {"quick": 1, "thorough": 2}
RES_QUICK = [501, 4001]
RES_FINE = [2001, 16001]

# ideal-gas solver: closed form except that p* comes from scipy bisect with its default xtol=2e-12, so residuals sit at
# 1e-12..1e-11 rather than at rounding.  Measured worst |residual|/S over the thorough lattice (4544 configurations x 2
# times, tree with SCR_call repaired, equal-state/two-gamma corner excluded): 1.19e-11 (mirrored LeBlanc).  The recorded
# defects are at 1e-3..0.76.
TOL_IGEOS = 1e-9
# general-EOS solver (class C), a table-resolution term on top of the explicit h*TV bound: the P-U curves are tables of
# num_int_pts pressures; a star pressure within one table step of pl or pr is clamped to the first table entry
# (np.interp end value), a first-order error <= 1/(gamma*num_int_pts) in the star density.  Measured over the thorough
# lattice (equal-state/two-gamma corner excluded): worst |residual|/S 4.2e-3 (inside h*TV), worst (|residual| - h*TV)/S
# 7.8e-4 at num_int_pts=501 (pure contact pl=pr)  ->  4/num_int_pts (8e-3 at 501, 2e-3 at 2001), 10x the measured excess.
def tol_gen_table(num_int_pts):
    return 4.0 / num_int_pts


REQUIRED_CELLS = {
    "IGEOS": ["SCS|du=0", "SCS|du!=0", "SCR|du=0", "SCR|du!=0", "RCS|du=0", "RCS|du!=0", "RCR|du!=0"],
    "GenEOS": ["SCS|du!=0", "SCR|du=0", "SCR|du!=0", "RCS|du=0", "RCS|du!=0", "RCR|du!=0"],
}


def tasks(tier, seed):
    out = []
    seen = set()

    def add(task, key):
        if key not in seen:
            seen.add(key)
            out.append(task)

    def lattice_tasks(solver, k, res):
        for root in ROOTS:
            al = root_alphabet(root)
            for dev in lattice.enumerate_checked(al, k):
                cfg = lattice.full_cfg(al, dev)
                add({"solver": solver, "root": root, "dev": dev, "res": res},
                    (solver, tuple(res or ()), tuple(sorted(cfg.items()))))

    def table_tasks(solver, res):
        names = list(hm.RIEMANN_TABLE) + (list(hm.JWL_TABLE) if solver == "GenEOS" else [])
        for nm in names:
            for mirror in (False, True):
                add({"solver": solver, "table": nm, "mirror": mirror, "res": res}, (solver, tuple(res or ()), nm, mirror))

    table_tasks("IGEOS", None)
    # the 64 states straddling the wave-pattern classification boundaries p* = pl, p* = pr (hydro_more.BND_TABLE) x mirror: a
    # threshold computed with the wrong side's gamma builds a compressive 'fan' or an expansion shock in a narrow band of closing
    # speeds that no K <= 3 lattice around the textbook roots reaches (seeded changes S2-C07-1, S3-C04-2)
    for nm in hm.BND_TABLE:
        for mirror in (False, True):
            add({"solver": "IGEOS", "table": nm, "mirror": mirror, "res": None}, ("IGEOS", (), nm, mirror))
            if tier == "thorough" or ("|ul0|" in nm + "|" and "gl1.4|gr1.4" not in nm and not mirror):
                add({"solver": "GenEOS", "table": nm, "mirror": mirror, "res": RES_QUICK}, ("GenEOS", tuple(RES_QUICK), nm, mirror))
    lattice_tasks("IGEOS", K_IGEOS[tier], None)
    table_tasks("GenEOS", RES_QUICK)
    lattice_tasks("GenEOS", K_GEN[tier], RES_QUICK)
    if tier == "thorough":
        table_tasks("GenEOS", RES_FINE)
        lattice_tasks("GenEOS", 1, RES_FINE)
    return out


def pattern_of(s):
    st = str(getattr(s, "soln_type", "?"))
    return st.split("-")[-1] if "-" in st else st


def check_time(name, s, c, t, res, dg, ncalls):
    """One (configuration, time): returns (violations, info) -- info carries pattern / nontrivial / residuals."""
    C = res["counters"]
    W = find_window(s, c, t, ncalls)
    sol, sL, sR, fscale, A, B = W["sol"], W["sL"], W["sR"], W["fscale"], W["A"], W["B"]
    vio = []
    for n in FIELDS:
        dg.add(np.asarray(sol[n], float))
    pat = pattern_of(s)
    du, lr = W["du"], W["lr"]
    where = {"t": t, "pattern": pat, "du": du, "lr": lr}
    if not W["far_ok"]:
        vio.append({"solver": name, "cfg": c, "clause": "conservation:far-field-state", "where": where, "value": W["far_mismatch"], "tol": 1e-10,
                    "detail": {"window": [A, B], "left_returned": W["Fm"][:, 0].tolist(), "left_input": sL.tolist(),
                               "right_returned": W["Fm"][:, -1].tolist(), "right_input": sR.tolist()}})
        return vio, {"pattern": pat, "du": du, "lr": lr, "nontrivial": False}
    a, b = W["a"], W["b"]
    qL = np.array([sL[0], sL[0] * sL[1], sL[0] * (sL[3] + 0.5 * sL[1] ** 2)])
    qR = np.array([sR[0], sR[0] * sR[1], sR[0] * (sR[3] + 0.5 * sR[1] ** 2)])
    FL, FR = flux(sL[0], sL[1], sL[2], sL[3]), flux(sR[0], sR[1], sR[2], sR[3])
    I0 = (c["xd0"] - a) * qL + (b - c["xd0"]) * qR
    qscan = conserved(sol)
    qmax = np.maximum(np.abs(qscan).max(axis=1), np.maximum(np.abs(qL), np.abs(qR)))
    qmax = np.maximum(qmax, 1e-300)
    qmax[1] = max(qmax[1], qmax[0] * fscale[1])              # momentum scale never below rho * c

    def F(x):
        ncalls[0] += 1
        return conserved(call(s, x, t))
    info = {"pattern": pat, "du": du, "lr": lr}
    if name == "IGEOS":
        R = adaptive_integral(F, a, b, qmax * (b - a))
        I, err = R["integral"], R["err"]
        extra_tol = TOL_IGEOS
        C["located_discontinuities"] = C.get("located_discontinuities", 0) + len(R["jumps"])
        info["jumps"] = [j["x"] for j in R["jumps"]]
    else:
        npan = 24000
        edges = np.linspace(a, b, npan + 1)
        xm, xr = 0.5 * (edges[1:] + edges[:-1]), 0.5 * (edges[1:] - edges[:-1])
        g = 1.0 / math.sqrt(3.0)
        X = np.sort(np.concatenate([xm - g * xr, xm + g * xr]))
        Q = F(X)
        I = (Q * (0.5 * (b - a) / npan)).sum(axis=1)
        h = float(np.max(np.diff(np.asarray(s.x, float))))    # documented internal resolution (public attribute)
        TV = np.abs(np.diff(Q, axis=1)).sum(axis=1)
        err = h * TV
        extra_tol = tol_gen_table(c["num_int_pts"])
        info["h"] = h
    dg.add(I)
    rhs = I0 + t * (FL - FR)
    S = np.abs(I) + np.abs(I0) + t * np.abs(FL) + t * np.abs(FR)
    S = np.maximum(S, qmax * (b - a))
    resid = np.abs(I - rhs)
    info.update({"window": [a, b], "resid_rel": (resid / S).tolist(), "bound_rel": (err / S).tolist(),
                 "nontrivial": bool((np.abs(I - I0) > 1e-9 * S).any())})
    for i, nm in enumerate(("mass", "momentum", "energy")):
        tol = err[i] / S[i] + extra_tol
        val = resid[i] / S[i]
        if not (val <= tol):
            vio.append({"solver": name, "cfg": c, "clause": "conservation:" + nm, "where": where, "value": float(val), "tol": float(tol),
                        "detail": {"window": [a, b], "integral": float(I[i]), "initial_integral": float(I0[i]),
                                   "t_times_flux_difference": float(t * (FL[i] - FR[i])), "quadrature_bound_rel": float(err[i] / S[i]),
                                   "soln_type": str(getattr(s, "soln_type", "?"))}})
    return vio, info


def run_task(task):
    name = task["solver"]
    c, times = resolve(task)
    dg = Digest()
    res = {"evals": 0, "nontrivial": [], "violations": [], "counters": {}, "sample": None}
    C = res["counters"]
    try:
        s = construct(PATHS[name], c)
    except Inadmissible:
        C["inadmissible_vectors"] = 1
        res["digest"] = dg.add("inadmissible").hex()
        return res
    ncalls = [0]
    key = "%s|%s" % (name, sorted((k, v) for k, v in c.items()))
    for t in times:
        try:
            vio, info = check_time(name, s, c, t, res, dg, ncalls)
        except Exception as ex:      # a raising call (vacuum pattern, star pressure above the bisection bracket) is C20's business
            k = "call_exception:%s:%s" % (name, type(ex).__name__)
            C[k] = C.get(k, 0) + 1
            C["call_exceptions"] = C.get("call_exceptions", 0) + 1
            dg.add("exc", type(ex).__name__)
            continue
        res["violations"] += vio
        cell = "cell:%s:%s|%s" % (name, info["pattern"], info["du"])
        C[cell] = C.get(cell, 0) + 1
        C["balances_checked"] = C.get("balances_checked", 0) + 3
        if info.get("nontrivial"):
            res["nontrivial"].append("%s|%g" % (key, t))
        else:
            C["trivial_no_wave"] = C.get("trivial_no_wave", 0) + 1
        if "resid_rel" in info:
            # running maxima for calibration (max is not additive: encoded as per-task values, reduced in postprocess)
            res.setdefault("_cal", []).append([name, max(info["resid_rel"]),
                                               max(r - b for r, b in zip(info["resid_rel"], info["bound_rel"])), info["pattern"], info["du"], info["lr"]])
        if res["sample"] is None and "resid_rel" in info:
            res["sample"] = {"solver": name, "cfg": c, "t": t, "window": info["window"], "pattern_reported": info["pattern"],
                             "relative_residuals": info["resid_rel"], "relative_quadrature_bounds": info["bound_rel"],
                             "discontinuities_located": info.get("jumps")}
    res["evals"] = ncalls[0]
    res["digest"] = dg.hex()
    return res


def postprocess(agg, tier):
    cells = {k[5:]: v for k, v in agg["counters"].items() if k.startswith("cell:")}
    missing = [s + ":" + c for s, req in REQUIRED_CELLS.items() for c in req if not cells.get(s + ":" + c)]
    unexpected = [k for k in cells if k.endswith("RCR|du=0")]
    worst = {}
    for r in agg["results"]:
        for name, rr, excess, pat, du, lr in (r or {}).get("_cal", []):
            if (name == "IGEOS" and pat == "SCR" and du == "du!=0") or lr == "equal-rho-u-p":
                continue                      # the two recorded defects; not part of the calibration of the correct code
            w = worst.setdefault(name, {"max_residual_rel": 0.0, "max_residual_minus_bound_rel": -1.0})
            w["max_residual_rel"] = max(w["max_residual_rel"], rr)
            w["max_residual_minus_bound_rel"] = max(w["max_residual_minus_bound_rel"], excess)
    if missing:
        agg["errors"].append({"task": {"postprocess": "coverage"}, "status": "coverage",
                              "detail": "pattern x velocity-difference cells not populated by the lattice: %s" % missing})
    return {"pattern_cells": cells, "pattern_cells_missing": missing, "pattern_cells_physically_impossible_but_reported": unexpected,
            "measured_worst_residuals_excluding_recorded_defect": worst}
