"""C05 -- every solver honours the uniform call/return contract of the ExactPack API.

Explicit-state exploration of the operation words

    new(cfg) . call(container(points_N, order), t) . dump . reload          (call words)
    new({}), new({unknown: 1}), new({non-parameter attribute: v}), new(valid - {p})   (constructor words)

over every public solver class of the tree (discovered by introspection, 120 on the pinned tree) and every admissible
geometry variant, with container in {list, tuple, ndarray, non-contiguous view, read-only ndarray}, N in {1, 2, 3, 7}
(thorough: also 4 with all 24 permutations) and orderings {ascending, descending, all permutations of 3, with a
duplicate}.  The oracle is base.py's documented contract (class docstrings of ExactSolver / ExactSolution and the
user's guide): it is evaluated on every word.  No expected field value is used anywhere.
"""
import csv
import itertools
import math
import os
import tempfile

import numpy as np

from xpmc import x_c05_catalog as cat
from xpmc.engine import Digest

ID = "C05"
LEVEL = "model_checking"
TECHNIQUE = ("explicit-state exploration of all operation words new.call.dump.reload over a finite alphabet "
             "(classes x geometry variants x containers x N x orderings) on the real solvers, contract oracle on every word")
CLAIM = ("Every operation word new(cfg).call(container(points_N, order), t).dump.reload over the stated alphabet, and the constructor "
         "words {defaults, unknown keyword, non-parameter attribute as keyword, omission of each parameter without default}, is executed on "
         "every public solver class found by introspection (a class missing from the per-class table is a harness fault); on every word the "
         "documented contract is evaluated: ExactSolution of exactly N records, first field(s) bit-identical to the inputs in the order given "
         "and named as the standard table prescribes, remaining fields carrying the documented names, container equivalence (including whole-number positions given as Python ints and as an integer ndarray, which must give the float request's records), caller's data "
         "unchanged, record order covariant with the input order, exact CSV round trip, ValueError for unknown / missing parameters. "
         "Model checking over the operation alphabet is the right level because the contract is a property of call histories of fixed shape "
         "whose failure modes (field order, layout, aliasing, container handling) are input-shape dependent, not value dependent.")
LEVEL_NOTE = ("trusted: numpy, csv, the hand-written per-class table xpmc/x_c05_catalog.py (layout, valid default call, documented field names), "
              "the memoised Guderley exponent; assumed: N > 7, point values outside the table's in-domain lattice, non-default non-geometry "
              "parameters and containers other than the five listed behave like the explored ones; value covariance under permutation is not "
              "demanded of the three documented grid-dependent solvers (Mader, Sedov, SDRZ) -- that is C06")
BOUND = {"quick": "words of depth 4 (new.call.dump.reload): every class x every admissible geometry x N in {1,2,3,7} x "
                  "{asc, desc, 6 permutations of 3, duplicate} x 5 containers; constructor words of depth 1",
         "thorough": "quick + N = 4 with all 24 permutations and one duplicate, + the unreduced default configuration of every class whose "
                     "series/grid size the table reduces for cost"}
RULE = ("tasks = (class, configuration variant[, N]) and one constructor-word task per class; a case is one operation word; an evaluation is "
        "one public solver call; a word is non-trivial when its call returned a solution in which at least one non-position field is "
        "non-zero and finite; distinct by (class, cfg, N, order, container); states = distinct words explored, transitions = operations "
        "executed (new, call, dump, reload)")
ASSUMPTIONS = [
    "point values, N and containers outside the stated alphabets are not explored",
    "the documented field names are those transcribed in xpmc/x_c05_catalog.py from each solver's documentation and the standard table of base.py",
    "RateStick / ExplosiveArc document a mesh in row order with prescribed extent: only that ordering and N = xnodes*ynodes are explored for them",
    "series / grid sizes are reduced through documented constructor parameters for cost in the quick tier (listed in the table notes)",
]

CONTAINERS = ("ndarray", "list", "tuple", "view", "readonly")
# numeric fields of two calls on the same points (other container / other order) must agree to this relative tolerance
# (measured on the pinned tree over the thorough alphabet, 32860 calls: worst 0.0 for containers, worst 0.0 for
#  permutations; the only value above it is ie_Solver's 0.55, a finding -- the tolerance only leaves room for
#  SIMD-vs-scalar last-bit differences on strided input; a swapped or sorted record is O(1))
TOL_SAME = 1e-12
PERM7 = (3, 0, 6, 1, 5, 2, 4)


def orders(N, tier, mesh=False):
    """[(tag, index list)]: record i of the call is point index[i] of the ascending base set."""
    if mesh:
        return [("mesh", list(range(N)))]
    asc = list(range(N))
    if N == 1:
        return [("asc", asc)]
    out = [("asc", asc), ("desc", asc[::-1])]
    if N == 2:
        out.append(("dup", [0, 0]))
    elif N == 3:
        out = [("p" + "".join(map(str, p)), list(p)) for p in itertools.permutations(range(3))]
        out.append(("dup", [0, 1, 0]))
    elif N == 4:
        out = [("p" + "".join(map(str, p)), list(p)) for p in itertools.permutations(range(4))]
        out.append(("dup", [2, 1, 2, 0]))
    else:
        out.append(("perm", [PERM7[i] if N == 7 else (i * 3) % N for i in range(N)]))
        d = asc[:]
        d[N // 2 + 1] = d[N // 2]
        out.append(("dup", d))
    return out


def tasks(tier, seed):
    out = [{"kind": "catalogue"}]
    for key, e in cat.TABLE.items():
        out.append({"kind": "ctor", "cls": key})
    for key, e in cat.TABLE.items():
        Ns = list(e["Ns"])
        if tier == "thorough" and e["mesh"] is None:
            Ns = sorted(set(Ns + [4]))
        for ci in range(len(cat.cfgs(e))):
            if e["cost"] == "slowcall":
                for N in Ns:
                    out.append({"kind": "words", "cls": key, "cfg": ci, "Ns": [N]})
            else:
                out.append({"kind": "words", "cls": key, "cfg": ci, "Ns": Ns})
        if tier == "thorough" and e["ctor"] and e["path"].split(".")[0] != "cog":
            out.append({"kind": "words", "cls": key, "cfg": 0, "Ns": [min(n for n in e["Ns"] if n >= 2)], "unreduced": True})
    return out


def preimport():
    from xpmc import solvers, hydro_more  # noqa: F401
    solvers.import_all()


# ------------------------------------------------------------------------------------------------------- helpers

def make_container(kind, A):
    """-> (object passed to the solver, snapshot function returning the bytes/copy that must not change)."""
    A = np.ascontiguousarray(A, dtype=float)
    if kind == "ndarray":
        x = A.copy()
        return x, (lambda: (x.tobytes(), x.flags.writeable, x.shape))
    if kind == "readonly":
        x = A.copy()
        x.flags.writeable = False
        return x, (lambda: (x.tobytes(), x.flags.writeable, x.shape))
    if kind == "view":
        big = np.full((2 * A.shape[0] + 1,) + A.shape[1:], -7.25)
        big[0:2 * A.shape[0]:2] = A
        x = big[0:2 * A.shape[0]:2]
        return x, (lambda: (big.tobytes(), x.flags.writeable, x.shape))
    if kind == "list":
        x = [tuple(r) for r in A.tolist()] if A.ndim == 2 else A.tolist()
        import copy
        ref = copy.deepcopy(x)
        return x, (lambda: (x == ref, len(x)))
    if kind == "tuple":
        x = tuple(tuple(r) for r in A.tolist()) if A.ndim == 2 else tuple(A.tolist())
        ref = tuple(x)
        return x, (lambda: (x == ref, len(x)))
    raise KeyError(kind)


def same_fields(a, b):
    """Worst relative mismatch of the numeric fields of two solutions with equal dtype names (NaN == NaN), or inf."""
    if a.dtype.names != b.dtype.names or len(a) != len(b):
        return float("inf"), "shape"
    worst, wn = 0.0, ""
    for n in a.dtype.names:
        x, y = np.asarray(a[n]), np.asarray(b[n])
        if x.dtype.kind in "fiuc" and y.dtype.kind in "fiuc":
            x = x.astype(complex) if x.dtype.kind == "c" or y.dtype.kind == "c" else x.astype(float)
            y = y.astype(x.dtype)
            both_nan = np.isnan(x) & np.isnan(y)
            eq = (x == y) | both_nan
            with np.errstate(all="ignore"):
                m = np.where(eq, 0.0, np.abs(x - y) / np.maximum(np.maximum(np.abs(x), np.abs(y)), 1e-300))
            m = np.where(np.isnan(m), np.inf, m)
            v = float(np.max(m)) if m.size else 0.0
        else:
            v = 0.0 if [str(u) for u in x.tolist()] == [str(u) for u in y.tolist()] else float("inf")
        if v > worst:
            worst, wn = v, n
    return worst, wn


def csv_roundtrip(sol, path):
    """dump . reload: returns None if every value is reproduced exactly, else a short description."""
    sol.dump(path)
    with open(path, newline="") as f:
        rows = list(csv.reader(f))
    if not rows or tuple(rows[0]) != tuple(sol.dtype.names):
        return "header %r != names" % (rows[0] if rows else None,)
    body = rows[1:]
    if len(body) != len(sol):
        return "%d data rows for %d records" % (len(body), len(sol))
    for j, n in enumerate(sol.dtype.names):
        col = np.asarray(sol[n])
        for i in range(len(sol)):
            txt = body[i][j]
            v = col[i]
            if col.dtype.kind in "fiu":
                try:
                    w = float(txt)
                except ValueError:
                    return "field %s row %d: %r is not a number" % (n, i, txt)
                if not (w == float(v) or (w != w and float(v) != float(v))):
                    return "field %s row %d: %r != %r" % (n, i, txt, float(v))
            elif col.dtype.kind == "c":
                if complex(txt.strip("()")) != complex(v):
                    return "field %s row %d: %r != %r" % (n, i, txt, complex(v))
            else:
                if txt != str(v):
                    return "field %s row %d: %r != %r" % (n, i, txt, str(v))
    return None


def digest_sol(dg, sol):
    """Hash every field (object-typed fields through str(), so no address enters the digest)."""
    if not sol.dtype.names:
        dg.add(np.asarray(sol))
        return
    for n in sol.dtype.names:
        a = np.asarray(sol[n])
        if a.dtype.kind == "O":
            dg.add(n, [str(v) for v in a.tolist()])
        else:
            dg.add(n, a)


class Ctx:
    def __init__(self, solver, cfgd):
        self.res = {"evals": 0, "nontrivial": [], "violations": [], "counters": {}, "sample": None, "states": 0, "transitions": 0}
        self.dg = Digest()
        self.solver = solver
        self.cfgd = cfgd
        self.seen = set()

    def count(self, name, k=1):
        c = self.res["counters"]
        c[name] = c.get(name, 0) + k

    def viol(self, clause, where, value=1.0, tol=0.0, detail=None):
        key = (clause, repr(sorted(where.items())))
        if key in self.seen:
            return
        self.seen.add(key)
        self.res["violations"].append({"solver": self.solver, "cfg": self.cfgd, "clause": clause, "where": where,
                                       "value": value, "tol": tol, "detail": detail or {}})


def short(key):
    return key.replace("exactpack.solvers.", "")


# ------------------------------------------------------------------------------------------------------- tasks

def run_task(task):
    if task["kind"] == "catalogue":
        return run_catalogue()
    if not cat.exists(cat.TABLE[task["cls"]]):
        return {"evals": 0, "nontrivial": [], "violations": [], "states": 0, "transitions": 0, "sample": None,
                "counters": {"tasks_skipped_class_absent_from_tree": 1}, "digest": Digest().add("absent").hex()}
    if task["kind"] == "ctor":
        return run_ctor(task)
    return run_words(task)


def run_catalogue():
    from xpmc.solvers import discover
    d = discover()
    miss = cat.missing(d)
    if miss:
        # a harness fault, not a violation: the engine reports task exceptions as HARNESS-FAULT (exit 3)
        raise RuntimeError("uncatalogued public solver(s): %s -- add them to xpmc/x_c05_catalog.py" % ", ".join(miss))
    st = [k for k in cat.TABLE if k not in d]
    return {"evals": 0, "nontrivial": [], "violations": [], "states": 0, "transitions": 0,
            "counters": {"public_classes_discovered": len(d), "catalogued_classes_absent_from_tree": len(st)},
            "sample": {"discovered": len(d), "absent": st}, "digest": Digest().add(sorted(d)).hex()}


def _try_new(e, kw):
    try:
        return cat.build(e, kw), None
    except Exception as ex:          # classified by the caller
        return None, ex


def run_ctor(task):
    from xpmc.solvers import get_class
    key = task["cls"]
    e = cat.TABLE[key]
    c = get_class(e["path"])
    N0 = e["Ns"][0]
    base = cat.full_kwargs(e, {}, N0)
    cx = Ctx(short(key), {})
    params = list(getattr(c, "parameters", {}))

    def word(tag, kw):
        cx.res["states"] += 1
        cx.res["transitions"] += 1
        s, ex = _try_new(e, kw)
        cx.dg.add(tag, type(ex).__name__ if ex is not None else "ok")
        return s, ex

    # new(valid default): must construct (for classes whose construction is the expensive part the call-word task does it)
    if e["cost"] != "slownew":
        s, ex = word("default", base)
        if ex is not None:
            cx.viol("construct:default", {"outcome": type(ex).__name__}, detail={"message": str(ex)[:200], "kwargs": repr(base)})
    # new(valid + unknown keyword): ValueError
    for tag, extra in (("unknown-keyword", {"not_a_parameter": 1.0}),):
        kw = dict(base)
        kw.update(extra)
        s, ex = word(tag, kw)
        if not isinstance(ex, ValueError):
            cx.viol("construct:" + tag, {"outcome": "accepted" if ex is None else type(ex).__name__},
                    detail={"message": "" if ex is None else str(ex)[:200]})
    # the parameter list a class DECLARES in its source (a dict literal in the class body) is the documentation; the runtime
    # attribute must be exactly that (added after the seeded change S-C05-1, where the metaclass merged the bases' lists into
    # every derived class, so wrappers silently accepted the names they hide)
    declared = declared_parameters(c)
    if declared is not None:
        cx.count("classes_with_declared_parameter_literal")
        if sorted(declared) != sorted(params):
            cx.viol("construct:runtime-parameters-differ-from-declared",
                    {"extra": sorted(set(params) - set(declared)), "missing": sorted(set(declared) - set(params))})
        hidden = []
        for b in c.__mro__[1:]:
            db = declared_parameters(b) if b.__module__.startswith("exactpack") else None
            for n in (db or []):
                if n not in declared and n not in hidden and isinstance(getattr(c, n, None), (int, float, str, bool)):
                    hidden.append(n)
        for a in hidden[:3]:
            kw = dict(base)
            kw[a] = getattr(c, a)
            s, ex = word("hidden-base-parameter", kw)
            if not isinstance(ex, ValueError):
                cx.viol("construct:hidden-base-parameter", {"attribute": a, "outcome": "accepted" if ex is None else type(ex).__name__},
                        detail={"message": "" if ex is None else str(ex)[:200]})
            cx.count("hidden_base_parameter_words")
    # a public class attribute that is not a documented parameter must be rejected like any unknown name
    cand = sorted(a for a in dir(c) if not a.startswith("_") and a not in params and a != "parameters"
                  and not callable(getattr(c, a)) and isinstance(getattr(c, a), (int, float, str, bool)))
    if "geometry" in cand:
        cand = ["geometry"]
    if cand:
        a = cand[0]
        kw = dict(base)
        kw[a] = getattr(c, a)
        s, ex = word("non-parameter-attribute", kw)
        if not isinstance(ex, ValueError):
            cx.viol("construct:non-parameter-attribute", {"attribute": a, "outcome": "accepted" if ex is None else type(ex).__name__},
                    detail={"message": "" if ex is None else str(ex)[:200]})
        cx.count("non_parameter_attribute_words")
    # omission of each parameter that has no class default: ValueError
    nodef = [p for p in params if not hasattr(c, p)]
    if e["path"] == "blake.blake.Blake":
        # documented: no elastic parameter -> default material; otherwise exactly two.  One modulus alone is "missing the second".
        for p in nodef:
            s, ex = word("missing-parameter", {p: 0.25 if p == "poisson_ratio" else 25.0e9})
            if not isinstance(ex, ValueError):
                cx.viol("construct:missing-parameter", {"given": p, "outcome": "accepted" if ex is None else type(ex).__name__})
            cx.count("missing_parameter_words")
    else:
        for p in nodef:
            kw = {k: v for k, v in base.items() if k != p}
            s, ex = word("missing-parameter", kw)
            if not isinstance(ex, ValueError):
                cx.viol("construct:missing-parameter", {"omitted": p, "outcome": "accepted" if ex is None else type(ex).__name__})
            cx.count("missing_parameter_words")
    cx.res["sample"] = {"class": short(key), "parameters": params, "without_default": nodef, "non_parameter_attribute": cand[:1]}
    cx.res["digest"] = cx.dg.hex()
    return cx.res


_DECL_CACHE = {}


def declared_parameters(c):
    """Keys of the `parameters = {...}` dict literal in the class body, read from the SOURCE (None if the class has no such
    literal, e.g. `parameters = Base.parameters`)."""
    import ast
    import inspect
    import textwrap
    if c in _DECL_CACHE:
        return _DECL_CACHE[c]
    out = None
    try:
        tree = ast.parse(textwrap.dedent(inspect.getsource(c)))
        body = tree.body[0].body
        for node in body:
            if isinstance(node, ast.Assign) and any(isinstance(t, ast.Name) and t.id == "parameters" for t in node.targets):
                if isinstance(node.value, ast.Dict) and all(isinstance(k, ast.Constant) and isinstance(k.value, str) for k in node.value.keys):
                    out = [k.value for k in node.value.keys] or None      # an empty literal is filled programmatically (Blake)
    except Exception:
        out = None
    _DECL_CACHE[c] = out
    return out


def run_words(task):
    key = task["cls"]
    e = cat.TABLE[key]
    cfg = cat.cfgs(e)[task["cfg"]]
    unreduced = bool(task.get("unreduced"))
    tier_orders = "thorough"
    cfgd = dict(cfg)
    if unreduced:
        cfgd["_unreduced"] = True
    cx = Ctx(short(key), {k: (list(v) if isinstance(v, tuple) else v) for k, v in cfgd.items()})
    res = cx.res
    tmpdir = tempfile.mkdtemp(prefix="xpmc_c05_")
    csvpath = os.path.join(tmpdir, "w.csv")
    reuse = e["cost"] == "slownew"
    shared = None
    try:
        for N in task["Ns"]:
            e2 = e
            if unreduced:
                e2 = dict(e)
                e2["ctor"] = {k: v for k, v in e["ctor"].items() if k in ("xnodes", "ynodes", "Gamma")}
            kw = cat.full_kwargs(e2, cfg, N)
            d = e["ndim"](kw)
            exp_pos = tuple(e["pos"](kw))
            exp_names = tuple(e["names"])
            ords = orders(N, tier_orders, mesh=e["mesh"] is not None)
            conts = CONTAINERS if not unreduced else ("ndarray", "list")
            if unreduced:
                ords = ords[:2]
            base_pts = None
            ref_by_order = {}
            asc_ref = None
            for oi, (otag, idx) in enumerate(ords):
                for cont in conts:
                    where = {"N": N, "order": otag, "container": cont}
                    res["states"] += 1
                    # ---- new
                    if reuse and shared is not None:
                        s = shared
                    else:
                        s, ex = _try_new(e, kw)
                        res["transitions"] += 1
                        if ex is not None:
                            cx.viol("construct:default", {"outcome": type(ex).__name__}, detail={"message": str(ex)[:200], "kwargs": repr(kw)})
                            cx.dg.add("newexc", type(ex).__name__)
                            continue
                        if reuse:
                            shared = s
                    if base_pts is None:
                        base_pts = np.asarray(e["pts"](N, kw, s), dtype=float)
                    P = base_pts[idx]                                   # contract layout, this order
                    A = cat.native(e, P)                                # what the class indexes
                    x, snap = make_container(cont, A)
                    before = snap()
                    # ---- call
                    import contextlib
                    import io
                    try:
                        with contextlib.redirect_stdout(io.StringIO()):
                            sol = s(x, e["t"])
                        res["transitions"] += 1
                        res["evals"] += 1
                    except Exception as ex:
                        res["transitions"] += 1
                        res["evals"] += 1
                        cx.dg.add("callexc", type(ex).__name__)
                        cx.viol("call:raises:" + type(ex).__name__, {"container": cont} if otag in ref_by_order else {},
                                detail={"message": str(ex)[:200], "first": where})
                        continue
                    after = snap()
                    if before != after:
                        cx.viol("input:unchanged", {"container": cont}, detail={"first": where})
                    from exactpack.base import ExactSolution
                    if not isinstance(sol, ExactSolution):
                        cx.viol("type:ExactSolution", {}, detail={"type": type(sol).__name__, "first": where})
                        continue
                    digest_sol(cx.dg, sol)
                    names = tuple(sol.dtype.names or ())
                    if len(sol) != N or sol.ndim != 1:
                        cx.viol("len:N", {}, value=float(len(sol)), tol=float(N), detail={"len": len(sol), "shape": list(sol.shape), "first": where})
                        continue
                    # ---- position fields: first, standard names, bit-identical, in the order given
                    cols = [np.ascontiguousarray(P if d == 1 else P[:, j], dtype=float) for j in range(d)]
                    pos_fields = list(names[:d])
                    if names[:d] != exp_pos:
                        if all(p in names for p in exp_pos):
                            cx.viol("fields:position-not-first", {"index": names.index(exp_pos[0])}, detail={"names": list(names)})
                            pos_fields = list(exp_pos)
                        else:
                            cx.viol("names:position", {"actual": list(names[:d]), "expected": list(exp_pos)}, detail={"names": list(names)})
                    okpos = True
                    for j, fn in enumerate(pos_fields):
                        col = np.asarray(sol[fn])
                        if col.dtype != np.float64 or np.ascontiguousarray(col).tobytes() != cols[j].tobytes():
                            okpos = False
                    if not okpos:
                        cx.viol("positions:bitwise", {"container": cont} if cont != "ndarray" else {},
                                detail={"first": where, "returned": [repr(np.asarray(sol[f]).tolist()[:4]) for f in pos_fields],
                                        "passed": [c_.tolist()[:4] for c_ in cols]})
                    # ---- remaining names
                    rest = tuple(n for n in names if n not in pos_fields)
                    if rest != exp_names:
                        missing = [n for n in exp_names if n not in rest]
                        unexpected = [n for n in rest if n not in exp_names]
                        cx.viol("names:fields", {"missing": missing, "unexpected": unexpected},
                                detail={"names": list(names), "documented": list(exp_pos + exp_names)})
                    # ---- container equivalence (reference: the ndarray word of the same order)
                    if cont == "ndarray":
                        ref_by_order[otag] = sol
                        if otag in ("asc", "p012", "p0123", "mesh"):
                            asc_ref = sol
                    elif otag in ref_by_order:
                        m, fn = same_fields(sol, ref_by_order[otag])
                        if m <= TOL_SAME:
                            res["worst_container"] = max(res.get("worst_container", 0.0), m)
                        if m > TOL_SAME:
                            cx.viol("containers:equivalent", {"container": cont}, value=m, tol=TOL_SAME, detail={"field": fn, "first": where})
                    # ---- the records follow the order given (not for the documented grid-dependent three)
                    if cont == "ndarray" and asc_ref is not None and sol is not asc_ref and not e["grid"]:
                        m, fn = same_fields(sol, asc_ref[idx])
                        if m <= TOL_SAME:
                            res["worst_order"] = max(res.get("worst_order", 0.0), m)
                        if m > TOL_SAME:
                            cx.viol("order:covariant", {"order": "dup" if otag == "dup" else "perm"}, value=m, tol=TOL_SAME,
                                    detail={"field": fn, "first": where})
                    # ---- dump . reload
                    try:
                        msg = csv_roundtrip(sol, csvpath)
                        res["transitions"] += 2
                    except Exception as ex:
                        res["transitions"] += 1
                        msg = "dump/reload raised %s: %s" % (type(ex).__name__, str(ex)[:120])
                    if msg:
                        cx.viol("csv:roundtrip", {}, detail={"message": msg, "first": where})
                    # ---- bookkeeping
                    nt = False
                    for n in rest:
                        col = np.asarray(sol[n])
                        if col.dtype.kind == "f" and np.any(np.isfinite(col) & (col != 0)):
                            nt = True
                            break
                    if nt:
                        res["nontrivial"].append("%s|%s|%d|%s|%s" % (short(key), sorted(cfgd.items()), N, otag, cont))
                    if res["sample"] is None:
                        res["sample"] = {"class": short(key), "kwargs": repr(kw), "t": e["t"], "N": N, "order": otag, "container": cont,
                                         "points": np.asarray(P).tolist(), "names": list(names)}
            # ---- integer-typed positions (non-grid classes): whole-number positions given as Python ints in a list and as an integer
            # ndarray are positions like any other -- same records as the float request with the same values ('list, tuple and array
            # inputs are equivalent'; an output allocated with empty_like / zeros_like / full_like(request), or an integer power of
            # the request, shows here).  Candidates: the whole numbers inside the span of this word's points, else {1, 2, 3} (d = 1) or
            # a small integer stencil (d >= 2); a candidate set is used only if the FLOAT request with the same values evaluates to
            # finite numbers, so no knowledge of the domain is assumed.
            if not e["grid"] and e["mesh"] is None and N == max(task["Ns"]) and base_pts is not None:
                import contextlib
                import io
                cands = []
                if d == 1:
                    lo_, hi_ = float(np.min(base_pts)), float(np.max(base_pts))
                    whole = [i for i in range(int(math.ceil(lo_)), int(math.floor(hi_)) + 1)][:3]
                    cands = ([np.array(whole, dtype=np.int64)] if whole else []) + [np.array([1, 2, 3], dtype=np.int64)]
                else:
                    stencil = [[1, 0, 1], [1, 1, -1], [2, -1, 1], [3, 2, 2]]
                    cands = [np.array([row[:d] for row in stencil], dtype=np.int64), np.array([[4, 1, 1][:d], [5, 2, -2][:d], [6, -3, 1][:d]], dtype=np.int64)]
                s, ex = (shared, None) if (reuse and shared is not None) else _try_new(e, kw)
                ref, Pint, tint = None, None, e["t"]
                # times: the word's own, then 10 x and 100 x later (a wave that has not reached the whole-number positions yet leaves
                # every field at its undisturbed value, which an integer array represents exactly); first non-trivial finite answer wins
                tcands = [e["t"]] + ([10.0 * e["t"], 100.0 * e["t"]] if e["t"] else [])
                fallback = None
                for tt in tcands if ex is None else ():
                    for cnd in cands:
                        try:
                            with contextlib.redirect_stdout(io.StringIO()):
                                r_ = s(cat.native(e, cnd.astype(float)), tt)
                            num = [np.asarray(r_[n], float) for n in r_.dtype.names[d:] if np.asarray(r_[n]).dtype.kind in "fiu"]
                            ok_ = len(r_) == len(cnd) and all(np.all(np.isfinite(c_)) for c_ in num)
                            nontriv = ok_ and any(np.any((c_ != 0) & (c_ != np.round(c_))) for c_ in num)
                        except Exception:
                            ok_ = nontriv = False
                        if ok_ and fallback is None:
                            fallback = (r_, cnd, tt)
                        if nontriv:
                            ref, Pint, tint = r_, cnd, tt
                            break
                    if ref is not None:
                        break
                if ref is None and fallback is not None:
                    ref, Pint, tint = fallback
                words = ()
                if ref is not None:
                    nat = cat.native(e, Pint)
                    words = (("int-list", nat.tolist()), ("int-ndarray", np.ascontiguousarray(nat)))
                for cont, xi in words:
                    res["states"] += 1
                    res["transitions"] += 1
                    res["evals"] += 1
                    try:
                        with contextlib.redirect_stdout(io.StringIO()):
                            sol = s(xi, tint)
                    except Exception as ex2:
                        cx.dg.add("intexc", cont, type(ex2).__name__)
                        cx.viol("call:raises:" + type(ex2).__name__, {"container": cont}, detail={"message": str(ex2)[:200], "points": Pint.tolist()})
                        continue
                    digest_sol(cx.dg, sol)
                    if len(sol) != len(Pint) or tuple(sol.dtype.names or ()) != tuple(ref.dtype.names or ()):
                        cx.viol("containers:equivalent", {"container": cont}, value=1.0, tol=TOL_SAME, detail={"field": "len/names", "points": Pint.tolist()})
                        continue
                    m, fn = same_fields(sol, ref)
                    if m > TOL_SAME:
                        cx.viol("containers:equivalent", {"container": cont}, value=m, tol=TOL_SAME, detail={"field": fn, "points": Pint.tolist()})
                    else:
                        res["nontrivial"].append("%s|%s|%d|int|%s" % (short(key), sorted(cfgd.items()), len(Pint), cont))
            # ---- contract layout for classes that index a (d, N) layout: one extra word in the documented (N, d) shape
            if e["layout"] == "dN" and N == 3:
                res["states"] += 1
                s, ex = _try_new(e, kw)
                res["transitions"] += 1
                if ex is None:
                    P = np.asarray(e["pts"](N, kw, s), dtype=float)
                    outcome = None
                    try:
                        import contextlib
                        import io
                        with contextlib.redirect_stdout(io.StringIO()):
                            sol = s(P.copy(), e["t"])
                        res["evals"] += 1
                        res["transitions"] += 1
                        if len(sol) != N:
                            outcome = "len %d for N = %d points of shape (N, %d)" % (len(sol), N, d)
                        else:
                            nm = sol.dtype.names
                            for j in range(d):
                                if np.ascontiguousarray(np.asarray(sol[nm[j]], float)).tobytes() != np.ascontiguousarray(P[:, j]).tobytes():
                                    outcome = "field %d is not coordinate %d of the points" % (j, j)
                                    break
                    except Exception as ex2:
                        res["transitions"] += 1
                        outcome = "raises %s" % type(ex2).__name__
                    cx.dg.add("layout", outcome)
                    if outcome:
                        cx.viol("layout:(N,d)", {}, detail={"outcome": outcome, "shape_passed": [N, d]})
    finally:
        try:
            if os.path.exists(csvpath):
                os.remove(csvpath)
            os.rmdir(tmpdir)
        except OSError:
            pass
    res["digest"] = cx.dg.hex()
    return res


def postprocess(agg, tier):
    rs = [r for r in agg["results"] if r]
    return {"classes_in_table": len(cat.TABLE),
            "worst_container_mismatch_within_tolerance": max([r.get("worst_container", 0.0) for r in rs] or [0.0]),
            "worst_order_mismatch_within_tolerance": max([r.get("worst_order", 0.0) for r in rs] or [0.0])}
