"""C06 -- a value depends only on (parameters, point, time), not on history or batch.

Mode H (explicit-state search over operation histories of the real code):
  1. per stateful family, BFS over the family's operation alphabet to closure of the canonical interpreter state
     (module globals, class attributes, function defaults, live objects) -- every state is a live forked process;
  2. across families, every ordered pair (A, B) of compound operations (new+call) of the whole alphabet, in the two
     interleavings [new A, call A, new B, call B] and [new B, new A, call A, call B];
  3. neighbour histories: every family of the hydro catalogue, default configuration and each of its one-deviation
     neighbours, in both orders (cache keys that omit one parameter);
  4. batch independence: all non-empty subsets of a 5-point base set, all orderings of a 4-subset, a duplicate, a
     superset with a far point.
Oracle (differential, no expected values): every call observes bit-for-bit what the same call observes when made first
in a genuinely fresh interpreter after only its own constructor (and its own slot's mutators).
"""
import itertools
import json
import math

import numpy as np

from xpmc import history
from xpmc.engine import Digest

ID = "C06"
LEVEL = "model_checking"
TECHNIQUE = ("explicit-state BFS over constructor/call/mutator histories of the real implementation (states = live forked "
             "processes, de-duplicated on a canonical snapshot of module/class/default/object state), differential oracle "
             "against a fresh interpreter")
CLAIM = ("For each stateful solver family the operation alphabet (two colliding configurations per family, calls at two times "
         "and two batches, public mutators) is explored breadth-first to closure of the canonical interpreter state or to the "
         "reported depth cap; across families every ordered pair of compound operations is executed; batch independence is "
         "enumerated over all subsets/orderings of a base point set plus far-point-first, reversed and 12 006-point requests; "
         "one-deviation neighbour configurations are constructed and called around every family's default in four construct/call "
         "orders; one object is called with nearly-equal requests (times and points within numpy.isclose's tolerances); observations "
         "include the reported discontinuity locations. Every call must observe exactly what it observes first in a "
         "fresh interpreter. This is model checking of the implementation itself: the transition function is the real code.")
LEVEL_NOTE = ("trusted: fork() copies all state; the canonical snapshot sees Python-level state of exactpack.* and live objects but "
              "not C-level state inside numpy/scipy (the oracle does not rely on state equality, merging only prunes); Guderley's "
              "similarity exponent is memoised in the quick tier (the thorough tier runs the raw public path); threads out of scope")
BOUND = {"quick": "per-family BFS to closure with depth cap 6 (cap hits reported); all ordered cross-family pairs; batch subsets/orderings",
         "thorough": "depth cap 8; raw (un-memoised) Guderley histories A, B, AA, AB, BA, BB; four radiative-shock slots"}
RULE = ("a case is one transition (history, operation) of the state graph, one ordered pair of compound operations, or one "
        "(solver, batch) of the batch enumeration; it is non-trivial when the operation is a call that returned values (not an "
        "exception) and, for histories, at least one earlier operation changed a cell of the canonical snapshot; distinct by "
        "(history, operation)")
ASSUMPTIONS = [
    "state inside compiled numpy/scipy code is invisible to the snapshot (closure claim does not extend to it)",
    "the alphabet has two configurations per family chosen to differ in every parameter kept in shared cells",
    "grid-dependent solvers (Sedov, Mader, SDRZ) may vary with the batch within their documented resolution; with the history they may not vary at all",
    "sequential histories only (no threads)",
]

OPSMOD = "props.C06_ops"
A4 = 4.0 * (4.0 * 5.67051e-5 / 2.99792458e10)


def new(slot, cls, **cfg):
    return {"op": "new", "slot": slot, "cls": cls, "cfg": cfg}


def call(slot, pts, t):
    return {"op": "call", "slot": slot, "pts": json.loads(json.dumps(pts)), "t": float(t)}


def mut(slot, method, *args):
    return {"op": "mut", "slot": slot, "method": method, "args": list(args)}


def family_alphabets(tier):
    F = {}
    gcls = "builder:guderley"
    F["guderley"] = [new("gA", gcls, geometry=3, gamma=1.4, rho0=1.0), new("gB", gcls, geometry=2, gamma=3.0, rho0=2.5),
                     call("gA", [0.2, 0.6, 1.1, 1.7], 0.5), call("gA", [0.2, 0.6, 1.1, 1.7], 1.0),
                     call("gB", [0.2, 0.6, 1.1, 1.7], 0.5), call("gB", [0.3, 0.9], 1.0)]
    F["rmtv"] = [new("rA", "rmtv.rmtv.Rmtv"),
                 new("rB", "rmtv.rmtv.Rmtv", aval=-1.0, bval=4.0, xif=1.5, beta0=5.0e7, gamma=1.4, chi0=2.0, bigamma=3.0, rf=2.0, g0=0.5),
                 call("rA", [0.1, 0.3, 0.44, 0.6, 0.89], 1.0), call("rA", [0.46, 0.95], 1.0),
                 call("rB", [0.2, 0.7, 1.3, 1.9], 1.0)]
    F["suolson"] = [new("sA", "suolson.suolson.SuOlson"),
                    new("sB", "suolson.suolson.SuOlson", opac=2.0, alpha=3.0 * A4, trad_bc_ev=500.0),
                    call("sA", [0.0, 0.1, 1.0, 5.0], 1.0e-9), call("sA", [0.3, 2.0], 1.0e-10),
                    call("sB", [0.0, 0.1, 1.0, 5.0], 1.0e-9), call("sB", [0.3, 2.0], 1.0e-10)]
    rs = "radshocks.nED_radshocks."
    F["radshock"] = [new("xE", rs + "ED_Solver"), new("xN", rs + "nED_Solver", M0=2.0, gamma=1.4, Tref=50.0),
                     call("xE", [-0.02, -0.001, 0.0, 0.001, 0.02], 1.0e-9), call("xN", [-0.02, -0.001, 0.0, 0.001, 0.02], 1.0e-9)]
    if tier == "thorough":
        F["radshock"] += [new("xF", rs + "nED_Solver", problem="FLD_LP"), new("xI", rs + "ie_Solver"),
                          call("xF", [-0.02, -0.001, 0.0, 0.001, 0.02], 1.0e-9), call("xI", [-0.02, -0.001, 0.0, 0.001, 0.02], 1.0e-9)]
    bb = "builder:bbnoh"
    F["bbnoh"] = [new("bP", bb, wrapper="PlanarNohBlackBox", eos=["ideal", 5.0 / 3.0], ic=None),
                  new("bS", bb, wrapper="SphericalNohBlackBox", eos=["noble_abel", 5.0 / 3.0, 0.01], ic=None),
                  new("bS2", bb, wrapper="SphericalNohBlackBox", eos=["ideal", 1.4], ic={"density": 2.0, "velocity": -1.5, "pressure": 0}),
                  mut("bP", "set_new_solver_initial_guess", [5.0, 1.0, 1.0]), mut("bS", "set_new_solver_initial_guess", [5.0, 1.0, 1.0]),
                  mut("bS2", "set_new_solver_initial_guess", [8.0, 1.0, 0.5]),
                  mut("bP", "set_new_solver_tolerance", 1.0e-4),
                  # the loosest tolerance the Newton solver accepts, set on ANOTHER object, and a guess for bS from which the
                  # iteration at that tolerance stops 1e-6 short of the converged state: the Newton solver must not be shared
                  # between objects (anchored state NohBlackBoxEos.solver)
                  mut("bP", "set_new_solver_tolerance", 1.0e-2), mut("bS", "set_new_solver_initial_guess", [60.0, 0.6, 0.4]),
                  call("bP", [0.05, 0.2, 0.5], 0.6), call("bS", [0.05, 0.2, 0.5], 0.6), call("bS2", [0.05, 0.2, 0.5], 0.6)]
    F["blake"] = [new("kA", "blake.blake.Blake"), new("kB", "blake.blake.Blake", shear_mod=3.0e9, bulk_mod=8.0e9, ref_density=7800.0),
                  call("kA", [0.1, 0.2, 0.4, 0.8], 1.6e-4), call("kB", [0.1, 0.2, 0.4, 0.8], 1.6e-4), call("kA", [0.15, 0.3], 0.8e-4)]
    ri = "riemann.ep_riemann."
    lax = dict(rl=0.445, ul=0.698, pl=3.528, rr=0.5, ur=0.0, pr=0.571)
    F["riemann"] = [new("iA", ri + "IGEOS_Solver"), new("iB", ri + "IGEOS_Solver", **lax),
                    new("eA", ri + "GenEOS_Solver", num_int_pts=301, num_x_pts=801),
                    call("iA", [0.1, 0.4, 0.6, 0.8, 0.95], 0.1), call("iA", [0.1, 0.4, 0.6, 0.8, 0.95], 0.2), call("iA", [0.3, 0.7], 0.1),
                    call("iB", [0.1, 0.4, 0.6, 0.8, 0.95], 0.1), call("eA", [0.1, 0.4, 0.6, 0.8, 0.95], 0.1),
                    call("eA", [0.3, 0.7], 0.2),
                    # a late time at which the waves have left the declared window [xmin, xmax] (the solvers then widen their internal
                    # grid): an early-time call after it must not see the widened grid (seeded change S2-C10-2)
                    call("eA", [0.1, 0.4, 0.6, 0.8, 0.95], 0.6), call("iA", [0.1, 0.4, 0.6, 0.8, 0.95], 0.6)]
    # dB is a vacuum-type problem (omega above the singular value) so the per-call vacuum-boundary attributes are in play;
    # it is called at two times with points between the two vacuum radii (added after the seeded change S-C06-2)
    F["sedov"] = [new("dA", "sedov.sedov.Sedov"), new("dB", "sedov.sedov.Sedov", geometry=2, gamma=1.4, omega=1.7, rho0=2.5, eblast=3.0),
                  call("dA", [0.1, 0.5, 0.9, 1.2], 1.0), call("dA", [0.1, 0.5, 0.9, 1.2], 0.3), call("dA", [0.2, 0.5, 3.0], 1.0),
                  call("dB", [0.03, 0.07, 0.11, 0.2, 0.5, 0.9, 1.2], 1.0), call("dB", [0.03, 0.07, 0.11, 0.2, 0.5, 0.9, 1.2], 0.5)]
    F["gridded"] = [new("mA", "mader.timmes.Mader"), new("mB", "mader.timmes.Mader", gamma=2.0, u_piston=2.0e4),
                    new("zA", "sdrz.sdrz.SteadyDetonationReactionZone"), new("pA", "ep_piston.ep_piston.EPpiston"),
                    call("mA", [0.5, 1.5, 2.5, 3.5, 4.5], 6.25e-6), call("mA", [0.5, 1.5, 2.5, 3.5, 4.5], 3.0e-6),
                    call("mB", [0.5, 1.5, 2.5, 3.5, 4.5], 6.25e-6),
                    call("zA", [0.1, 0.4, 0.7, 0.84], 1.0), call("zA", [0.1, 0.4, 0.7, 0.84], 2.0),
                    call("pA", [0.1, 0.3, 0.5, 1.0], 1.0), call("pA", [0.1, 0.3, 0.5, 2.0], 0.5),
                    # the finite-strain model runs its own root solve at construction; the 2D Riemann solver makes numpy warn on
                    # every call: a warnings filter or error state left behind by the first changes what the second does
                    # (seeded change S2-C06-1)
                    new("pF", "ep_piston.ep_piston.EPpiston", model="hyperFin"), call("pF", [0.1, 0.3, 0.5, 1.0], 1.0),
                    new("r2", "riemann2D_2section_steadystate.ep_riemann2D_2section_steadystate.IGEOS_Solver"),
                    call("r2", [[1.0, 0.6], [1.0, 0.25], [1.0, -0.8]], 0.25)]
    F["controls"] = [new("nA", "noh.noh1.Noh"), new("nB", "noh.noh1.Noh", geometry=2, gamma=1.4, u0=-2.0, rho0=3.0),
                     new("cA", "cog.cog1.Cog1"), new("hA", "heat.rod1d.Rod1D"),
                     call("nA", [0.1, 0.3, 0.5], 0.6), call("nB", [0.1, 0.3, 0.5], 0.6), call("cA", [0.5, 1.0, 2.0], 1.1),
                     call("hA", [0.1, 1.0, 1.9], 0.1)]
    F["burn"] = [new("k2", "kenamond.kenamond2.Kenamond2"), new("k3", "kenamond.kenamond3.Kenamond3"),
                 new("k3b", "kenamond.kenamond3.Kenamond3", x_d=[4.0, 3.0], D=1.0),
                 new("k2b", "kenamond.kenamond2.Kenamond2", dets=[9.0, 6.0, -4.0, -11.0], t_d=[2.5, 1.0, 0.0, 1.5, 2.0], R=2.0),
                 call("k2b", [[4.0, 1.0], [0.5, 0.5], [-6.0, 2.0], [0.3, 5.5], [0.2, -9.0], [1.0, 9.5]], 0.0),
                 new("cx", "dsd.cylexpansion.CylindricalExpansion"),
                 call("k2", [[4.0, 1.0], [0.5, 0.5], [-6.0, 2.0], [0.3, 5.5], [0.2, -9.0], [1.0, 9.5]], 0.0), call("k3", [[4.0, 1.0], [-3.5, -2.0], [0.0, -6.0]], 0.0),
                 # a second request of the same shape with other points on the same objects (a memo keyed on the identity or the
                 # shape of the points array: seeded change S2-C06-3)
                 call("k2", [[-4.0, 2.5], [1.5, -0.5], [7.0, 1.0], [0.5, 6.5], [0.1, -4.5], [2.0, -10.5]], 0.0), call("k3", [[5.0, -1.0], [-3.2, 2.0], [1.0, 6.5]], 0.0),
                 call("k3b", [[4.0, 1.0], [-3.5, -2.0], [0.0, -6.0]], 0.0), call("cx", [[1.2, 0.0], [0.0, 1.7], [1.5, 1.5]], 0.0)]
    return F


def compound_ops(tier):
    """Cross-family alphabet: every (constructor, first call of that slot) of every family, as one compound operation."""
    out = []
    for fam, ops in family_alphabets(tier).items():
        news = [o for o in ops if o["op"] == "new"]
        for n in news:
            calls = [o for o in ops if o["op"] == "call" and o["slot"] == n["slot"]]
            if calls:
                out.append({"family": fam, "ops": [n, calls[0]]})
    return out


BATCH_SOLVERS = [
    # (name, cls, cfg, base 5 points, far point, t, mode)   mode: exact | grid (documented resolution)
    ("Noh", "noh.noh1.Noh", {}, [0.05, 0.15, 0.3, 0.6, 0.9], 5.0, 0.6, "exact"),
    ("Cog8", "cog.cog8.Cog8", {}, [0.3, 0.7, 1.1, 1.9, 2.6], 9.0, 1.1, "exact"),
    ("IGEOS", "riemann.ep_riemann.IGEOS_Solver", {}, [0.1, 0.35, 0.55, 0.75, 0.95], 3.0, 0.2, "exact"),
    ("GenEOS", "riemann.ep_riemann.GenEOS_Solver", {"num_int_pts": 301, "num_x_pts": 801}, [0.1, 0.35, 0.55, 0.75, 0.95], 3.0, 0.2, "exact"),
    ("EHEP", "ehep.ehep.EscapeOfHEProducts", {}, [0.2, 0.5, 0.8, 1.3, 2.0], 6.0, 1.5, "exact"),
    ("Rmtv", "rmtv.rmtv.Rmtv", {}, [0.1, 0.3, 0.44, 0.6, 0.89], 1.5, 1.0, "exact"),
    ("SuOlson", "suolson.suolson.SuOlson", {}, [0.0, 0.1, 0.5, 1.0, 5.0], 40.0, 1.0e-9, "exact"),      # far point below 1 % of T_bc (S3-C18-3)
    ("Blake", "blake.blake.Blake", {}, [0.1, 0.2, 0.4, 0.6, 0.8], 3.0, 1.6e-4, "exact"),
    ("Rod1D", "heat.rod1d.Rod1D", {}, [0.1, 0.5, 1.0, 1.5, 1.9], 2.0, 0.1, "exact"),
    ("ED_Solver", "radshocks.nED_radshocks.ED_Solver", {}, [-0.02, -0.001, 0.0, 0.001, 0.02], 0.5, 1.0e-9, "exact-shared-object"),
    ("EPpiston", "ep_piston.ep_piston.EPpiston", {}, [0.1, 0.3, 0.5, 0.7, 1.0], 2.5, 0.5, "exact-or-guard"),
    # base points outside the documented untrusted small-radius region (r < ~0.31 r_shock) and >= 12 cells from the shock (r_shock = 1)
    ("Hutchens1", "heat.hutchens1.Hutchens1", {}, [0.2, 0.25, 0.5, 0.75, 0.8], 0.9, 0.1, "exact"),      # simple fractions of b (S2-C06-2)
    ("Hutchens1early", "heat.hutchens1.Hutchens1", {}, [0.05, 0.15, 0.25, 0.35, 0.45], 0.95, 0.001, "exact"),
    ("Noh2", "noh2.noh2.Noh2", {}, [0.1, 0.4, 0.7, 1.0, 1.5], 3.0, 0.5, "exact"),
    ("Cog1", "cog.cog1.Cog1", {}, [0.3, 0.7, 1.1, 1.9, 2.6], 9.0, 1.1, "exact"),
    ("PlanarSandwich", "heat.planar_sandwich.PlanarSandwich", {"Nsum": 200}, [0.1, 0.5, 1.0, 1.5, 1.9], 2.0, 0.1, "exact"),
    ("Kenamond1", "kenamond.kenamond1.Kenamond1", {"x_d": [1.5, -0.5], "D": 2.5, "t_d": 0.7}, [[1.0, 1.0], [2.0, -1.0], [0.5, 3.0], [-2.0, 0.0], [4.0, 4.0]], [9.0, 9.0], 0.0, "exact"),
    ("Kenamond2", "kenamond.kenamond2.Kenamond2", {}, [[4.0, 1.0], [0.5, 0.5], [0.3, 5.5], [0.2, -9.0], [1.0, 9.5]], [0.4, -5.5], 0.0, "exact"),
    ("Kenamond3", "kenamond.kenamond3.Kenamond3", {}, [[4.0, 1.0], [-3.5, -2.0], [0.0, -6.0], [3.1, 0.2], [-1.0, 7.0]], [9.0, 9.0], 0.0, "exact"),
    ("CylindricalExpansion", "dsd.cylexpansion.CylindricalExpansion", {}, [[1.2, 0.0], [0.0, 1.7], [1.5, 1.5], [2.0, 0.0], [-2.2, 1.0]], [5.0, 5.0], 0.0, "exact"),
    ("Sedov", "sedov.sedov.Sedov", {}, [0.45, 0.6, 0.75, 0.9, 1.2], 2.0, 1.0, "grid"),
    ("Mader", "mader.timmes.Mader", {}, [0.5, 1.5, 2.5, 3.5, 4.5], 4.9, 6.25e-6, "grid"),
    ("SDRZ", "sdrz.sdrz.SteadyDetonationReactionZone", {}, [0.1, 0.3, 0.5, 0.7, 0.84], 2.0, 1.0, "exact"),
]


# solvers cheap enough per point for the 12 006-point request (the others cost 1-20 ms per point)
LARGE_OK = {"Noh", "Cog8", "IGEOS", "GenEOS", "Blake", "Rod1D", "Hutchens1", "Noh2", "Cog1", "PlanarSandwich", "EPpiston"}


def tasks(tier, seed):
    out = []
    for fam in family_alphabets(tier):
        out.append({"kind": "family", "family": fam, "tier": tier})
    comp = compound_ops(tier)
    for j in range(len(comp)):
        out.append({"kind": "pairs", "second": j, "tier": tier})
    for b in BATCH_SOLVERS:
        out.append({"kind": "batch", "solver": b[0], "tier": tier})
    for fam in neighbour_families(tier):
        out.append({"kind": "neighbours", "family": fam, "tier": tier})
    for fam in neighbour_families(tier):
        out.append({"kind": "near", "family": fam, "tier": tier})
    if tier == "thorough":
        for word in ("AA", "AB", "BA", "BB"):
            out.append({"kind": "guderley_raw", "word": word, "tier": tier})
    return out


def preimport():
    """The zygote: import the whole package (and nothing else) before workers are forked."""
    from xpmc import solvers
    solvers.import_all()
    import xpmc.hydro_more  # noqa
    import props.C06_ops  # noqa


_REF_CACHE = {}


def ref_obs(ops):
    key = json.dumps(ops, sort_keys=True)
    if key not in _REF_CACHE:
        _REF_CACHE[key] = history.reference(OPSMOD, ops)[-1]
    return _REF_CACHE[key]


def compare(obs, ref):
    """None if equal, else a dict describing the difference."""
    if obs.get("kind") == "harness-exc":
        raise RuntimeError("harness exception in a state process:\n" + obs.get("detail", ""))
    if obs.get("digest") == ref.get("digest"):
        return None
    d = {"observed": obs.get("kind"), "reference": ref.get("kind")}
    if obs.get("kind") == "val" and ref.get("kind") == "val":
        worst = 0.0
        wf = None
        for n, a in obs["fields"].items():
            b = ref["fields"].get(n)
            if b is None or len(b) != len(a):
                wf, worst = n, float("inf")
                break
            try:
                x, y = np.array(a, float), np.array(b, float)
            except ValueError:
                if a != b:
                    wf, worst = n, float("inf")
                continue
            same = (x == y) | (np.isnan(x) & np.isnan(y))
            if not same.all():
                with np.errstate(all="ignore"):
                    rel = np.abs(x - y) / np.maximum(np.maximum(np.abs(x), np.abs(y)), 1e-300)
                rel = np.where(same, 0.0, np.nan_to_num(rel, nan=1.0))
                if rel.max() >= worst:
                    worst, wf = float(rel.max()), n
        if wf is None and obs.get("jumps") != ref.get("jumps"):
            wf, worst = "jumps (reported discontinuity locations)", 1.0
            d.update(jumps_observed=obs.get("jumps"), jumps_reference=ref.get("jumps"))
        d.update(field=wf, max_rel_diff=worst)
    else:
        d.update(obs_type=obs.get("type"), ref_type=ref.get("type"), obs_msg=obs.get("msg"), ref_msg=ref.get("msg"))
    return d


def _viol(solver, clause, where, value, detail):
    return {"solver": solver, "cfg": {}, "clause": clause, "where": where, "value": value, "tol": 0.0, "detail": detail}


def _slot_cls(hist, op):
    for o in hist + [op]:
        if o["op"] == "new" and o["slot"] == op["slot"]:
            return o["cls"].split(".")[-1] if not o["cls"].startswith("builder:") else o["cls"].split(":")[1]
    return "?"


def run_family(task):
    import props.C06_ops as opsmod
    alphabet = family_alphabets(task["tier"])[task["family"]]
    cap = 6 if task["tier"] == "quick" else 8
    res = {"evals": 0, "nontrivial": [], "violations": [], "counters": {}, "sample": None}
    dg = Digest()
    seen_v = set()

    def on_transition(hist, op, obs, changed):
        res["evals"] += 1
        dg.add(json.dumps(op, sort_keys=True), obs.get("digest"))
        if op["op"] == "mut":
            return
        ref = ref_obs(opsmod.reference_ops(hist, op))
        diff = compare(obs, ref)
        touched = any(True for o in hist)
        if op["op"] == "call" and obs.get("kind") == "val" and touched:
            res["nontrivial"].append(json.dumps([hist, op], sort_keys=True))
        if diff is not None:
            words = [o["op"] + ":" + o["slot"] + ((":" + o["method"]) if o["op"] == "mut" else "") for o in hist]
            key = (op["slot"], json.dumps(op, sort_keys=True))
            if key in seen_v:       # report the shortest history per operation (BFS order => first is shortest)
                res["counters"]["further_histories_same_op"] = res["counters"].get("further_histories_same_op", 0) + 1
                return
            seen_v.add(key)
            res["violations"].append(_viol(
                _slot_cls(hist, op), "history:%s-differs-from-fresh" % op["op"],
                {"family": task["family"], "slot": op["slot"], "op": op, "history": words},
                diff.get("max_rel_diff", 1.0), {"diff": diff, "history_ops": hist}))

    out = history.bfs(opsmod, alphabet, cap, on_transition)
    res["states"] = out["states"]
    res["transitions"] = out["transitions"]
    C = res["counters"]
    C["family_states:" + task["family"]] = out["states"]
    C["family_max_depth:" + task["family"]] = out["max_depth"]
    C["family_closed:" + task["family"]] = int(out["closed"])
    C["depth_cap_hits"] = int(not out["closed"])
    C["reference_interpreters_spawned"] = len(_REF_CACHE)
    C["ops_with_one_outcome"] = sum(1 for v in out["outcomes_per_op"].values() if v == 1)
    C["ops_with_several_outcomes"] = sum(1 for v in out["outcomes_per_op"].values() if v > 1)
    shared = sorted(c for c in out["changed_cells"] if not c.startswith("live:"))
    res["sample"] = {"family": task["family"], "alphabet_size": len(alphabet), "states": out["states"],
                     "transitions": out["transitions"], "max_depth": out["max_depth"], "closed": out["closed"],
                     "shared_cells_written": shared[:25], "n_shared_cells_written": len(shared),
                     "example_history": out["state_histories"][-1] if out["state_histories"] else []}
    res["shared_cells"] = shared
    res["digest"] = dg.hex()
    _REF_CACHE.clear()
    return res


def run_pairs(task):
    import props.C06_ops as opsmod
    comp = compound_ops(task["tier"])
    B = comp[task["second"]]
    res = {"evals": 0, "nontrivial": [], "violations": [], "counters": {}, "sample": None, "states": 0, "transitions": 0}
    dg = Digest()
    refB = history.reference(OPSMOD, B["ops"])
    for i, A in enumerate(comp):
        # slots are renamed so A and B never share an object
        opsA = [dict(o, slot="first_" + o["slot"]) for o in A["ops"]]
        opsB = [dict(o, slot="second_" + o["slot"]) for o in B["ops"]]
        out = history.run_in_fork(opsmod, opsA + opsB)
        res["evals"] += 2
        res["transitions"] += len(out)
        res["states"] += 1
        obsB_new, obsB_call = out[-2]["obs"], out[-1]["obs"]
        dg.add(i, obsB_new.get("digest"), obsB_call.get("digest"))
        for which, obs, ref in (("new", obsB_new, refB[0]), ("call", obsB_call, refB[1])):
            diff = compare(obs, ref)
            if diff is not None:
                res["violations"].append(_viol(
                    _slot_cls([], B["ops"][0]), "pair:%s-after-other-solver-differs-from-fresh" % which,
                    {"first": A["ops"][0]["slot"], "second": B["ops"][0]["slot"]},
                    diff.get("max_rel_diff", 1.0), {"diff": diff, "first_ops": A["ops"], "second_ops": B["ops"]}))
        # interleaved form: B is constructed first, A runs completely in between, then B is called
        #   [new B, new A, call A, call B]   (catches state that B's constructor leaves for its call and A clobbers)
        out2 = history.run_in_fork(opsmod, [opsB[0]] + opsA + [opsB[1]])
        res["evals"] += 2
        res["transitions"] += len(out2)
        res["states"] += 1
        obs2 = out2[-1]["obs"]
        dg.add("sandwich", i, obs2.get("digest"))
        diff2 = compare(obs2, refB[1])
        if diff2 is not None:
            res["violations"].append(_viol(
                _slot_cls([], B["ops"][0]), "pair:call-with-other-solver-interleaved-differs-from-fresh",
                {"first": A["ops"][0]["slot"], "second": B["ops"][0]["slot"]},
                diff2.get("max_rel_diff", 1.0), {"diff": diff2, "first_ops": A["ops"], "second_ops": B["ops"]}))
        shared_changed = [c for o in out[:2] for c in o["changed"] if not c.startswith("live:")]
        if obsB_call.get("kind") == "val":
            res["nontrivial"].append("pair|%s|%s" % (A["ops"][0]["slot"], B["ops"][0]["slot"]))
        if shared_changed:
            res["counters"]["pairs_where_first_wrote_shared_cells"] = res["counters"].get("pairs_where_first_wrote_shared_cells", 0) + 1
    res["sample"] = {"pairs_second": B["ops"], "n_first": len(comp)}
    res["digest"] = dg.hex()
    return res


def batch_variants(base, far):
    """All 31 non-empty subsets, all 24 orderings of the first four points, one duplicate, three supersets with a far point (last, first,
    middle), the reversed base."""
    idx = range(len(base))
    out = []
    for k in range(1, len(base) + 1):
        for sub in itertools.combinations(idx, k):
            out.append(("subset", [base[i] for i in sub]))
    for perm in itertools.permutations(range(4)):
        out.append(("order", [base[i] for i in perm]))
    out.append(("duplicate", [base[0], base[1], base[1], base[2]]))
    out.append(("superset", list(base) + [far]))
    # the far point FIRST and in the middle, and the whole base reversed: a loop that stops (or switches branch) at the first point of
    # some kind assumes an ascending request (added after the seeded change S3-C18-3)
    out.append(("superset-first", [far] + list(base)))
    out.append(("superset-middle", list(base[:2]) + [far] + list(base[2:])))
    out.append(("reversed", list(base)[::-1]))
    # a LARGE request (12 001 more points spread over the span of the base): an internal grid that absorbs the request only below some
    # size makes a point's value depend on how many companions it has (seeded change S4-C06-3); 1-D requests only
    if not isinstance(base[0], (list, tuple)):
        lo, hi = min(base), max(base)
        out.append(("large", list(base) + [lo + (hi - lo) * (i + 0.5) / 12001.0 for i in range(12001)]))
    return out


def run_batch(task):
    """Executed in a fork of the pristine worker (one child per solver; a fresh solver object per batch so that only the
    batch varies)."""
    import props.C06_ops as opsmod
    name, cls, cfg, base, far, t, mode = [b for b in BATCH_SOLVERS if b[0] == task["solver"]][0]
    cls_name = cls
    variants = batch_variants(base, far)
    if name not in LARGE_OK:
        variants = [(k, p) for k, p in variants if k != "large"]
    if name == "Mader":
        # Mader documents its input as a grid: N >= 2 ascending points (dx = (x[-1]-x[0])/N; a single point gives NaN,
        # pinned by its own test-suite docstring); orderings/duplicates are not grids
        variants = [(k, p) for k, p in variants if k in ("subset", "superset") and len(p) >= 2]      # ascending only
    ops = []
    for vi, (kind, pts) in enumerate(variants):
        if mode == "exact-shared-object":      # heavy constructor: one object, so here batch and call history vary together
            ops.append(new("s", cls, **cfg) if vi == 0 else {"op": "nop", "slot": "s"})
            ops.append(call("s", pts, t))
        else:
            ops.append(new("s%d" % vi, cls, **cfg))
            ops.append(call("s%d" % vi, pts, t))
    out = history.run_in_fork(opsmod, ops)
    res = {"evals": len(variants), "nontrivial": [], "violations": [], "counters": {}, "sample": None, "states": len(variants),
           "transitions": len(ops)}
    dg = Digest()
    # per-point reference: the value in the full base batch (variant index of the full subset)
    full_i = [i for i, (k, p) in enumerate(variants) if k == "subset" and len(p) == len(base)][0]
    full = out[2 * full_i + 1]["obs"]
    if full.get("kind") == "harness-exc":
        raise RuntimeError(full.get("detail"))
    worst = {}
    for vi, (kind, pts) in enumerate(variants):
        obs = out[2 * vi + 1]["obs"]
        dg.add(vi, obs.get("digest"))
        if obs.get("kind") == "harness-exc":
            raise RuntimeError(obs.get("detail"))
        if obs.get("kind") != "val" or full.get("kind") != "val":
            if obs.get("kind") != full.get("kind"):
                if mode == "exact-or-guard" or (name == "Mader" and len(pts) == 1):
                    res["counters"]["documented_batch_guards"] = res["counters"].get("documented_batch_guards", 0) + 1
                    continue
                res["violations"].append(_viol(name, "batch:exception-depends-on-batch", {"variant": kind, "n": len(pts)}, 1.0,
                                               {"pts": pts, "obs": {k: obs.get(k) for k in ("kind", "type", "msg")}}))
            continue
        res["nontrivial"].append("batch|%s|%s|%s" % (name, kind, pts))
        for fname, vals in obs["fields"].items():
            try:
                x = np.array(vals, float)
            except ValueError:
                continue
            ref = np.array([full["fields"][fname][base.index(p)] if p in base else np.nan for p in pts], float)
            m = ~np.isnan(ref) | np.isnan(x)
            same = (x == ref) | (np.isnan(x) & np.isnan(ref))
            scale = max(np.nanmax(np.abs(np.array(full["fields"][fname], float))), 1e-300)
            with np.errstate(all="ignore"):
                d = np.where(same | ~m, 0.0, np.abs(x - ref) / scale)
            d = np.nan_to_num(d, nan=1.0)
            w = float(d.max()) if d.size else 0.0
            worst[fname] = max(worst.get(fname, 0.0), w)
            tol = 0.0 if mode.startswith("exact") else GRID_TOL[name]
            if w > tol:
                res["violations"].append(_viol(name, "batch:value-depends-on-batch:%s" % fname, {"variant": kind, "n": len(pts)}, w,
                                               {"pts": pts, "tol": tol}))
    res["counters"]["batch_variants"] = len(variants)
    res["sample"] = {"solver": name, "variants": len(variants), "worst_scaled_diff_per_field": worst, "mode": mode}
    res["digest"] = dg.hex()
    return res


# documented resolution of the grid-dependent solvers, relative to the field's scale over the base batch:
#   Sedov: linear interpolation on linspace(0, max(r), 3001) -> O((max r/3000)^2 f'') plus the smeared shock cell (points
#          within one cell of the shock are not in the base set); Mader: cell averages over dx=(x[-1]-x[0])/N.
GRID_TOL = {"Sedov": 2e-2, "Mader": 0.5}


def run_guderley_raw(task):
    """Thorough tier: the raw public Guderley path (no memo) after another raw Guderley evaluation, against the same
    evaluation made first in a genuinely fresh interpreter (covers the module globals of guderley/eexp.py)."""
    import props.C06_ops as opsmod
    cfgs = {"A": dict(geometry=3, gamma=1.4, rho0=1.0), "B": dict(geometry=2, gamma=3.0, rho0=2.5)}
    ops = []
    for i, w in enumerate(task["word"]):
        ops.append(new("g%d" % i, "builder:guderley_raw", **cfgs[w]))
        ops.append(call("g%d" % i, [0.3, 0.9, 1.6], 0.5))
    out = history.run_in_fork(opsmod, ops)
    res = {"evals": len(task["word"]), "nontrivial": ["graw|" + task["word"]], "violations": [], "counters": {}, "states": len(ops),
           "transitions": len(ops)}
    last = out[-1]["obs"]
    ref = history.reference(OPSMOD, [dict(ops[-2], slot="g"), dict(ops[-1], slot="g")], timeout=3600)[-1]
    diff = compare(last, ref)
    if diff is not None:
        res["violations"].append(_viol("Guderley", "history:raw-guderley-differs-from-fresh", {"word": task["word"]},
                                       diff.get("max_rel_diff", 1.0), {"diff": diff}))
    res["sample"] = {"word": task["word"], "ops": ops}
    res["digest"] = Digest().add(last.get("digest")).hex()
    return res


# ---------------------------------------------------------------------------------------------------------------
# neighbour histories: a configuration and each of its ONE-deviation neighbours, in both orders.  Two configurations
# that differ in every parameter (the family alphabets above) cannot expose a value cached under a key that omits one
# parameter; two that differ in exactly one can (seeded changes S-C11-2: quadratures cached without gamma; S-C09-2:
# isentrope cached without the velocity).
# ---------------------------------------------------------------------------------------------------------------
NEIGHBOUR_SKIP = {"Guderley"}                                   # 3-20 ms per point and minutes per exponent: covered by its family
NEIGHBOUR_THOROUGH_ONLY = {"ED_Solver", "nED_Solver", "ie_Solver"}   # 1-2.5 s per construction
NEIGHBOUR_POINTS = {"Sedov": [0.2, 0.5, 0.8, 1.1, 1.6], "Mader": [0.5, 1.5, 2.5, 3.5, 4.5], "EPpiston": [0.1, 0.3, 0.5, 0.8, 3.0]}


_SHYUE = dict(rl=1.7, ul=0.0, pl=10.0, gl=1.25, rr=1.0, ur=0.0, pr=0.5, gr=1.25, xmin=0.0, xd0=50.0, xmax=100.0,
              R1=4.6, R2=1.35, r0=1.84, e0=0.0, B=0.205, num_int_pts=201, num_x_pts=801)
# solver classes outside the hydro catalogue: (class path, fixed kwargs, alphabet {param: [default, alternative, ...]}, points, time)
EXTRA_NEIGHBOURS = {
    "Kenamond1": ("kenamond.kenamond1.Kenamond1", {}, {"D": [1.0, 2.5], "x_d": [[0.0, 0.0], [1.5, -0.5]], "t_d": [0.0, 0.7]},
                  [[1.0, 1.0], [2.0, -1.0], [0.5, 3.0]], 0.0),
    "Kenamond2": ("kenamond.kenamond2.Kenamond2", {}, {"R": [3.0, 2.0], "D1": [2.0, 3.0], "D2": [1.0, 0.5], "dets": [[10.0, 5.0, -5.0, -10.0], [9.0, 6.0, -4.0, -11.0]],
                                                     "t_d": [[2.0, 1.0, 0.0, 1.0, 2.0], [2.5, 1.0, 0.0, 1.5, 2.0]], "geometry": [2, 3]},
                  None, 0.0),
    "Kenamond3": ("kenamond.kenamond3.Kenamond3", {}, {"R": [3.0, 2.0], "D": [2.0, 1.0], "x_d": [[0.0, 5.0], [4.0, 3.0]], "t_d": [0.0, 0.5]},
                  [[4.0, 1.0], [-3.5, -2.0], [0.0, -6.0]], 0.0),
    "CylindricalExpansion": ("dsd.cylexpansion.CylindricalExpansion", {}, {"r_1": [1.0, 1.5], "r_2": [2.0, 3.0], "D_CJ_1": [0.5, 0.8], "D_CJ_2": [1.0, 1.4],
                                                                          "alpha_1": [0.1, 0.0], "alpha_2": [0.1, 0.2], "t_d": [0.0, -2.0]},
                             [[1.7, 0.0], [0.0, 1.9], [2.5, 2.5]], 0.0),
    "Rod1D": ("heat.rod1d.Rod1D", {}, {"kappa": [1.0, 0.5], "L": [2.0, 1.5], "TL": [3.0, 1.0], "TR": [3.0, 2.0], "Nsum": [100, 50], "gamma1": [0.0, 1.0]},
              [0.1, 0.7, 1.3], 0.1),
    "PlanarSandwich": ("heat.planar_sandwich.PlanarSandwich", {"Nsum": 200}, {"kappa": [1.0, 0.5], "L": [2.0, 1.5], "TB": [1.0, 2.0], "TT": [0.0, 1.0]},
                       [0.1, 0.7, 1.3], 0.1),
    "Hutchens1": ("heat.hutchens1.Hutchens1", {}, {"b": [1.0, 2.5], "Tb": [5.0, 3.0], "T0": [1.0, 2.0], "rho": [7.897, 4.0], "Nsum": [100, 50]},
                  [0.2, 0.5, 0.8], 0.1),
    "Rectangle": ("heat.rectangle.Rectangle", {"Nsum": 30}, {"a": [2.0, 1.5], "b": [2.0, 2.5], "Ttop": [1.0, 3.0], "kappa": [1.0, 0.5]},
                  [[0.3, 0.9, 1.2], [0.4, 1.0, 1.6]], 0.05),
    "SuOlson": ("suolson.suolson.SuOlson", {}, {"opac": [1.0, 2.0], "alpha": [A4, 3.0 * A4], "trad_bc_ev": [1000.0, 500.0]}, [0.0, 0.1, 1.0], 1.0e-9),
    "Blake": ("blake.blake.Blake", {}, {"ref_density": [3000.0, 7800.0], "cavity_radius": [0.1, 0.2], "pressure_scale": [1.0e6, 1.0e5]},
              [0.25, 0.4, 0.8], 1.6e-4),
    "Riemann2D": ("riemann2D_2section_steadystate.ep_riemann2D_2section_steadystate.IGEOS_Solver", {},
                  {"bottom_state": [[1.0, 1.0, 2.4, 0.0, 1.4], [1.0, 1.0, 3.0, 0.0, 1.4]], "top_state": [[0.25, 0.5, 7.0, 0.0, 1.4], [0.25, 0.5, 4.0, 0.0, 1.4]]},
                  [[1.0, -0.6], [1.0, -0.1], [1.0, 0.3], [1.0, 0.8]], 0.25),
    "CylindricalSandwich": ("heat.cylindrical_sandwich.CylindricalSandwich", {"Nsum": 3, "Msum": 4},
                            {"a": [0.25, 0.3], "b": [0.85, 0.9], "T1": [1.0, 2.0], "T0": [0.0, 0.5], "kappa": [1.0, 2.0]},
                            [[0.3, 0.5, 0.8], [0.2, 0.8, 1.3]], 0.05),
    "Hutchens2": ("heat.hutchens2.Hutchens2", {"Nsum": 20}, {"b": [1.0, 1.5], "L": [2.0, 1.0], "Tb": [5.0, 3.0], "T0": [2.0, 1.0], "TL": [1.0, 4.0], "g0": [1.0e13, 2.0e12]},
                  [[0.2, 0.5, 0.8], [0.3, 1.0, 1.7]], 0.0),
    # one set of left/right states under three equations of state (a table cached under a key that omits the EOS: seeded change S2-C04-2)
    "GenEOS_eos": ("riemann.ep_riemann.GenEOS_Solver", _SHYUE, {"problem": ["JWL", "igeos"], "A": [8.545, 4.2725]}, [20.0, 40.0, 60.0, 80.0], 12.0),
}
# points lit first by each of the five detonators (outer ones sit on the last coordinate's axis at +-5, +-10)
KENAMOND2_POINTS = {2: [[4.0, 1.0], [0.5, 0.5], [0.3, 5.5], [0.2, -9.0], [1.0, 9.5], [0.4, -5.5]],
                    3: [[0.3, 4.0, 1.0], [0.2, 0.5, 0.5], [0.1, 0.3, 5.5], [0.1, 0.2, -9.0], [0.5, 1.0, 9.5], [0.2, 0.4, -5.5]]}


def neighbour_families(tier):
    from xpmc import hydro, hydro_more  # noqa: F401
    out = []
    for f in hydro.FAMILIES:
        n = f["name"]
        if n in NEIGHBOUR_SKIP or (tier == "quick" and n in NEIGHBOUR_THOROUGH_ONLY):
            continue
        if f.get("domain") is None and n not in NEIGHBOUR_POINTS:
            continue
        out.append(n)
    return out + ["extra:" + k for k in EXTRA_NEIGHBOURS]


def _neighbour_ops(f, cfg, slot):
    from xpmc import hydro
    if "extra" in f:
        path, fixed, alpha, pts, t = EXTRA_NEIGHBOURS[f["extra"]]
        kw = dict(fixed)
        kw.update(cfg)
        if pts is None:
            pts = KENAMOND2_POINTS[kw.get("geometry", 2)]
        return [new(slot, path, **kw), call(slot, pts, t)]
    t = f["times"](cfg)[0]
    if f["name"] in NEIGHBOUR_POINTS:
        pts = NEIGHBOUR_POINTS[f["name"]]
    else:
        a, b = f["domain"](cfg, t)
        pts = [float(x) for x in hydro.base_lattice(a, b, 5)]
    return [new(slot, "hydro:" + f["name"], **cfg), call(slot, pts, t)]


def run_neighbours(task):
    import props.C06_ops as opsmod
    from xpmc import hydro, hydro_more, lattice  # noqa: F401
    if task["family"].startswith("extra:"):
        nm = task["family"].split(":", 1)[1]
        f = {"name": nm, "extra": nm, "alphabet": EXTRA_NEIGHBOURS[nm][2]}
    else:
        f = hydro.by_name(task["family"])
    res = {"evals": 0, "nontrivial": [], "violations": [], "counters": {}, "sample": None, "states": 0, "transitions": 0}
    dg = Digest()
    alpha = f["alphabet"]
    cfg0 = lattice.full_cfg(alpha, {})
    ops0 = _neighbour_ops(f, cfg0, "base")
    ref0 = history.run_in_fork(opsmod, ops0)[-1]["obs"]
    devs = lattice.enumerate_checked(alpha, 1)[1:]
    for dev in devs:
        cfg1 = lattice.full_cfg(alpha, dev)
        try:
            ops1 = _neighbour_ops(f, cfg1, "nbr")
        except Exception:
            res["counters"]["neighbour_vectors_without_lattice"] = res["counters"].get("neighbour_vectors_without_lattice", 0) + 1
            continue
        ref1 = history.run_in_fork(opsmod, ops1)[-1]["obs"]
        for order, ops, ref, who in (("base-then-neighbour", ops0 + ops1, ref1, "neighbour"), ("neighbour-then-base", ops1 + ops0, ref0, "base"),
                                     # both constructed first, then the earlier one evaluated (class-level state written by constructors)
                                     ("new-base,new-neighbour,call-base", [ops0[0], ops1[0], ops0[1]], ref0, "base"),
                                     ("new-neighbour,new-base,call-neighbour", [ops1[0], ops0[0], ops1[1]], ref1, "neighbour")):
            out = history.run_in_fork(opsmod, ops)
            obs = out[-1]["obs"]
            res["evals"] += 2
            res["states"] += 1
            res["transitions"] += len(ops)
            dg.add(json.dumps(dev, sort_keys=True), order, obs.get("digest"))
            if obs.get("kind") == "val":
                res["nontrivial"].append("nbr|%s|%s|%s" % (f["name"], sorted(dev.items()), order))
            diff = compare(obs, ref)
            if diff is not None:
                res["violations"].append(_viol(f["name"], "neighbour:call-after-one-deviation-neighbour-differs-from-first-call",
                                               {"deviation": dev, "order": order, "judged": who}, diff.get("max_rel_diff", 1.0),
                                               {"diff": diff}))
    res["counters"]["neighbour_vectors"] = len(devs)
    res["sample"] = {"family": f["name"], "neighbours": len(devs), "example": {"base": cfg0, "neighbour": lattice.full_cfg(alpha, devs[0]) if devs else None}}
    res["digest"] = dg.hex()
    return res


NEAR_REL = 2.0e-6      # inside numpy.isclose's default rtol = 1e-5
NEAR_ABS = 3.0e-9      # inside numpy.isclose's default atol = 1e-8


def _scaled(pts, f):
    return [_scaled(p, f) for p in pts] if isinstance(pts, list) else pts * f


def run_near(task):
    """Nearly-equal requests on ONE object.  call(t), call(t (1 + 2e-6)), call(t (1 + 2e-6) + 3e-9) and then the same points
    scaled by (1 + 2e-6) in the same in-place request buffer -- each compared bit for bit (grid solvers: to their documented
    resolution) with the same call made first on a fresh object.  A memo that recognises its key with a tolerance
    (numpy.isclose on the time, on the points, on a derived quantity) returns the previous answer for a request that is not
    the previous request; added after the seeded change S3-C06-3."""
    import props.C06_ops as opsmod
    from xpmc import hydro, hydro_more, lattice  # noqa: F401
    if task["family"].startswith("extra:"):
        nm = task["family"].split(":", 1)[1]
        f = {"name": nm, "extra": nm, "alphabet": EXTRA_NEIGHBOURS[nm][2]}
    else:
        f = hydro.by_name(task["family"])
    res = {"evals": 0, "nontrivial": [], "violations": [], "counters": {}, "sample": None, "states": 0, "transitions": 0}
    dg = Digest()
    cfg0 = lattice.full_cfg(f["alphabet"], {})
    mk, c0 = _neighbour_ops(f, cfg0, "a")
    pts, t = c0["pts"], c0["t"]
    t1 = t * (1.0 + NEAR_REL)
    t2 = t1 + NEAR_ABS
    pn = _scaled(pts, 1.0 + NEAR_REL)
    steps = [("t(1+2e-6)", pts, t1), ("+3e-9", pts, t2), ("points(1+2e-6)", pn, t2), ("back", pts, t)]
    seq = [mk, c0] + [call("a", p, tt) for _, p, tt in steps]
    out = history.run_in_fork(opsmod, seq)
    res["transitions"] += len(seq)
    for i, (label, p, tt) in enumerate(steps):
        obs = out[2 + i]["obs"]
        ref = history.run_in_fork(opsmod, [dict(mk, slot="r"), call("r", p, tt)])[-1]["obs"]
        res["evals"] += 2
        res["states"] += 1
        res["transitions"] += 2
        dg.add(label, obs.get("digest"))
        if obs.get("kind") == "val":
            res["nontrivial"].append("near|%s|%s" % (f["name"], label))
        diff = compare(obs, ref)
        if diff is not None:
            res["violations"].append(_viol(f["name"], "near:call-after-a-nearly-equal-request-differs-from-first-call",
                                           {"step": label, "t": tt}, diff.get("max_rel_diff", 1.0), {"diff": diff, "sequence_times": [t, t1, t2, t2, t]}))
    res["sample"] = {"family": f["name"], "cfg": cfg0, "times": [t, t1, t2], "steps": [s_[0] for s_ in steps]}
    res["digest"] = dg.hex()
    return res


def run_task(task):
    k = task["kind"]
    if k == "neighbours":
        return run_neighbours(task)
    if k == "near":
        return run_near(task)
    if k == "family":
        return run_family(task)
    if k == "pairs":
        return run_pairs(task)
    if k == "batch":
        return run_batch(task)
    if k == "guderley_raw":
        return run_guderley_raw(task)
    raise ValueError(k)


def postprocess(agg, tier):
    extra = {}
    shared = set()
    for r in agg["results"]:
        if r and r.get("shared_cells"):
            shared.update(r["shared_cells"])
    extra["shared_cells_observed_to_change"] = sorted(shared)[:80]
    extra["n_shared_cells_observed_to_change"] = len(shared)
    extra["traces_validated_against_impl"] = agg["transitions"]
    capped = sorted(k.split(":", 1)[1] for k, v in agg["counters"].items() if k.startswith("family_closed:") and v == 0)
    extra["capped"] = bool(capped)
    extra["families_not_closed_at_depth_cap"] = capped
    extra["families_closed"] = sorted(k.split(":", 1)[1] for k, v in agg["counters"].items() if k.startswith("family_closed:") and v == 1)
    return extra
