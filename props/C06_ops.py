"""Operation alphabet of C06 and its interpreter (shared by the state processes and the fresh reference interpreter).

An operation is a JSON object:
  {"op": "new",  "slot": s, "cls": "<path under exactpack.solvers>" | builder tag, "cfg": {...}}
  {"op": "call", "slot": s, "pts": [...], "t": float}
  {"op": "mut",  "slot": s, "method": name, "args": [...]}
"""
import contextlib
import hashlib
import io

import numpy as np


def _construct(op):
    cls = op["cls"]
    cfg = dict(op.get("cfg", {}))
    if cls == "builder:bbnoh":
        from xpmc import hydro_more
        from xpmc.solvers import get_class
        c = get_class("nohblackboxeos.blackboxnoh." + cfg["wrapper"])
        eos = hydro_more.eos_object(cfg["eos"])
        if cfg.get("ic") is None:
            return c(eos)                       # the class's own (mutable) default initial_conditions
        return c(eos, dict(cfg["ic"]))
    if cls.startswith("hydro:"):                # a family of the hydro catalogue (xpmc/hydro.py, hydro_more.py), full cfg
        from xpmc import hydro, hydro_more  # noqa: F401
        return hydro.make(hydro.by_name(cls.split(":", 1)[1]), cfg)
    if cls == "builder:guderley":
        from xpmc import guderley_cache
        guderley_cache.install()
        from xpmc.solvers import get_class
        return get_class("guderley.guderley.Guderley")(**cfg)
    if cls == "builder:guderley_raw":           # thorough tier: the un-memoised public path (covers eexp's globals)
        from xpmc.solvers import get_class
        return get_class("guderley.guderley.Guderley")(**cfg)
    from xpmc.solvers import get_class
    return get_class(cls)(**cfg)


def observe(sol):
    h = hashlib.sha1()
    fields = {}
    for n in sol.dtype.names:
        a = np.asarray(sol[n])
        if a.dtype.kind in "fiu":
            a = a.astype(float)
            h.update(n.encode())
            h.update(a.tobytes())
            fields[n] = [float(x) for x in a]
        else:
            vals = [str(x) for x in a]
            h.update(n.encode())
            h.update("|".join(vals).encode())
            fields[n] = vals
    # the discontinuity locations a solution reports (ExactSolution.jumps: a list of numbers) are part of what a call returns
    jumps = None
    try:
        js = getattr(sol, "jumps", None)
        if js is not None:
            jumps = [float(j) for j in js]
            h.update(b"__jumps__")
            h.update(np.asarray(jumps, float).tobytes())
    except (TypeError, ValueError):
        jumps = None
    out = {"kind": "val", "digest": h.hexdigest(), "fields": fields}
    if jumps is not None:
        out["jumps"] = jumps
    return out


def apply_op(live, op):
    buf = io.StringIO()
    with contextlib.redirect_stdout(buf):
        try:
            if op["op"] == "new":
                live[op["slot"]] = _construct(op)
                return {"kind": "ok", "digest": "ok"}
            if op["op"] == "call":
                s = live[op["slot"]]
                pts = np.array(op["pts"], dtype=float)
                # requests of one shape to one solver object go through ONE array that is updated in place, as a script stepping
                # a mesh does (a memo keyed on the identity of the points array then returns stale values deterministically,
                # instead of depending on whether the allocator happens to reuse an address: seeded change S2-C06-3)
                key = "_buf:%s:%s" % (op["slot"], pts.shape)
                buf = live.get(key)
                if buf is None:
                    buf = live[key] = pts
                else:
                    buf[...] = pts
                return observe(s(buf, op["t"]))
            if op["op"] == "nop":
                return {"kind": "ok", "digest": "ok"}
            if op["op"] == "mut":
                getattr(live[op["slot"]], op["method"])(*op.get("args", []))
                return {"kind": "ok", "digest": "ok"}
        except Exception as e:
            return {"kind": "exc", "digest": "exc:" + type(e).__name__, "type": type(e).__name__, "msg": str(e)[:200]}
    raise ValueError("unknown op %r" % (op,))


def enabled(hist, alphabet):
    """'new' while the slot is empty (at most one live object per slot); calls and mutators on live slots; each
    mutator at most once per history (keeps the state space finite)."""
    livesl = set()
    for o in hist:
        if o["op"] == "new":
            livesl.add(o["slot"])
    out = []
    for o in alphabet:
        if o["op"] == "new":
            if o["slot"] not in livesl:
                out.append(o)
        elif o["slot"] in livesl:
            if o["op"] == "mut" and o in hist:
                continue
            out.append(o)
    return out


def reference_ops(hist, op):
    """The history that defines what `op` must observe: the constructor and mutators of ITS slot, in order, then op --
    no earlier calls, nothing on other slots."""
    if op["op"] == "new":
        return [op]
    return [o for o in hist if o["slot"] == op["slot"] and o["op"] in ("new", "mut")] + [op]
