"""C07 -- independent implementations of the same problem agree.

Mode L over route pairs (xpmc/x_c07_routes.py).  For every pair of public routes to the same physical solution the
parameter sets common to both are enumerated (deviation-bounded lattices, full products where the shared space is
small), both routes are called at the same points and times, and the returned fields are compared to the accuracy
class of the less accurate route:

  (a) IGEOS_Solver vs GenEOS_Solver on ideal-gas data (state lattice of C04; all fields at lattice points farther
      than three internal cells from every discontinuity located from the fields, the reported wave pattern and wave
      speeds; the tolerance is GenEOS's own error bar, 10 x |GenEOS(N) - GenEOS(4N)| + 2e-4 capped at 2e-2, and the
      difference to IGEOS must shrink under the refinement -- convergence, not mere closeness);
  (b) Noh vs Cog19 (Gamma in {40, 1}) vs black-box Noh with an ideal gas, through the geometry wrappers
      (initial_conditions only) and through the general class, over six initial guesses;
  (c) Noh2 vs Noh2Cog vs Cog1(b=0, T0=e0(gamma-1)/Gamma) at time 1-t with the velocity sign flipped;
  (d) every Planar*/Cylindrical*/Spherical* wrapper class (auto-paired by MRO from class discovery; geometry from the
      class name, Kidder74/76 at the documented geometry and b) vs the general class, incl. the Sedov wrappers and the
      black-box Noh wrappers (EOS library x guesses);
  (e) PlanarSandwich / PlanarSandwichHot / PlanarSandwichHalf vs Rod1D with the mapped (alpha, beta, gamma)_{1,2};
      Rod1D BC3 vs the mirror image of BC4 (x -> L-x, ends and boundary data swapped, flux sign flipped);
  (f) Kenamond1/2/3 in 2D vs 3D on planes containing the axis (three embeddings / four azimuths).

The oracle is differential: neither route's formula is re-implemented.
"""
import numpy as np

from xpmc.engine import Digest
from xpmc import x_c07_routes as R

ID = "C07"
LEVEL = "exploration"
TECHNIQUE = ("bounded exhaustive enumeration of the shared parameter lattice of every route pair on the real solvers "
             "(explicit-state exploration, mode L) with a differential field-by-field oracle")
CLAIM = ("For each of the six families of route pairs named in the property every parameter vector common to both routes within K "
         "deviations of the default (full product where the shared space has <= 5 parameters) is constructed through both routes and "
         "called at the same lattice times and points (plus points straddling every discontinuity located from the fields); all common "
         "fields are compared to the accuracy class of the less accurate route. Wrapper/base pairs are discovered by introspection, so a "
         "new wrapper class cannot escape; a derived solver class that no route pairs is a harness error. Exhaustive over the stated "
         "alphabets. Right level: the property is a pointwise equality between two executable routes, decided by running both.")
LEVEL_NOTE = ("trusted: numpy, the documented parameter mappings transcribed in xpmc/x_c07_routes.py (sandwich -> rod boundary data, "
              "Noh2 -> Cog1 reduction, Kidder pins, plane embeddings); assumed: parameter values between lattice values behave like their "
              "neighbours; general-EOS Riemann solver compared only farther than 3 internal cells from a located wave and to 10x its own N-vs-4N difference (+2e-4, cap 2e-2)")
BOUND = {"quick": "K=1 on shared wrapper/sandwich parameters and Riemann states (4 pattern roots), K=2 Kenamond/BC-mirror, full products for Noh/Cog19/BBNoh and Noh2/Cog1",
         "thorough": "K=2 on shared wrapper/sandwich parameters and Riemann states, K=3 BC-mirror, full products elsewhere"}
RULE = ("tasks = (route, pair, deviation vector); per task every lattice time; an evaluation is one public solver call; a comparison "
        "(pair, parameter vector, time) is non-trivial when at least one compared field of the reference route is non-zero and finite at a "
        "compared point; distinct by (pair, parameter vector, time and route-specific keys such as the initial guess)")
ASSUMPTIONS = [
    "parameter values, times and points outside the alphabets are not explored",
    "IGEOS vs GenEOS: compared at points farther than 3 GenEOS cells from every discontinuity located from IGEOS's fields, tolerance min(2e-2, 10*|GenEOS(501,2001)-GenEOS(2001,8001)| + 2e-4) per field; "
    "the wave pattern / wave-speed comparison is skipped when the star pressure is within two table steps of pl or pr (zero-strength wave)",
    "black-box Noh: a Newton iteration that raises is counted (C16/C20), not judged; agreement is demanded of every solution that is returned",
    "wrapper geometry is the one its class name documents (Planar=1, Cylindrical=2, Spherical=3; Kidder74/76: geometry 3, b=3 / b=0)",
    "2D vs 3D burn times: the 2D plane is embedded isometrically through the axis (Kenamond2: azimuth; Kenamond1/3: three orthonormal frames)",
]


def tasks(tier, seed):
    out = []
    for r in ("c", "f", "e", "b", "d", "a"):          # cheapest first
        out += R.ROUTES[r][0](tier)
    return out


def run_task(task):
    dg = Digest()
    res = {"evals": 0, "nontrivial": [], "violations": [], "counters": {}, "sample": None}
    ctx = R.Ctx(res, dg)
    with np.errstate(all="ignore"):
        R.ROUTES[task["route"]][1](task, ctx)
    res["_worst"] = ctx.worst
    res["digest"] = dg.hex()
    return res


def postprocess(agg, tier):
    worst = {}
    for r in agg["results"]:
        for k, v in ((r or {}).get("_worst") or {}).items():
            worst[k] = max(worst.get(k, 0.0), v)
    pairs = sorted(k[5:] for k in agg["counters"] if k.startswith("pair:"))
    # coverage assertions: every route family produced comparisons, every Riemann pattern cell was compared
    need = ["IGEOS~GenEOS", "Noh~Cog19", "Noh~BBNoh", "Noh~BBNohBase", "Noh2~Noh2Cog", "Noh2~Cog1(b=0)", "PlanarSandwich~Rod1D",
            "PlanarSandwichHot~Rod1D", "PlanarSandwichHalf~Rod1D", "Rod1D", "Kenamond1", "Kenamond2", "Kenamond3",
            "Kidder74~Cog6", "Kidder76~Cog7", "PlanarSedov~Sedov", "CylindricalSedov~Sedov", "SphericalSedov~Sedov",
            "PlanarNohBlackBox~NohBlackBoxEos", "CylindricalNohBlackBox~NohBlackBoxEos", "SphericalNohBlackBox~NohBlackBoxEos"]
    missing = [p for p in need if p not in pairs]
    cells = {k[7:]: v for k, v in agg["counters"].items() if k.startswith("a:cell:")}
    for cell in ("SCS|du!=0", "SCR|du=0", "SCR|du!=0", "RCS|du=0", "RCS|du!=0", "RCR|du!=0"):
        if not cells.get(cell):
            missing.append("a:" + cell)
    if missing:
        agg["errors"].append({"task": {"postprocess": "coverage"}, "status": "coverage",
                              "detail": "route pairs / pattern cells that produced no comparison: %s" % missing})
    return {"route_pairs_compared": len(pairs), "route_pairs": pairs, "riemann_pattern_cells": cells,
            "measured_worst_mismatch_by_pair_excluding_recorded_defects": {k: worst[k] for k in sorted(worst) if worst[k] > 0},
            "pairs_bit_identical": sorted(k for k in worst if worst[k] == 0),
            "geneos_refinements": int(agg["counters"].get("a:refinements", 0))}
