"""C08 -- dimensional consistency: a change of units in gives the same change out.

Mode G (orbit graph).  One task = one root problem instance (solver family, configuration within one deviation of the
default, time, point lattice).  The generators of the unit-change group (M*2, M/5, L*10, L/3, T*4, T/7, Theta*5) are applied
breadth-first to words of length <= depth; nodes are merged by canonical rounding of the accumulated scale factors, so commuting
words meet.  At EVERY node the solver is constructed afresh from the rescaled parameters and called at the rescaled points
and time, and every returned field must equal the root's field multiplied by the factor its own dimension dictates.
The (M, L, T, Theta) exponent table (xpmc/x_C08_dims.py) is written from the documented equations and is checked at the start
of every task for dimensional homogeneity of those equations (failure = harness error, not a violation).
"""
import contextlib
import math

import numpy as np

from xpmc import lattice, oracle, orbit
from xpmc import x_C08_dims as D
from xpmc.engine import Digest
from xpmc.solvers import call, Inadmissible

ID = "C08"
LEVEL = "model_checking"
TECHNIQUE = ("explicit-state breadth-first exploration of the orbit graph of each root problem instance under the generators of the "
             "unit-change group on the real solvers (mode G), covariance invariant checked at every node")
CLAIM = ("For every root (default and every one-deviation configuration, over the stated alphabets, of Noh, Noh2, Sedov, Guderley, both 1D "
         "Riemann solvers incl. JWL, Coggeshall 1-9/11/12/18-21, EHEP, Mader, Kenamond 1-3, DSD cylindrical expansion, Blake, EP piston, the "
         "heat-rod family and Hutchens 1) the orbit graph under M*2, M/5, L*10, L/3, T*4, T/7 (Theta*5 where a temperature exists) is "
         "explored breadth-first to word length 2 (quick) / 3 (thorough), nodes merged by canonical rounding, and three extreme consistent "
         "unit systems (lengths x 1e-7 with times x 1e-9; masses x 1e-24; lengths x 1e8 with times x 1e9 and masses x 1e24) are applied "
         "to the root; at every node the solver is "
         "rebuilt from the rescaled inputs and every returned field is compared with the root's field times the factor its dimension "
         "dictates. Exhaustive over the stated graph; model checking is the right level because the property is an invariant over a "
         "group orbit and hard-wired non-scale-free constants show up only at particular magnitudes, which word depth reaches.")
LEVEL_NOTE = ("trusted: numpy, the exponent table of xpmc/x_C08_dims.py (self-checked against the documented equations at the start of every "
              "task), the memoised Guderley exponent; assumed: scale factors outside the explored words (factors 1/343..4096 per dimension) and "
              "configurations beyond one deviation are not seen; Noh2's time and Guderley's length/time units are fixed by their documentation "
              "(collapse time 1; r_s = (-t_L)^(1/lambda), t = 0.750024322 (t_L + 1)) so only the unit changes that keep those constants are applied")
BOUND = {"quick": "words of length <= 2 over the generators, roots = default + one-deviation configurations (two-deviation for Rod1D and Guderley)",
         "thorough": "words of length <= 3 over the generators, roots = default + one-deviation configurations (two-deviation for the closed-form "
                     "families, IGEOS, Rod1D and Guderley)"}
RULE = ("tasks = roots (family x configuration with <= 1 deviation x time); states = orbit-graph nodes (canonical scale vectors), transitions = "
        "generator applications; an evaluation is one public solver call (one per node + the calls used to locate fronts at the root); a "
        "case (root, node, field) is non-trivial when the field's expected factor at the node differs from 1 and the root field has a finite "
        "non-zero value; distinct by (family, deviation, node, field)")
ASSUMPTIONS = [
    "scale factors are products of at most 2 (quick) / 3 (thorough) generators; other magnitudes are not explored",
    "parameter dimensions are those under which the documented solution formulas and PDE/EOS are homogeneous (x_C08_dims.py, self-checked)",
    "Noh2: the documentation fixes u(r,0) = -r and 0 <= t < 1 (time in collapse times), so only mass and length units are changed",
    "Guderley: r_shock = (-t_L)^(1/lambda) and t = 0.750024322 (t_L + 1) fix length and time units; explored unit changes are M and (L, T) = "
    "(a^(1/lambda), a) acting on the Lazarus time, lambda being the solver's own exponent",
    "Cog7 returns a density in units fixed by R0, Ri, tau (its documented formula has no density coefficient): its dimension is taken from that formula",
    "lattice points are kept >= 1e-6 of the domain length away from discontinuities located from the root's fields",
    "the Riemann solvers' accuracy is bounded by their root finders; disagreement explained by their absolute tolerances is reported under its own clause",
]

DEPTH = {"quick": 2, "thorough": 3}
CHEAP = {"Noh", "Noh2", "IGEOS", "EHEP", "Mader", "Kenamond1", "Kenamond2", "Kenamond3", "CylindricalExpansion", "Blake", "EPpiston",
         "Hutchens1"} | {"Cog%d" % n for n in (1, 2, 3, 4, 5, 6, 7, 8, 9, 11, 12, 18, 19, 20, 21)}
GEN = {"M": [("M*2", 2.0), ("M/5", 0.2)], "L": [("L*10", 10.0), ("L/3", 1.0 / 3.0)], "T": [("T*4", 4.0), ("T/7", 1.0 / 7.0)],
       "Th": [("Th*5", 5.0)], "LT": [("LT*2", 2.0), ("LT/3", 1.0 / 3.0)]}
# three extreme (but consistent) unit systems, applied to the root only (words of length one): the quantifier is 'all positive scale
# factors', and an absolute literal with hidden units (a density floor, numpy.isclose's atol on a time or a radius, a cushion on a
# validity guard) is invisible under factors of order one.  micro: lengths x 1e-7, times x 1e-9 (densities unchanged, velocities x
# 100); dilute: masses x 1e-24 (densities and pressures x 1e-24, interstellar cgs); huge: lengths x 1e8, times x 1e9, masses x 1e24.
EXTREME = [("X:micro(M+L+T)", {"M": 1e-21, "L": 1e-7, "T": 1e-9}), ("X:dilute(M)", {"M": 1e-24}), ("X:huge(M+L+T)", {"M": 1e24, "L": 1e8, "T": 1e9})]
FLOOR = 1e-3          # |a-b| <= tol * (max(|a|,|b|) + FLOOR * S), S = largest magnitude of the field over the profile
GUD_FACTOR = 0.750024322   # documented in guderley/ramsey.py: t_C = 0.750024322 (t_L + 1)

# tolerances live in xpmc/x_C08_dims.py (field `tol` of each family).  Worst mismatch of the unchanged code over the thorough graph
# (1764 roots, words <= 3, 2026-09-26), findings excluded:
TOL_NOTE = {
    "closed forms, tol 1e-11": "Noh 9.9e-16, Noh2 4.9e-16, Cog1-21 <= 8.6e-15, EHEP (lattice, front-1e-3) 1e-15, Kenamond1-3 <= 2.2e-15, "
                               "CylindricalExpansion 1.0e-14",
    "Blake, tol 1e-10": "1.9e-12 (exp/cos cancellation near the wave front)",
    "Mader, tol 1e-10": "2.9e-13 (differences of powers in the cell average)",
    "heat series, tol 1e-10": "PlanarSandwich 6.4e-13, Half/Hot 6e-16, Hutchens1 5.8e-15, Rod1D special BCs 1e-15",
    "EPpiston, tol 1e-9": "1.3e-13 (fsolve)", "Guderley, tol 1e-9": "2.3e-13 (solve_ivp to the same similarity coordinate)",
    "Sedov, tol 1e-9, floor 0.1": "7.2e-11 (fminbound on a squared residual; 3001-point interpolation grid)",
    "IGEOS tol 1e-10 / GenEOS tol 1e-8": "at the identity and for O(1) state magnitudes 3e-12 / 1e-9; everything above is the recorded finding "
                                         "riemann-absolute-root-tolerances (reduced oracle: tolerances re-expressed in node units)",
}


def preimport():
    from xpmc import hydro_more  # noqa: F401


def _only():
    """Development aid (never set by the registered commands): XPMC_ONLY_FAMILIES=a,b restricts the run; the evidence is then marked capped."""
    import os
    v = os.environ.get("XPMC_ONLY_FAMILIES", "")
    return [x for x in v.split(",") if x]


def tasks(tier, seed):
    out = []
    for name in D.ORDER:
        if _only() and name not in _only():
            continue
        f = D.FAMS[name]
        # Rod1D, Guderley: two deviations in both tiers (BC type x non-homogeneous data, (geometry, gamma) x time interact);
        # thorough: two deviations for every closed-form family and IGEOS (milliseconds per call)
        K = f.get("rootK", 1)
        if tier == "thorough" and name in CHEAP:
            K = 2
        alpha, devs = D.roots(f, K)
        for dev in devs:
            out.append({"family": name, "dev": dev, "depth": DEPTH[tier]})
    return out


def generators(f):
    gens = []
    for g in f["gens"]:
        key = "a" if g == "LT" else g
        for name, fac in GEN[g]:
            gens.append((name, (lambda node, key=key, fac=fac: dict(node, **{key: node[key] * fac}))))
    return gens


def root_node(f):
    return {("a" if g == "LT" else g): 1.0 for g in f["gens"]}


def node_scale(f, node, lam):
    """Accumulated node -> {'M','L','T','Th'} scale factors."""
    s = {k: v for k, v in node.items() if k != "a"}
    if "a" in node:
        s["L"] = node["a"] ** (1.0 / lam)
        s["T"] = node["a"]
    return s


def node_time(f, node, t, scale):
    if "a" in node:      # Guderley: the unit change acts on the Lazarus time t_L = t/0.750024322 - 1
        return GUD_FACTOR * (node["a"] * (t / GUD_FACTOR - 1.0) + 1.0)
    return t * scale.get("T", 1.0)


def sig_of(node):
    return "+".join(k for k in ("M", "L", "T", "Th", "a") if k in node and abs(node[k] - 1.0) > 1e-9) or "identity"


def abs_xtol_bound(ref):
    """Relative accuracy (w.r.t. the field scale S) that the Riemann solvers' absolute root-finder tolerances (scipy bisect xtol=2e-12 on
    pressure/density, vode atol=1e-12 on density and velocity) give *in the root's own units*: 10 * 1e-12 / (smallest state magnitude)."""
    return 10.0 * 1e-12 * max(1.0 / ref["rho"], 1.0 / ref["p"], 1.0 / ref["c"])


@contextlib.contextmanager
def riemann_tolerances_in_node_units(scale):
    """Reduced oracle for the recorded finding 'riemann-absolute-root-tolerances': the solver's hard-wired absolute tolerances (bisect's default
    xtol=2e-12 on the pressure and density brackets, vode's atol=int_tol on (rho, u)) are re-expressed in the node's units, nothing else changes.
    A disagreement that disappears under this context is explained by those constants; one that stays is something else."""
    import types
    import scipy.integrate
    import scipy.optimize
    import exactpack.solvers.riemann.riemann as RR
    import exactpack.solvers.riemann.utils as RU
    sp, sr, su = D.factor(scale, D.PRES), D.factor(scale, D.RHO), D.factor(scale, D.VEL)
    real = scipy.optimize.bisect

    def bisect_p(f, a, b, *args, **kw):
        kw.setdefault("xtol", 2e-12 * sp)
        return real(f, a, b, *args, **kw)

    def bisect_r(f, a, b, *args, **kw):
        kw.setdefault("xtol", 2e-12 * sr)
        return real(f, a, b, *args, **kw)

    class Ode(scipy.integrate.ode):
        def set_integrator(self, name, **kw):
            if "atol" in kw and np.isscalar(kw["atol"]):
                kw["atol"] = [kw["atol"] * sr, kw["atol"] * su]
            return super().set_integrator(name, **kw)
    old = (RR.bisect, RU.bisect, RU.scipy)
    RR.bisect, RU.bisect = bisect_p, bisect_r
    RU.scipy = types.SimpleNamespace(integrate=types.SimpleNamespace(ode=Ode))
    try:
        yield
    finally:
        RR.bisect, RU.bisect, RU.scipy = old


def run_task(task):
    f = D.FAMS[task["family"]]
    alpha, _ = D.roots(f, 0)
    cfg = lattice.full_cfg(alpha, task["dev"])
    res = {"evals": 0, "nontrivial": [], "violations": [], "counters": {}, "sample": None, "states": 0, "transitions": 0}
    C = res["counters"]
    dg = Digest()
    C["table_relations_checked"] = D.check_table(f, cfg)       # raises TableError: harness error, never a VIOLATION
    t = f["times"](cfg)[cfg["_t"]]
    try:
        s0 = D.build(f, D.kwargs_of(f, cfg))
    except Inadmissible:
        C["inadmissible_roots"] = 1
        res["digest"] = dg.add("inadmissible").hex()
        return res
    except Exception as ex:      # any other exception type at construction of the root is C20's business; counted here
        C["root_construct_exceptions"] = 1
        C["cexc:%s:%s" % (f["name"], type(ex).__name__)] = 1
        res["digest"] = dg.add("cexc", type(ex).__name__).hex()
        return res
    try:
        pts, classes, njump, ncall = D.root_points(f, cfg, t, s0)
        root = call(s0, pts, t)
    except Exception as ex:      # a raising root call is C20's business
        C["root_call_exceptions"] = 1
        C["exc:%s:%s" % (f["name"], type(ex).__name__)] = 1
        res["digest"] = dg.add("exc", type(ex).__name__).hex()
        return res
    res["evals"] += ncall + 1
    C["located_fronts"] = njump
    lam = None
    if "LT" in f["gens"]:
        import exactpack.solvers.guderley.ramsey as R
        lam = float(R.eexp(cfg["_pair"][0], cfg["_pair"][1]))
    fd = D.field_dims(f, cfg)
    names = [n for n in root.dtype.names if n in fd]
    missing = [n for n in D.numeric_fields(root, f) if n not in fd]
    if missing:
        raise D.TableError("%s returns numeric field(s) %r that the exponent table does not know" % (f["name"], missing))
    rootv = {n: np.asarray(root[n], float) for n in names}
    labels = {n: np.asarray(root[n]) for n in f.get("labels", ()) if n in root.dtype.names}
    ref = None
    if f.get("abs_xtol"):
        rho, p = rootv["density"], rootv["pressure"]
        ref = {"rho": float(np.min(rho[rho > 0])), "p": float(np.min(p[p > 0])),
               "c": float(math.sqrt(np.min(p[p > 0]) / np.max(rho)))}
    # velocity scale: the largest of |u| and the isothermal sound speed sqrt(p/rho) (a symmetric Riemann problem has u = 0 +- noise)
    vscale = 0.0
    if "pressure" in rootv and "density" in rootv:
        with np.errstate(all="ignore"):
            cs = np.sqrt(np.abs(rootv["pressure"]) / np.abs(rootv["density"]))
        cs = cs[np.isfinite(cs)]
        vscale = float(cs.max()) if cs.size else 0.0
    floor = f.get("floor", FLOOR)
    extra_where = {}
    if f.get("abs_xtol"):
        k0 = D.kwargs_of(f, cfg)
        if k0["pl"] == k0["pr"] and k0["ul"] == k0["ur"]:
            extra_where["degenerate"] = "pure-contact"      # no acoustic wave: the star pressure coincides with both initial pressures
    side = f.get("side")
    side_root = side(root) if side else None
    nodes, transitions = orbit.bfs(root_node(f), generators(f), task["depth"])
    if all(g in f["gens"] for g in ("M", "L", "T")):
        for xname, xs in EXTREME:
            nodes[xname] = {"node": dict(root_node(f), **xs), "word": [xname], "merged": 0}
            transitions += 1
    res["states"], res["transitions"] = len(nodes), transitions
    tol = f["tol"]
    seen = set()
    worst = 0.0
    devkey = sorted(task["dev"].items())
    # every node's solver is constructed BEFORE any of them is evaluated, so the same problem in other units is evaluated with
    # other instances of the class alive and constructed after it (added after the seeded change S-C08-3, where _run read a
    # class-level dictionary that every constructor overwrites)
    prebuilt = {}
    for key, rec in nodes.items():
        try:
            prebuilt[key] = D.build(f, D.scaled_kwargs(f, cfg, node_scale(f, rec["node"], lam)))
        except Exception as ex:
            prebuilt[key] = ex
    for key, rec in nodes.items():
        node = rec["node"]
        scale = node_scale(f, node, lam)
        kw = D.scaled_kwargs(f, cfg, scale)
        pts_n = pts * scale.get("L", 1.0)
        t_n = node_time(f, node, t, scale)
        word = ".".join(rec["word"]) or "identity"
        sig = word if word.startswith("X:") else sig_of(node)      # the extreme unit systems are reported under their own name
        try:
            s = prebuilt[key]
            if isinstance(s, Exception):
                raise s
            out = call(s, pts_n, t_n)
        except Exception as ex:
            # the root is admissible and evaluates: the same problem in other units must too
            dg.add("exc", key, type(ex).__name__)
            k_ = ("exception", "all", sig)
            if k_ not in seen:
                seen.add(k_)
                res["violations"].append({"solver": f["name"], "cfg": cfg, "clause": "scale:exception", "where": dict({"dims": sig, "pts": "all", "t": t}, **extra_where),
                                          "value": 1.0, "tol": 0.0, "detail": {"word": word, "exception": "%s: %s" % (type(ex).__name__, str(ex)[:200])}})
            continue
        res["evals"] += 1
        out_red = None
        flipped = (side(out) != side_root) if side else np.zeros(len(pts), bool)
        for n in names:
            a = np.asarray(out[n], float)
            dg.add(a)
            fac = D.factor(scale, fd[n])
            b = rootv[n] * fac
            fin = np.abs(b[np.isfinite(b)])
            S = float(fin.max()) if fin.size else 1.0
            if n == "velocity":
                S = max(S, vscale * fac)
            if n == "sound_speed":          # c = sqrt(gamma p/rho): compared through c^2 so that rounding noise in p ~ 0 is not sqrt-amplified
                a, b, S = a * np.abs(a), b * np.abs(b), S * S
            with np.errstate(all="ignore"):
                m = np.abs(a - b) / (np.maximum(np.abs(a), np.abs(b)) + floor * S + 1e-300)
            m = np.where(a == b, 0.0, m)
            m = np.where(np.isnan(a) & np.isnan(b), 0.0, m)          # e.g. Sedov vacuum: e, c = 0/0 inside the evacuated region
            m = np.where(np.isnan(m) | (np.isnan(a) ^ np.isnan(b)), 1.0, m)
            if fac != 1.0 and fin.size and S > 0:
                res["nontrivial"].append("%s|%s|%s|%s" % (f["name"], devkey, key, n))
            if m.size:
                worst = max(worst, float(m.max()))
            bad = m > tol
            if not bad.any():
                continue
            clause = "scale:" + n
            tol_used = tol
            if ref is not None:
                if out_red is None:
                    try:
                        with riemann_tolerances_in_node_units(scale):
                            out_red = call(D.build(f, kw), pts_n, t_n)
                        res["evals"] += 1
                    except Exception:
                        out_red = False
                if out_red is not False:
                    ar = np.asarray(out_red[n], float)
                    with np.errstate(all="ignore"):
                        excess = np.abs(ar - b) - tol * (np.maximum(np.abs(ar), np.abs(b)) + floor * S) - abs_xtol_bound(ref) * S
                    if not (np.nan_to_num(excess, nan=1.0)[bad] > 0).any():
                        clause, tol_used = "scale-abs-xtol:" + n, tol      # explained by the absolute root-finder tolerances (recorded finding)
            for cl, sel, clz in [(c_, bad & (classes == c_) & ~flipped, clause) for c_ in sorted(set(classes[bad & ~flipped]))] + \
                               [(c_, bad & (classes == c_) & flipped, "scale-front:" + n) for c_ in sorted(set(classes[bad & flipped]))]:
                k_ = (clz, cl, sig)
                if k_ in seen:
                    continue
                seen.add(k_)
                idx = np.where(sel)[0]
                i = int(idx[np.argmax(m[idx])])
                res["violations"].append({
                    "solver": f["name"], "cfg": cfg, "clause": clz, "where": dict({"dims": sig, "pts": str(cl), "t": t}, **extra_where),
                    "value": float(m[i]), "tol": tol_used,
                    "detail": {"word": word, "scale": scale, "point": np.atleast_1d(pts[i]).tolist(), "got": float(a[i]), "expected": float(b[i]),
                               "factor": fac, "n_bad_points": int(idx.size), "n_points": int(len(pts))}})
        for n, lab in labels.items():
            got = np.asarray(out[n])
            dg.add([str(x) for x in got])
            neq = np.array([str(x) != str(y) for x, y in zip(got, lab)])
            if neq.any():
                for cl in sorted(set(classes[neq])):
                    k_ = ("label:" + n, cl, sig)
                    if k_ in seen:
                        continue
                    seen.add(k_)
                    i = int(np.where(neq & (classes == cl))[0][0])
                    res["violations"].append({"solver": f["name"], "cfg": cfg, "clause": "scale:label:" + n, "where": {"dims": sig, "pts": str(cl), "t": t},
                                              "value": 1.0, "tol": 0.0,
                                              "detail": {"word": word, "point": float(pts[i]), "got": str(got[i]), "expected": str(lab[i])}})
    res["worst"] = worst
    res["sample"] = {"family": f["name"], "cfg": cfg, "t": t, "n_points": int(len(pts)), "nodes": len(nodes), "depth": task["depth"],
                     "fields": names, "example_node": list(nodes.values())[-1]["node"], "worst_mismatch": worst}
    res["digest"] = dg.hex()
    return res


def postprocess(agg, tier):
    extra = {"capped": True, "restricted_to_families": _only()} if _only() else {}
    worst = {}
    for tsk, r in zip(agg["task_list"], agg["results"]):
        if r:
            worst[tsk["family"]] = max(worst.get(tsk["family"], 0.0), r.get("worst", 0.0))
    return dict(extra, **{"worst_mismatch_by_family": {k: float("%.3g" % v) for k, v in sorted(worst.items())}})
