"""C09 -- Riemann and burn-time solutions respect mirror, Galilean and rigid symmetry.

Mode G (xpmc/orbit.py): from every root problem the orbit graph under the generators of the symmetry group is explored
breadth-first over words of length <= 3 (quick) / <= 4 (thorough); nodes whose transformed parameters coincide after
rounding to 12 significant digits merge.  Invariant at every node: the real solver's output for the transformed problem at
the transformed points equals the group element applied to the real solver's output for the root problem -- a
differential oracle with no hand-written expected value.  states = nodes, transitions = generator applications.

Riemann (IGEOS_Solver and GenEOS_Solver): generators mirror about the window centre, boosts +0.3 and -0.7, translation of
membrane and window by +0.2 window lengths; roots = Sod, every K=1 deviation over hydro_more.RIEMANN_ALPHABET, the
tabulated problems (and the two JWL problems for GenEOS).  Covariance: rho'(x') = rho(x), p, e likewise, u'(x') = s u(x) + w
with x' = s x + c + w t.

Burn times: Kenamond1 (common translation, rotations by 30 and 90 degrees about every axis, reflections), Kenamond2
(rotation about the detonator axis, reflections across it, up-down reflection, relabelling of the outer detonators with
their times), Kenamond3 (common rotation/reflection of detonator and points about the obstacle centre), DSD cylindrical
expansion (rotation/reflection of the points about the origin); burn time equal at the transformed point.
"""
import math
import os

import numpy as np

from xpmc import lattice, orbit, oracle
from xpmc import x_c13_burn as B
from xpmc.engine import Digest
from xpmc.solvers import construct, call, Inadmissible

ID = "C09"
LEVEL = "model_checking"
TECHNIQUE = ("explicit-state breadth-first exploration of symmetry-orbit graphs of the real solvers (generator words up to a bound, "
             "nodes merged by canonical rounding), differential covariance oracle at every node (mode G)")
CLAIM = ("From every root (Riemann: Sod, all K=1 deviations of the state alphabet, the tabulated and JWL problems, both solvers; burn "
         "time: default, all K=1 deviations of each family's alphabet and the 3D geometry with every single deviation; thorough: all K=2 deviations) every word of length <= 3 (quick) / <= 4 (thorough) over the "
         "generators (mirror, two boosts, membrane translation; translations, 30/90 degree rotations, reflections, detonator "
         "relabelling) is applied; at every distinct node the real solver is called on the transformed problem at the transformed "
         "points and compared with the transformed root output at every point of the lattice. Model checking of the bounded orbit "
         "graph is the right level because the property is exactly 'the solver commutes with each generator', and every node/edge of "
         "the bounded graph is visited.")
LEVEL_NOTE = ("trusted: numpy, the group actions written in props/C09.py, xpmc/orbit.py; assumed: the 12-significant-digit canonical "
              "form only merges nodes that are the same problem; symmetry breaking confined to parameter values, points or words "
              "outside the stated alphabets is not seen")
BOUND = {"quick": "generator words of length <= 3 from every root", "thorough": "generator words of length <= 4 from every root"}
RULE = ("tasks = (solver, root problem); per task the orbit graph of the root under the generators to the word-length bound, merged by "
        "canonical rounding (states = nodes, transitions = generator applications); per node and time one public solver call on the "
        "transformed problem at the transformed point lattice (Riemann: 300 window points + points straddling every located jump of "
        "the root; burn: 7x7 / 5x5x5 lattice + interface, detonator, shadow-boundary and axis points); a case (solver, root, node, time) "
        "is non-trivial when the node is not the root and the root profile is not a single constant state; distinct by (solver, root, word, time)")
ASSUMPTIONS = [
    "roots, generators and word length are bounded as stated; other states, boosts, rotations are not explored",
    "Riemann user points may lie outside [xmin, xmax] (the documentation calls each state semi-infinite); the window moves with the membrane under the translation generator and stays put under a boost",
    "a point closer than delta to a located jump (IGEOS: 1e-7 window lengths; GenEOS: 3 internal grid cells, the larger of the two grids) is compared by jump position (its value must lie between the root's values at x-delta and x+delta) rather than by value",
    "GenEOS_Solver is run at num_int_pts=501 (quick) / 1001 (thorough), num_x_pts=2001, class-C tolerance",
    "Kenamond3 lattice points on the obstacle surface are representable only up to rounding: transformed points that rounding puts a few ulp inside are moved back out",
]

DEPTH = {"quick": 3, "thorough": 4}

# ---------------------------------------------------------------------------------------------- tolerances
# measured worst covariance mismatch of the unchanged tree over the thorough orbit graphs (words <= 4, 8.2e6 judged points):
TOL_IGEOS = 1e-8      # closed form + scipy bisect(xtol=2e-12) for p*: worst 1.07e-10 (LeBlanc, p* ~ 1e-4, so 2e-12 is 2e-8 relative)
TOL_GENEOS = 1e-5     # tables/interpolation (2001 grid points, 501/1001 integration points): worst 9.7e-8 inside the declared windows
TOL_BURN = 1e-10      # closed form (class A algebraic): worst 2.7e-14 x time scale at well-conditioned points
IGEOS_DELTA = 1e-7    # x window length; jump positions of related problems differ by <= 2e-10 (bisect tolerance x dV/dp x t)
FLOOR = 1e-3          # positive fields are compared relative to max(local value, 1e-3 x profile maximum); velocities relative
                      # to the profile's largest |u| or sound speed (a symmetric problem has u* ~ 1e-12)

RIEMANN = {"IGEOS": ("riemann.ep_riemann.IGEOS_Solver", {}),
           "GenEOS": ("riemann.ep_riemann.GenEOS_Solver", {"num_int_pts": 501, "num_x_pts": 2001})}
GENEOS_THOROUGH = {"num_int_pts": 1001, "num_x_pts": 2001}


def _hm():
    from xpmc import hydro_more
    return hydro_more


def burn_roots(fam, tier):
    """default + every K=1 deviation; the 3D geometry combined with every other single deviation (so that 3D is explored
    as widely as 2D); thorough: every K=2 deviation"""
    alpha = B.ALPHABET[fam]
    if tier == "thorough":
        return lattice.enumerate_checked(alpha, 2)
    devs = lattice.enumerate_checked(alpha, 1)
    if "geometry" in alpha:
        devs += [dict(dv, geometry=3) for dv in devs if dv and "geometry" not in dv]
    return devs


def tasks(tier, seed):
    hm = _hm()
    out = []
    # the expensive general-EOS orbits first (load balance); within a solver the roots are enumerated simplest first
    for solver in ("GenEOS", "IGEOS"):
        roots = [{"dev": dev} for dev in lattice.enumerate_checked(hm.RIEMANN_ALPHABET, 1)]
        roots += [{"problem_name": n} for n in hm.RIEMANN_TABLE]
        if solver == "GenEOS":
            roots += [{"problem_name": n} for n in hm.JWL_TABLE]
        else:
            # unequal gammas around each pattern root (ideal-gas solver only: 4 ms per call): the K=1 roots around Sod reach unequal
            # gammas only in the rarefaction-contact-shock pattern (seeded change S2-C09-1: a left/right slip in the two-shock branch)
            roots += [{"problem_name": n} for n in hm.BND_TABLE if "|ul0|" in n + "|"]      # states straddling the classification boundaries
            for n in ("collision_equal_states", "recession_equal_states", "moving_scr", "recession_unequal_states"):
                for k_, v_ in (("gl", 5.0 / 3.0), ("gr", 5.0 / 3.0), ("gl", 2.0)):
                    roots.append({"problem_name": n, "extra": {k_: v_}})
        for r in roots:
            out.append({"kind": "riemann", "solver": solver, "root": r, "depth": DEPTH[tier], "tier": tier})
    for fam in ("Kenamond1", "Kenamond2", "Kenamond3", "CylindricalExpansion"):
        for dev in burn_roots(fam, tier):
            out.append({"kind": "burn", "family": fam, "dev": dev, "depth": DEPTH[tier], "tier": tier})
    only = os.environ.get("XPMC_C09_ONLY")      # development only (burn | IGEOS | GenEOS); the evidence then says exhaustive: false
    if only:
        out = [t for t in out if only in (t["kind"], t.get("solver"))]
    return out


def _snap(x):
    x = float(x)
    return 0.0 if abs(x) < 1e-12 else x


def viol(solver, cfg, clause, where, value, tol, **detail):
    return {"solver": solver, "cfg": cfg, "clause": clause, "where": where, "value": float(value), "tol": float(tol), "detail": detail}


# ================================================================================================ Riemann

def riemann_root(root):
    hm = _hm()
    if "problem_name" in root:
        c = hm._riemann_cfg({"problem_name": root["problem_name"]})
        c.update(root.get("extra", {}))
    else:
        c = hm._riemann_cfg(root["dev"])
    c.setdefault("xmin", 0.0)
    c.setdefault("xmax", 1.0)
    c.setdefault("xd0", 0.5)
    return {k: (float(v) if isinstance(v, (int, float)) and not isinstance(v, bool) else v) for k, v in c.items()}


def riemann_generators(Lw):
    """generators act on node = {"cfg": constructor kwargs, "g": {"s","c","w"}} with x' = s x + c + w t, u' = s u + w"""
    def M(n):
        c, g = n["cfg"], n["g"]
        C2 = c["xmin"] + c["xmax"]
        m = dict(c)
        m.update(rl=c["rr"], pl=c["pr"], ul=_snap(-c["ur"]), gl=c["gr"], rr=c["rl"], pr=c["pl"], ur=_snap(-c["ul"]), gr=c["gl"],
                 xd0=_snap(C2 - c["xd0"]))
        return {"cfg": m, "g": {"s": -g["s"], "c": _snap(C2 - g["c"]), "w": _snap(-g["w"])}}

    def boost(v):
        def f(n):
            c, g = n["cfg"], n["g"]
            m = dict(c)
            m.update(ul=_snap(c["ul"] + v), ur=_snap(c["ur"] + v))
            return {"cfg": m, "g": {"s": g["s"], "c": g["c"], "w": _snap(g["w"] + v)}}
        return f

    def shift(dx):
        def f(n):
            c, g = n["cfg"], n["g"]
            m = dict(c)
            m.update(xmin=_snap(c["xmin"] + dx), xd0=_snap(c["xd0"] + dx), xmax=_snap(c["xmax"] + dx))
            return {"cfg": m, "g": {"s": g["s"], "c": _snap(g["c"] + dx), "w": g["w"]}}
        return f
    return [("M", M), ("B+0.3", boost(0.3)), ("B-0.7", boost(-0.7)), ("T+0.2", shift(0.2 * Lw))]


def exact_pattern(c):
    """Wave pattern of an ideal-gas Riemann problem from the textbook pressure function (Toro, ch. 4), written here and
    used ONLY to label a violation (where.pattern) so that a known finding can be matched narrowly; never to judge."""
    if c.get("problem", "igeos") != "igeos":
        return "jwl"

    def f(p, pk, rk, gk):
        ak = math.sqrt(gk * pk / rk)
        if p > pk:
            return (p - pk) * math.sqrt(2.0 / ((gk + 1.0) * rk) / (p + (gk - 1.0) / (gk + 1.0) * pk))
        return 2.0 * ak / (gk - 1.0) * ((p / pk) ** ((gk - 1.0) / (2.0 * gk)) - 1.0)

    def F(p):
        return f(p, c["pl"], c["rl"], c["gl"]) + f(p, c["pr"], c["rr"], c["gr"]) + (c["ur"] - c["ul"])
    lo, hi = 1e-300, max(c["pl"], c["pr"])
    if F(lo) >= 0.0:
        return "vacuum"
    while F(hi) < 0.0:
        hi *= 2.0
        if hi > 1e300:
            return "?"
    for _ in range(200):
        mid = 0.5 * (lo + hi)
        if F(mid) < 0.0:
            lo = mid
        else:
            hi = mid
    ps = 0.5 * (lo + hi)

    def wave(pk):
        if abs(ps - pk) <= 1e-9 * pk:
            return "N"
        return "S" if ps > pk else "R"
    return wave(c["pl"]) + "C" + wave(c["pr"])


FIELDS = ("density", "pressure", "specific_internal_energy", "velocity")


def _fields(sol):
    return {f: np.asarray(sol[f], float) for f in FIELDS}


def _cell(s):
    """internal grid cell of the general-EOS solver, read from the public attribute x of the solver after the call: the
    uniform spacing of its linspace (the median spacing: the wave positions and the point x=0, which the solver always
    appends, split or widen single cells and are not the resolution)"""
    return float(np.median(np.diff(np.asarray(s.x, float))))


def riemann_task(task):
    hm = _hm()
    solver = task["solver"]
    path, extra = RIEMANN[solver]
    if solver == "GenEOS" and task.get("tier") == "thorough":
        extra = GENEOS_THOROUGH
    root = riemann_root(task["root"])
    rootname = task["root"].get("problem_name") or ",".join("%s=%s" % kv for kv in sorted(task["root"]["dev"].items())) or "sod"
    Lw = root["xmax"] - root["xmin"]
    gens = riemann_generators(Lw)
    nodes, transitions = orbit.bfs({"cfg": root, "g": {"s": 1, "c": 0.0, "w": 0.0}}, gens, task["depth"])
    dg = Digest()
    res = {"evals": 0, "nontrivial": [], "violations": [], "counters": {}, "sample": None,
           "states": len(nodes), "transitions": transitions}
    C = res["counters"]

    def cnt(name, n=1):
        if n:
            C[name] = C.get(name, 0) + int(n)

    cnt("merged_words", sum(n["merged"] for n in nodes.values()))
    tol = TOL_IGEOS if solver == "IGEOS" else TOL_GENEOS
    root_pattern = exact_pattern(root)
    times = hm.riemann_times(task["root"] if "problem_name" in task["root"] else {})
    worst = 0.0
    for t in times:
        t = float(t)
        try:
            s0 = construct(path, dict(root, **extra))
        except Exception as ex:
            cnt("root_construct_exceptions")
            dg.add("rootexc", type(ex).__name__)
            continue

        def root_eval(x):
            sol = call(s0, np.asarray(x, float), t)
            res["evals"] += 1
            return _fields(sol)

        # root point lattice: 300 points of the declared window [xmin, xmax]
        lo, hi = root["xmin"], root["xmax"]
        xs = np.linspace(lo, hi, 302)[1:-1]
        try:
            a_lat = root_eval(xs)
        except Exception as ex:
            cnt("root_call_exceptions")
            cnt("exc:%s:%s" % (solver, type(ex).__name__))
            dg.add("rootexc", type(ex).__name__)
            continue
        cell0 = _cell(s0) if solver == "GenEOS" else 0.0
        # discontinuities of the root, located from the returned fields
        njump = 0
        if solver == "IGEOS":
            def Fj(x):
                a = root_eval(x)
                return np.array([a["density"], a["pressure"], a["velocity"]])
            try:
                jumps = oracle.locate_jumps(Fj, lo, hi, n=513, max_jumps=6, tol=1e-12)
            except Exception:
                jumps = []
            njump = len(jumps)
            d0 = IGEOS_DELTA * Lw
            strad = []
            for j in jumps:
                for m in (2.0, 6.0, 40.0):
                    strad += [j["x"] - m * d0, j["x"] + m * d0]
            if strad:
                xs = np.array(sorted(set(xs.tolist() + strad)))
                a_lat = root_eval(xs)
        cnt("located_jumps", njump)
        constant = all(float(np.ptp(a_lat[f])) == 0.0 for f in FIELDS)
        S = {f: max(float(np.max(np.abs(a_lat[f]))), 1e-300) for f in FIELDS}
        with np.errstate(all="ignore"):
            cs = np.sqrt(max(root["gl"], root["gr"]) * np.abs(a_lat["pressure"]) / np.abs(a_lat["density"]))
        S["velocity"] = max(S["velocity"], float(np.nanmax(cs)))
        cache = {}

        def root_three(delta):
            key = float("%.6g" % delta)
            if key not in cache:
                a = root_eval(np.concatenate([xs, xs - key, xs + key]))
                n = len(xs)
                cache[key] = ({f: a[f][:n] for f in FIELDS}, {f: a[f][n:2 * n] for f in FIELDS}, {f: a[f][2 * n:] for f in FIELDS}, key)
            return cache[key]

        for key, nd in nodes.items():
            if not nd["word"]:
                continue
            cfg, g = nd["node"]["cfg"], nd["node"]["g"]
            word = ".".join(nd["word"])
            xp = g["s"] * xs + g["c"] + g["w"] * t
            pattern = exact_pattern(cfg)
            du = "ne0" if cfg["ul"] != cfg["ur"] else "eq0"
            where = {"word": word, "t": t, "pattern": pattern, "du": du}
            kind = "mirror" if g["s"] < 0 else ("boost" if g["w"] != 0 else "translation")
            try:
                s1 = construct(path, dict(cfg, **extra))
                b = _fields(call(s1, xp, t))
                res["evals"] += 1
            except Exception as ex:
                cnt("node_exceptions")
                cnt("exc:%s:%s" % (solver, type(ex).__name__))
                dg.add("exc", word, type(ex).__name__)
                continue
            for f in FIELDS:
                dg.add(b[f])
            if solver == "GenEOS":
                delta = 3.0 * max(cell0, _cell(s1))
            else:
                delta = IGEOS_DELTA * Lw
            a0, am, ap, delta = root_three(delta)
            # judged: points inside the declared window of the root AND of the node (the solvers pad their internal grid
            # beyond the declared window by a rule that is not translation-free -- 1.1 x the extreme wave position --, so
            # outside it GenEOS resolves the same wave differently; the statement is about the solution on its domain)
            inwin = (xs >= root["xmin"]) & (xs <= root["xmax"]) & (xp >= cfg["xmin"]) & (xp <= cfg["xmax"])
            cnt("points_outside_a_declared_window", int((~inwin).sum()))
            if not inwin.any():
                cnt("nodes_without_common_window")
                continue
            mism = {}
            nbad = {}
            nnear = 0
            nout = 0
            for f in FIELDS:
                if f == "velocity":
                    tr = [g["s"] * a[f] + g["w"] for a in (a0, am, ap)]
                    den = np.full(len(xs), S[f])
                else:
                    tr = [a[f] for a in (a0, am, ap)]
                    den = np.maximum(np.maximum(np.abs(tr[0]), np.abs(b[f])), FLOOR * S[f])
                byval = np.abs(b[f] - tr[0]) / den
                byval = np.where(np.isnan(byval), 1.0, byval)
                lo3 = np.minimum(np.minimum(tr[0], tr[1]), tr[2])
                hi3 = np.maximum(np.maximum(tr[0], tr[1]), tr[2])
                out = np.maximum(lo3 - b[f], b[f] - hi3) / den         # <= 0 inside the bracket
                out = np.where(np.isnan(out), 1.0, out)
                m = np.minimum(byval, np.maximum(out, 0.0))
                nout = max(nout, int(((m > tol) & ~inwin).sum()))
                nnear = max(nnear, int(((byval > tol) & (m <= tol) & inwin).sum()))
                m = np.where(inwin, m, 0.0)
                mism[f] = float(m.max())
                nbad[f] = int((m > tol).sum())
            cnt("points_outside_window_mismatching_not_judged", nout)
            cnt("points_compared", int(inwin.sum()))
            cnt("points_compared_by_jump_position", nnear)
            w_ = max(mism.values())
            if not (pattern == "SCR" and du == "ne0" and solver == "IGEOS"):
                worst = max(worst, w_ if w_ <= tol else 0.0)
            if w_ > tol:
                fbad = max(mism, key=lambda k: mism[k])
                res["violations"].append(viol(
                    solver, cfg, "riemann:covariance:" + kind, where, w_, tol,
                    root=root, root_pattern=root_pattern, group_element=g, worst_field=fbad, mismatch=mism, n_bad_points=nbad,
                    n_points=len(xs), delta=delta))
            if not constant and float(np.ptp(a_lat["density"][inwin])) + float(np.ptp(a_lat["pressure"][inwin])) > 0.0:
                res["nontrivial"].append("%s|%s|%s|%g" % (solver, rootname, word, t))
            if res["sample"] is None:
                res["sample"] = {"solver": solver, "root": root, "word": word, "node_cfg": cfg, "group_element": g, "t": t,
                                 "n_points": len(xs), "mismatch": mism, "first_x": xs[:3], "first_x_transformed": xp[:3]}
    C["max_ok_mismatch_1e-12"] = int(worst * 1e12)
    res["digest"] = dg.hex()
    return res


# ================================================================================================ burn times

def _rot(d, i, j, deg):
    A = np.eye(d)
    if deg == 90:
        cs, sn = 0.0, 1.0
    else:
        cs, sn = math.cos(math.radians(deg)), math.sin(math.radians(deg))
    A[i, i] = cs
    A[j, j] = cs
    A[i, j] = -sn
    A[j, i] = sn
    return A


def _refl(d, i):
    A = np.eye(d)
    A[i, i] = -1.0
    return A


def burn_generators(fam, d):
    """generators act on node = {"A": orthogonal matrix (rows), "b": translation, "perm": 0/1}:  x' = A x + b"""
    def lin(name, Mx):
        def f(n):
            A = Mx @ np.array(n["A"])
            b = Mx @ np.array(n["b"])
            return {"A": [[_snap(v) for v in row] for row in A], "b": [_snap(v) for v in b], "perm": n["perm"]}
        return (name, f)

    def trans(v):
        def f(n):
            return {"A": n["A"], "b": [_snap(x + y) for x, y in zip(n["b"], v)], "perm": n["perm"]}
        return ("T", f)

    def relabel(n):
        return {"A": n["A"], "b": n["b"], "perm": 1 - n["perm"]}
    planes = [(0, 1)] if d == 2 else [(0, 1), (1, 2), (2, 0)]
    gens = []
    if fam == "Kenamond1":
        gens.append(trans([1.5, -0.5] if d == 2 else [1.5, -0.5, 2.0]))
        for (i, j) in planes:
            gens += [lin("R30_%d%d" % (i, j), _rot(d, i, j, 30)), lin("R90_%d%d" % (i, j), _rot(d, i, j, 90))]
        gens += [lin("F%d" % i, _refl(d, i)) for i in range(d)]
    elif fam == "Kenamond2":
        # detonators on the last axis: rotations about it (3D), reflections across it, the up-down reflection, relabelling
        if d == 3:
            gens += [lin("R30_01", _rot(d, 0, 1, 30)), lin("R90_01", _rot(d, 0, 1, 90))]
        gens += [lin("F%d" % i, _refl(d, i)) for i in range(d - 1)]
        gens += [lin("U", _refl(d, d - 1)), ("P", relabel)]
    elif fam == "Kenamond3":
        for (i, j) in planes:
            gens += [lin("R30_%d%d" % (i, j), _rot(d, i, j, 30)), lin("R90_%d%d" % (i, j), _rot(d, i, j, 90))]
        gens += [lin("F%d" % i, _refl(d, i)) for i in range(d)]
    else:
        gens += [lin("R30_01", _rot(d, 0, 1, 30)), lin("R90_01", _rot(d, 0, 1, 90)), lin("F0", _refl(d, 0)), lin("F1", _refl(d, 1))]
    return gens


def burn_kwargs(fam, c, kw, node):
    """constructor kwargs of the transformed problem"""
    A, b = np.array(node["A"], float), np.array(node["b"], float)
    k = dict(kw)
    if fam in ("Kenamond1", "Kenamond3"):
        k["x_d"] = tuple(float(v) for v in (A @ np.array(kw["x_d"], float) + b))
    elif fam == "Kenamond2":
        sgn = A[-1, -1]                      # +1 or -1: the detonator axis is mapped onto itself
        dets = [sgn * a for a in kw["dets"]]
        td = list(kw["t_d"])
        if node["perm"]:
            dets = dets[::-1]
            td = td[::-1]
        k["dets"], k["t_d"] = dets, td
    return k


def burn_points(fam, c, d):
    """7x7 / 5x5x5 Cartesian lattice + points on every interface, the detonators, the shadow boundary, the axis"""
    Lc = B.length(fam, c)
    n = 7 if d == 2 else 5
    ax = np.linspace(-4.2, 4.6, n) * Lc
    G = np.array(np.meshgrid(*([ax] * d), indexing="ij")).reshape(d, -1).T
    U = B.unit_dirs(d, 8)
    extra = [Ri * U for Ri in B.interfaces(fam, c)]
    extra += [xd[None, :] for xd, _ in B.detonators(fam, c)]
    if fam == "Kenamond3":
        dv, lod, psi = B.k3_frame(c)
        for a, tau, nrm in B.k3_shadow_rays(c, 4):
            extra.append(np.array([a + sfrac * c["R"] * tau for sfrac in (0.0, 0.4, 1.5)]))
        extra.append(np.array([-r * Lc * dv for r in (1.0, 1.3, 2.0, 3.7)]))       # axis behind the obstacle
        extra.append(np.array([r * Lc * dv for r in (1.0, 1.2, 2.5)]))            # axis in front
    if fam == "Kenamond2":
        e = np.zeros(d)
        e[-1] = 1.0
        extra.append(np.array([r * Lc * e for r in (-4.0, -2.0, -0.5, 0.0, 0.5, 2.0, 4.0)]))
    P = np.concatenate([G] + extra, axis=0)
    P = P[B.region(fam, c, P) >= 0] if fam == "Kenamond3" else P
    if fam == "Kenamond3":
        P = B.keep_outside(P, c["R"])
        P = P[B.region(fam, c, P) >= 0]
    return P


def burn_task(task):
    fam = task["family"]
    c = B.full(fam, task["dev"])
    dg = Digest()
    res = {"evals": 0, "nontrivial": [], "violations": [], "counters": {}, "sample": None, "states": 0, "transitions": 0}
    C = res["counters"]

    def cnt(name, n=1):
        if n:
            C[name] = C.get(name, 0) + int(n)

    kw = B.kwargs(fam, c)
    if kw is None:
        cnt("outside_documented_admissible_set")
        res["digest"] = dg.add("undocumented").hex()
        return res
    try:
        s0 = construct(B.PATH[fam], kw)
    except Inadmissible:
        cnt("inadmissible_roots")
        res["digest"] = dg.add("inadmissible").hex()
        return res
    d = B.dim(fam, c)
    T = B.time_scale(fam, c)
    rootname = ",".join("%s=%s" % kv for kv in sorted(task["dev"].items())) or "default"
    gens = burn_generators(fam, d)
    rootnode = {"A": np.eye(d).tolist(), "b": [0.0] * d, "perm": 0}
    nodes, transitions = orbit.bfs(rootnode, gens, task["depth"])
    res["states"], res["transitions"] = len(nodes), transitions
    cnt("merged_words", sum(n["merged"] for n in nodes.values()))
    P = burn_points(fam, c, d)
    a = np.asarray(call(s0, P, 0.0)["burntime"], float)
    res["evals"] += 1
    dg.add(a)
    k3 = fam == "Kenamond3"
    fl0 = B.k3_cond_floor(c, P) if k3 else np.zeros(len(P))
    onaxis = B.k3_axis_behind(c, P) if k3 else np.zeros(len(P), bool)
    los0 = (kw["t_d"] + np.sqrt(((P - np.array(kw["x_d"]))**2).sum(axis=1)) / kw["D"]) if k3 else None
    worst = 0.0
    for key, nd in nodes.items():
        if not nd["word"]:
            continue
        node = nd["node"]
        word = ".".join(nd["word"])
        A, bvec = np.array(node["A"], float), np.array(node["b"], float)
        Q = P @ A.T + bvec[None, :]
        if k3:
            Q = B.keep_outside(Q, c["R"])
        kq = burn_kwargs(fam, c, kw, node)
        try:
            s1 = construct(B.PATH[fam], kq)
            bq = np.asarray(call(s1, Q, 0.0)["burntime"], float)
            res["evals"] += 1
        except Exception as ex:
            cnt("node_exceptions")
            cnt("exc:%s:%s" % (fam, type(ex).__name__))
            dg.add("exc", word, type(ex).__name__)
            continue
        dg.add(bq)
        diff = np.abs(bq - a)
        diff = np.where(np.isnan(bq) & np.isnan(a), 0.0, np.where(np.isnan(diff), np.inf, diff))
        bound = TOL_BURN * T + 2.0 * fl0
        cnt("points_compared", len(P))
        for locus, m in (("axis_behind_obstacle", onaxis), ("elsewhere", ~onaxis)):
            e = np.where(m, diff - bound, -np.inf)
            if m.any():
                ok = m & (diff <= bound) & (2.0 * fl0 <= TOL_BURN * T)     # calibration statistic: well-conditioned points only
                if ok.any() and locus == "elsewhere":
                    worst = max(worst, float((diff[ok] / T).max()))
            if (e > 0).any():
                j = int(np.argmax(e))
                where = {"word": word, "locus": locus}
                if locus == "axis_behind_obstacle":
                    # label: is every offending value (root or image) the straight-ray time through the obstacle?
                    losq = kq["t_d"] + np.sqrt(((Q - np.array(kq["x_d"]))**2).sum(axis=1)) / kq["D"]
                    bad = e > 0
                    sig = (np.abs(a - los0) <= 1e-12 * T) | (np.abs(bq - losq) <= 1e-12 * T)
                    where["axis_value"] = "straight_ray_through_obstacle" if bool(sig[bad].all()) else "other"
                res["violations"].append(viol(fam, kq, "burn:covariance", where, min(diff[j] / T, 1e300), TOL_BURN,
                                              root_kwargs=kw, point=P[j], image=Q[j], t_root=a[j], t_image=bq[j],
                                              n_bad_points=int((e > 0).sum()), n_points=len(P), A=node["A"], b=node["b"], perm=node["perm"]))
        res["nontrivial"].append("%s|%s|%s" % (fam, rootname, word))
        if res["sample"] is None:
            res["sample"] = {"family": fam, "root_kwargs": kw, "word": word, "node_kwargs": kq, "n_points": len(P),
                             "first_point": P[0], "first_image": Q[0], "t_root": a[0], "t_image": bq[0]}
    C["max_ok_burn_mismatch_1e-18"] = int(worst * 1e18)
    res["digest"] = dg.hex()
    return res


def run_task(task):
    if task["kind"] == "riemann":
        return riemann_task(task)
    return burn_task(task)


def postprocess(agg, tier):
    mx = {}
    for r in agg["results"]:
        if not r:
            continue
        for k_, v in r["counters"].items():
            if k_.startswith("max_"):
                mx[k_] = max(mx.get(k_, 0), v)
    agg["counters"].update(mx)
    if os.environ.get("XPMC_C09_ONLY"):
        agg["counters"]["development_task_filter"] = 1
        return {"capped": True}
    return {}
