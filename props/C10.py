"""C10 -- self-similar problems return self-similar fields with the documented exponents.

Mode G (orbit graph).  One task = one root (solver family, configuration within one deviation of the default, root time, similarity
coordinates: 10 per smooth region located from the root's fields + points straddling every located discontinuity).  Generators are the
time dilations t -> 2t, t -> t/3, t -> 1.7t; a node is the accumulated factor a (canonical rounding merges commuting words).  At EVERY
node the solver is called at the similarity image (x', t') of the root's points and every field must equal the root's field times the
documented power of a:
  * Riemann (both solvers), Noh, Cog19, EHEP region I, Mader: x' - x0 = a (x - x0), t' = a t, every field unchanged (Mader: the whole
    grid, hence the cell size, is scaled; its 'xdet' is a length and scales with a);
  * Sedov: r' = r a^d, d = 2/(j+2-omega); rho a^(-omega d), u and c a^(d-1), p a^(-omega d + 2(d-1)), e a^(2(d-1));
  * Guderley: Lazarus time t_L = t/0.750024322 - 1 -> a t_L, r' = r a^(1/lambda); rho unchanged, u and c a^(1/lambda-1), p and e
    a^(2/lambda-2); lambda is the solver's own exponent (one evaluation per (geometry, gamma)), cross-checked against the shock trajectory
    located from the returned fields at two times.
"""
import math

import numpy as np

from xpmc import hydro, hydro_more, lattice, oracle, orbit
from xpmc import x_C08_dims as D
from xpmc.engine import Digest
from xpmc.solvers import call, Inadmissible

ID = "C10"
LEVEL = "model_checking"
TECHNIQUE = ("explicit-state breadth-first exploration of the orbit graph of each root problem instance under time dilations on the real "
             "solvers (mode G), similarity invariant checked at every node")
CLAIM = ("For every root (default and every one-deviation configuration over the stated alphabets, every geometry, of IGEOS/GenEOS Riemann incl. "
         "tabulated and JWL problems, Noh, Cog19, EHEP region I, Mader, Sedov incl. singular/vacuum/omega!=0, Guderley at the five cached "
         "(geometry, gamma) pairs before and after focus) the orbit under t->2t, t->t/3, t->1.7t is explored breadth-first to word length 2 "
         "(quick) / 3 (thorough), nodes merged by canonical rounding; at every node every returned field at the similarity image of the root's "
         "points (10 per smooth region located from the fields + points straddling every located discontinuity at 1e-6 and 1e-3 of the "
         "domain) is compared with the root's field times the documented power of the dilation. Exhaustive over the stated graph; model "
         "checking is the right level because the property is an invariant over a group orbit.")
LEVEL_NOTE = ("trusted: numpy, the similarity exponents written in props/C10.py from the documentation (Sedov: 2/(j+2-omega); Guderley: the solver's "
              "own lambda, cross-checked against the shock trajectory located from the fields), the memoised Guderley exponent; assumed: dilations "
              "outside the explored words (1/27..8) and configurations beyond one deviation are not seen; GenEOS values are interpolated on an internal "
              "grid that is not similarity-invariant, so there the comparison is to the documented grid resolution")
BOUND = {"quick": "words of length <= 2 over {t*2, t/3, t*1.7}; roots = default + one-deviation configurations (two-deviation for Guderley)",
         "thorough": "words of length <= 3 over {t*2, t/3, t*1.7}; roots = default + one-deviation configurations (two-deviation for Noh, Cog19, IGEOS, "
                     "EHEP, Mader, Guderley)"}
RULE = ("tasks = roots (family x configuration with <= 1 deviation x root time); states = orbit-graph nodes (canonical dilation factors), "
        "transitions = generator applications; an evaluation is one public solver call (one per node + the calls used to locate structure); a case "
        "(root, node, point) is non-trivial when the node is not the identity and the point either straddles a located discontinuity or lies in a "
        "region where some field varies along the similarity coordinate; distinct by (family, deviation, node, point index)")
ASSUMPTIONS = [
    "dilation factors are products of at most 2 (quick) / 3 (thorough) generators",
    "similarity centre and exponents are the documented ones: x0 = xd0 (Riemann), 0 otherwise; Sedov r ~ t^(2/(j+2-omega)); Guderley x = t_L/r^lambda with "
    "t = 0.750024322 (t_L + 1) (guderley/ramsey.py)",
    "EHEP: only region I is self-similar in x/t; points and all their images are inside region I of the documented x-t diagram",
    "Mader returns cell averages over (x[-1]-x[0])/N: the whole grid is dilated so the cell is too",
    "GenEOS interpolates on linspace(window, num_x_pts) with a window that is not similarity-invariant: points within 3 internal cells of a located "
    "discontinuity are not compared at that node and the tolerance is the interpolation resolution (num_x_pts=20001 is used)",
    "Sedov interpolates on linspace(0, max(r), 3001): the sentinel maximum is dilated with the points so the internal grid is the similarity image",
]

DEPTH = {"quick": 2, "thorough": 3}
GENS = [("t*2", 2.0), ("t/3", 1.0 / 3.0), ("t*1.7", 1.7)]
GUD_FACTOR = 0.750024322
NPER = 10

# ----------------------------------------------------------------------------------------------------------------------------
# families: name -> dict(base = x_C08_dims family (constructor/alphabet), kind, tol, floor, times, centre)
#   tolerances: >= 10 x the worst residual of the unchanged code over the thorough graph (measured values in the comments)
# ----------------------------------------------------------------------------------------------------------------------------
FAMS = {}


def _reg(name, base, kind, tol, floor=1e-3, **kw):
    d = dict(name=name, base=base, kind=kind, tol=tol, floor=floor)
    d.update(kw)
    FAMS[name] = d


# measured = worst mismatch of the unchanged code over the thorough graph (518 roots, words <= 3, 2026-09-26)
_reg("Noh", "Noh", "ray", 1e-11)                      # measured 7.7e-16
_reg("Cog19", "Cog19", "ray", 1e-11)                  # measured 7.8e-16
_reg("IGEOS", "IGEOS", "ray", 1e-9)                   # measured 1.1e-11 (class B: same bisection at every node, fan evaluated at x/t)
_reg("IGEOS_table", "IGEOS_table", "ray", 1e-9)       # measured 2.7e-13
# class C: values are interpolated on linspace(window, num_x_pts=20001), window not similarity-invariant; measured 2.4e-4 (a = 1/27, fan over ~40 cells)
_reg("GenEOS", "GenEOS", "ray", 3e-3, floor=1e-1, extra={"num_x_pts": 20001}, cell=True)
_reg("GenEOS_table", "GenEOS_table", "ray", 3e-3, floor=1e-1, extra={"num_x_pts": 20001}, cell=True)      # measured 8.8e-5
_reg("EHEP", "EHEP", "ehep", 1e-11)                   # measured 1.1e-13
_reg("Mader", "Mader", "ray", 1e-10)                  # measured 2.8e-13 (differences of powers in the cell average)
_reg("Sedov", "Sedov", "sedov", 1e-9, floor=1e-1)     # measured 7.2e-11 (fminbound on (lambda(v) - lambda_want)^2, 3001-point grid)
_reg("Guderley", "Guderley", "guderley", 1e-9)        # measured 2.4e-13; lambda cross-check: measured 6.4e-11, tolerance 1e-7
ORDER = ["Noh", "Cog19", "IGEOS", "IGEOS_table", "GenEOS", "GenEOS_table", "EHEP", "Mader", "Sedov", "Guderley"]


def base_of(F):
    return D.FAMS[F["base"]]


def times_of(F, cfg):
    f = base_of(F)
    if F["kind"] == "ehep":       # region I exists for t < xtilde/D only; every image (a <= 8) must stay inside
        tt = cfg["xtilde"] / cfg["D"]
        return [0.1 * tt, 0.03 * tt]
    return f["times"](cfg)


CHEAP = {"Noh", "Cog19", "IGEOS", "EHEP", "Mader"}


def roots(F, tier="quick"):
    f = base_of(F)
    alpha = dict(f["alphabet"])
    cfg0 = lattice.full_cfg(alpha, {})
    alpha["_t"] = list(range(len(times_of(F, cfg0))))
    K = f.get("rootK", 1)            # Guderley: two deviations ((geometry, gamma) x time interact)
    if tier == "thorough" and F["name"] in CHEAP:
        K = 2                        # closed forms and IGEOS cost milliseconds
    return alpha, lattice.enumerate_checked(alpha, K)


def preimport():
    from xpmc import hydro_more  # noqa: F401


def _only():
    """Development aid (never set by the registered commands): XPMC_ONLY_FAMILIES=a,b restricts the run; the evidence is then marked capped."""
    import os
    v = os.environ.get("XPMC_ONLY_FAMILIES", "")
    return [x for x in v.split(",") if x]


def tasks(tier, seed):
    out = []
    for name in ORDER:
        if _only() and name not in _only():
            continue
        alpha, devs = roots(FAMS[name], tier)
        for dev in devs:
            out.append({"family": name, "dev": dev, "depth": DEPTH[tier]})
    return out


# ----------------------------------------------------------------------------------------------------------------------------
# the documented similarity maps
# ----------------------------------------------------------------------------------------------------------------------------

def centre(F, kw):
    return float(kw["xd0"]) if "xd0" in kw else 0.0


def image(F, kw, pts, t, a, lam):
    """-> (points', t', {field: factor})"""
    kind = F["kind"]
    if kind in ("ray", "ehep"):
        x0 = centre(F, kw)
        fac = {"xdet": a}
        return x0 + a * (pts - x0), a * t, fac
    if kind == "sedov":
        j, om = kw["geometry"], kw["omega"]
        d = 2.0 / (j + 2.0 - om)
        fac = {"density": a ** (-om * d), "velocity": a ** (d - 1.0), "sound_speed": a ** (d - 1.0),
               "pressure": a ** (-om * d + 2.0 * (d - 1.0)), "specific_internal_energy": a ** (2.0 * (d - 1.0))}
        return pts * a ** d, a * t, fac
    if kind == "guderley":
        tl = t / GUD_FACTOR - 1.0
        q = 1.0 / lam
        fac = {"density": 1.0, "velocity": a ** (q - 1.0), "sound_speed": a ** (q - 1.0), "pressure": a ** (2.0 * q - 2.0),
               "specific_internal_energy": a ** (2.0 * q - 2.0)}
        return pts * a ** q, GUD_FACTOR * (a * tl + 1.0), fac
    raise KeyError(kind)


# ----------------------------------------------------------------------------------------------------------------------------
# similarity coordinates of the root: 10 per smooth region, regions located from the returned fields
# ----------------------------------------------------------------------------------------------------------------------------

def field_matrix(f, s, t, sentinel=None):
    calls = [0]

    def Fm(x):
        calls[0] += 1
        x = np.asarray(x, float)
        xx = np.append(x, sentinel) if sentinel is not None else x
        sol = call(s, xx, t)
        M = np.array([np.asarray(sol[n], float) for n in D.numeric_fields(sol, f)])
        return M[:, :len(x)]
    return Fm, calls


def structure_points(Fm, a, b, njumps, scan, jtol, geometric=False):
    """Jumps (bisection on the fields) and kinks (ends of the stretches where some field varies) of the profile on [a, b]."""
    jumps = oracle.locate_jumps(Fm, a, b, n=scan, geometric=geometric, max_jumps=njumps, tol=jtol) if njumps else []
    xs = np.geomspace(a, b, scan) if geometric else np.linspace(a, b, scan)
    M = np.nan_to_num(Fm(xs), nan=0.0, posinf=0.0, neginf=0.0)
    sc = np.abs(M).max(axis=1, keepdims=True)
    sc = np.where(sc > 0, sc, 1.0)
    var = (np.abs(np.diff(M, axis=1)) > 1e-9 * sc).any(axis=0)        # cell i = [xs[i], xs[i+1]] varies
    for j in jumps:
        i = int(np.clip(np.searchsorted(xs, j["x"]) - 1, 0, len(var) - 1))
        var[i] = var[i - 1] if i > 0 else False                        # the cell holding a jump is not a kink
    kinks = [float(xs[i + 1]) for i in range(len(var) - 1) if var[i] != var[i + 1]]
    return jumps, kinks, (xs, var)


def similarity_points(a, b, jumps, kinks, xs_var, cellpad=0.0):
    L = b - a
    xs, var = xs_var
    cuts = sorted([a, b] + [j["x"] for j in jumps] + kinks)
    pts = []
    for lo, hi in zip(cuts[:-1], cuts[1:]):
        if hi - lo < 1e-5 * L:
            continue
        mid = 0.5 * (lo + hi)
        i = int(np.clip(np.searchsorted(xs, mid) - 1, 0, len(var) - 1))
        varying = bool(var[i])
        h = (hi - lo) / NPER
        for k in range(NPER):
            x = lo + (k + 0.5) * h
            if all(abs(x - j["x"]) > max(1e-6 * L, cellpad) for j in jumps):
                pts.append((x, "region", varying))
    for j in jumps:
        for d, cl in ((1e-6, "front-1e-6"), (1e-3, "front-1e-3")):
            for x in (j["lo"] - d * L, j["hi"] + d * L):
                if a <= x <= b:
                    pts.append((x, cl, True))
    pts.sort()
    return (np.array([p[0] for p in pts]), np.array([p[1] for p in pts]), np.array([p[2] for p in pts], bool))


def root_points(F, cfg, kw, t, s):
    """-> points, classes, nontrivial mask, jumps, ncalls, sentinel index or None"""
    f = base_of(F)
    kind = F["kind"]
    if f["name"] == "Mader":
        pts, _, _ = f["hyd"]["points"](cfg, t, s)
        pts = np.asarray(pts, float)
        return pts, np.array(["region"] * len(pts)), np.ones(len(pts), bool), [], 0
    if kind == "sedov":
        pts, nj, nc = f["hyd"]["points"](cfg, t, s)         # 24 inside + 6 outside the shock + points 2e-3, 1e-2 either side + sentinel
        pts = np.asarray(pts, float)
        return pts, np.array(["region"] * len(pts)), np.ones(len(pts), bool), [None] * nj, nc
    if kind == "ehep":
        lo, hi = (2.0 * cfg["up"] + 0.5 * cfg["D"]) * t, cfg["D"] * t
        w = hi - lo
        pts = lo + w * (np.arange(2 * NPER) + 0.5) / (2 * NPER)
        pts = np.concatenate([[lo + 1e-3 * w, lo + 1e-5 * w], pts, [hi - 1e-5 * w, hi - 1e-3 * w]])
        pts.sort()
        return pts, np.array(["region"] * len(pts)), np.ones(len(pts), bool), [], 0
    a, b = f["domain"](cfg, t)
    Fm, calls = field_matrix(f, s, t)
    if kind == "guderley":     # costly solver: the only structure is the (converging or reflected) shock; 10 points on either side of it
        a = 0.1
        jumps = oracle.locate_jumps(Fm, a, b, n=65, max_jumps=1, tol=1e-10)
        xs = np.array([a, b])
        pts, cl, nt = similarity_points(a, b, jumps, [], (xs, np.array([True])))
        return pts, cl, nt, jumps, calls[0]
    geometric = a > 0 and b / a > 20
    scan = 1025 if F["base"].startswith(("IGEOS", "GenEOS")) else f.get("scan", 257)
    jtol = f.get("jtol", 1e-13)
    pad = 0.0
    if F.get("cell"):
        # class C: a discontinuity is a ramp over one internal cell, so the bisection is stopped at two cells (a ramp "collapses" below that)
        Fm(np.array([a, b]))
        cell0 = hydro_more.geneos_cell(cfg, t, s)
        jtol = 2.0 * cell0 / (b - a)
        pad = 6.0 * cell0
    jumps, kinks, xv = structure_points(Fm, a, b, f.get("njumps", 0), scan, jtol, geometric)
    pts, cl, nt = similarity_points(a, b, jumps, kinks, xv, cellpad=pad)
    if F.get("cell"):          # class C: no points closer than 6 cells to a jump (straddling points are moved out to 6, 12 cells)
        keep = np.array([c == "region" for c in cl], bool)
        extra = []
        for j in jumps:
            for m_ in (6.0, 12.0):
                extra += [j["lo"] - m_ * pad / 6.0, j["hi"] + m_ * pad / 6.0]
        extra = [x for x in extra if a <= x <= b]
        pts = np.concatenate([pts[keep], extra])
        cl = np.concatenate([cl[keep], ["front-cells"] * len(extra)])
        nt = np.concatenate([nt[keep], np.ones(len(extra), bool)]).astype(bool)
        o = np.argsort(pts)
        pts, cl, nt = pts[o], cl[o], nt[o]
    return pts, cl, nt, jumps, calls[0]


def ehep_inside_region_I(cfg, x, t):
    """Documented x-t diagram: region I is the triangle (0,0), (xtilde, xtilde/D), (x_CD, t_CD)."""
    D_, up, xt = cfg["D"], cfg["up"], cfg["xtilde"]
    return (t < xt / D_) & (x < D_ * t) & (x > (2.0 * up + 0.5 * D_) * t)


def shock_from_fields(f, s, t, a, b, jtol=1e-10):
    Fm, calls = field_matrix(f, s, t)
    jumps = oracle.locate_jumps(Fm, a, b, n=33, max_jumps=1, tol=jtol)
    return (jumps[0]["x"] if jumps else None), calls[0]


def run_task(task):
    F = FAMS[task["family"]]
    f = base_of(F)
    alpha, _ = roots(F)
    cfg = lattice.full_cfg(alpha, task["dev"])
    res = {"evals": 0, "nontrivial": [], "violations": [], "counters": {}, "sample": None, "states": 0, "transitions": 0}
    C = res["counters"]
    dg = Digest()
    t = times_of(F, cfg)[cfg["_t"]]
    kw = D.kwargs_of(f, cfg)
    kw.update(F.get("extra", {}))
    try:
        s = D.build(f, kw)
    except Inadmissible:
        C["inadmissible_roots"] = 1
        res["digest"] = dg.add("inadmissible").hex()
        return res
    except Exception as ex:
        C["root_construct_exceptions"] = 1
        C["cexc:%s:%s" % (F["name"], type(ex).__name__)] = 1
        res["digest"] = dg.add("cexc", type(ex).__name__).hex()
        return res
    try:
        pts, classes, ntmask, jumps, ncall = root_points(F, cfg, kw, t, s)
        root = call(s, pts, t)
    except Exception as ex:
        C["root_call_exceptions"] = 1
        C["exc:%s:%s" % (F["name"], type(ex).__name__)] = 1
        res["digest"] = dg.add("exc", type(ex).__name__).hex()
        return res
    res["evals"] += ncall + 1
    C["located_discontinuities"] = len(jumps)
    names = [n for n in D.numeric_fields(root, f)]
    rootv = {n: np.asarray(root[n], float) for n in names}
    labels = {n: np.asarray(root[n]) for n in f.get("labels", ()) if n in root.dtype.names}
    tol, floor = F["tol"], F["floor"]
    devkey = sorted(task["dev"].items())
    lam = None
    if F["kind"] == "guderley":
        import exactpack.solvers.guderley.ramsey as R
        lam = float(R.eexp(cfg["_pair"][0], cfg["_pair"][1]))      # the solver's own exponent, once per (geometry, gamma)
        # cross-check: the shock located from the fields at two times must follow r_s ~ |t_L|^(1/lambda)
        tl = t / GUD_FACTOR - 1.0
        a_, b_ = f["domain"](cfg, t)
        r1 = jumps[0]["x"] if jumps else None
        t2 = GUD_FACTOR * (0.6 * tl + 1.0)
        r2, nc = shock_from_fields(f, s, t2, 0.35 * r1, 1.2 * r1) if r1 is not None else (None, 0)
        res["evals"] += nc
        if r1 is not None and r2 is not None:
            lam_obs = math.log(0.6) / math.log(r2 / r1)
            C["lambda_cross_checks"] = 1
            err = abs(lam_obs - lam) / lam
            res["lambda_err"] = err
            dg.add(r1, r2)
            if err > 1e-7:       # measured: <= 6.4e-11 (shock located to 1e-10 of the window)
                res["violations"].append({"solver": F["name"], "cfg": cfg, "clause": "similarity:lambda-vs-shock-trajectory", "where": {"t": t},
                                          "value": err, "tol": 1e-7, "detail": {"lambda_solver": lam, "lambda_from_trajectory": lam_obs,
                                                                               "r_shock": [r1, r2], "t": [t, t2]}})
        else:
            C["lambda_cross_check_no_shock_in_window"] = 1
    vscale = 0.0
    if "pressure" in rootv and "density" in rootv:
        with np.errstate(all="ignore"):
            cs = np.sqrt(np.abs(rootv["pressure"]) / np.abs(rootv["density"]))
        cs = cs[np.isfinite(cs)]
        vscale = float(cs.max()) if cs.size else 0.0

    def gen(fac):
        return lambda node: {"a": node["a"] * fac}
    nodes, transitions = orbit.bfs({"a": 1.0}, [(nm, gen(fac)) for nm, fac in GENS], task["depth"])
    res["states"], res["transitions"] = len(nodes), transitions
    seen = set()
    worst = 0.0
    for key, rec in nodes.items():
        a = rec["node"]["a"]
        word = ".".join(rec["word"]) or "identity"
        pts_n, t_n, fac = image(F, kw, pts, t, a, lam)
        if F["kind"] == "ehep":
            inside = ehep_inside_region_I(cfg, pts_n, t_n)
            if not inside.all():
                raise RuntimeError("harness: EHEP image point left region I (a=%r)" % a)
        try:
            out = call(s, pts_n, t_n)
        except Exception as ex:
            dg.add("exc", key, type(ex).__name__)
            res["violations"].append({"solver": F["name"], "cfg": cfg, "clause": "similarity:exception", "where": {"word": word, "t": t},
                                      "value": 1.0, "tol": 0.0, "detail": {"a": a, "exception": "%s: %s" % (type(ex).__name__, str(ex)[:200])}})
            continue
        res["evals"] += 1
        cmp_mask = np.ones(len(pts), bool)
        if F.get("cell") and jumps:
            # class C: not compared within 4 internal cells (of this node's grid) of the image of a located discontinuity's bracket
            cell = hydro_more.geneos_cell(cfg, t_n, s)
            x0 = centre(F, kw)
            for j in jumps:
                cmp_mask &= (pts_n < x0 + a * (j["lo"] - x0) - 4.0 * cell) | (pts_n > x0 + a * (j["hi"] - x0) + 4.0 * cell)
            C["points_skipped_near_smeared_jump"] = C.get("points_skipped_near_smeared_jump", 0) + int((~cmp_mask).sum())
        if abs(a - 1.0) > 1e-9:
            for i in np.where(ntmask & cmp_mask)[0]:
                res["nontrivial"].append("%s|%s|%s|%d" % (F["name"], devkey, key, i))
        for n in names:
            av = np.asarray(out[n], float)
            dg.add(av)
            bv = rootv[n] * fac.get(n, 1.0)
            fin = np.abs(bv[np.isfinite(bv)])
            S = float(fin.max()) if fin.size else 1.0
            if n == "velocity":
                S = max(S, vscale * fac.get(n, 1.0))
            if n == "sound_speed":
                av, bv, S = av * np.abs(av), bv * np.abs(bv), S * S
            with np.errstate(all="ignore"):
                m = np.abs(av - bv) / (np.maximum(np.abs(av), np.abs(bv)) + floor * S + 1e-300)
            m = np.where(av == bv, 0.0, m)
            m = np.where(np.isnan(av) & np.isnan(bv), 0.0, m)
            m = np.where(np.isnan(m) | (np.isnan(av) ^ np.isnan(bv)), 1.0, m)
            m = np.where(cmp_mask, m, 0.0)
            if m.size:
                worst = max(worst, float(m.max()))
            bad = m > tol
            if not bad.any():
                continue
            for cl in sorted(set(classes[bad])):
                k_ = (n, cl)
                if k_ in seen:           # one report per (field, point class): the shortest word comes first in BFS order
                    continue
                seen.add(k_)
                idx = np.where(bad & (classes == cl))[0]
                i = int(idx[np.argmax(m[idx])])
                res["violations"].append({
                    "solver": F["name"], "cfg": cfg, "clause": "similarity:" + n, "where": {"pts": str(cl), "t": t},
                    "value": float(m[i]), "tol": tol,
                    "detail": {"word": word, "a": a, "point": float(pts[i]), "image": float(pts_n[i]), "t_image": t_n, "got": float(np.asarray(out[n], float)[i]),
                               "expected": float((rootv[n] * fac.get(n, 1.0))[i]), "factor": fac.get(n, 1.0), "n_bad_points": int(idx.size),
                               "n_points": int(len(pts))}})
        for n, lab in labels.items():
            got = np.asarray(out[n])
            dg.add([str(x) for x in got])
            neq = np.array([str(x) != str(y) for x, y in zip(got, lab)])
            if neq.any() and ("label:" + n) not in seen:
                seen.add("label:" + n)
                i = int(np.where(neq)[0][0])
                res["violations"].append({"solver": F["name"], "cfg": cfg, "clause": "similarity:label:" + n, "where": {"pts": str(classes[i]), "t": t},
                                          "value": 1.0, "tol": 0.0, "detail": {"word": word, "a": a, "point": float(pts[i]), "got": str(got[i]), "expected": str(lab[i])}})
    res["worst"] = worst
    res["sample"] = {"family": F["name"], "cfg": cfg, "t": t, "n_points": int(len(pts)), "nodes": len(nodes), "depth": task["depth"], "fields": names,
                     "dilations": sorted(r["node"]["a"] for r in nodes.values())[:6], "lambda": lam, "worst_mismatch": worst,
                     "first_points": [float(x) for x in pts[:4]]}
    res["digest"] = dg.hex()
    return res


def postprocess(agg, tier):
    extra = {"capped": True, "restricted_to_families": _only()} if _only() else {}
    worst = {}
    lam = 0.0
    for tsk, r in zip(agg["task_list"], agg["results"]):
        if r:
            worst[tsk["family"]] = max(worst.get(tsk["family"], 0.0), r.get("worst", 0.0))
            lam = max(lam, r.get("lambda_err", 0.0))
    return dict(extra, **{"worst_lambda_cross_check_error": float("%.3g" % lam), "worst_mismatch_by_family": {k: float("%.3g" % v) for k, v in sorted(worst.items())}})
