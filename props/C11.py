"""C11 -- Sedov: energy behind the shock equals the blast energy; mass is conserved; undisturbed state ahead.

Mode L.  Every (geometry, gamma, omega-tag, rho0, eblast) vector of the stated lattice is constructed and, at every
lattice time, the *returned fields* are integrated over the region behind the shock:

* the shock radius is located from the fields (bisection on "u != 0 or p != 0" with two-point public calls), never
  read from the solver's report; for vacuum-type solutions the inner (vacuum) boundary is located the same way;
* E = int (rho u^2/2 + p/(gamma-1)) dV and M = int rho dV over [r_in, r_shock] with dV = dr, 2 pi r dr, 4 pi r^2 dr
  (the documented convention of sedov/__init__.py: planar eblast is the energy of the half space r >= 0);
* ahead of the shock the state must be rho0 r^-omega, u = p = 0.

Quadrature (written here, nothing imported from the code under test).  The solver interpolates linearly on
linspace(0, max(r), 3001) (documented resolution), so
  - the bulk is integrated on the 3001 nodes of one dense call whose largest radius is the last located point
    *behind* the shock (all nodes are then genuine similarity-solution values, no cell straddles the shock), cell by
    cell with the exact integral of the local power law A s^b through the two nodal values (s = r - r_in);
  - the inner 1 % layer, where rho ~ s^b with b down to -0.6 (vacuum boundary) or rho ~ r^((j-gamma w)/(gamma-1))
    (origin), is integrated by Gauss-Legendre in ln s on values from two-point calls [x, 3000 x] (x is then a node of the
    internal grid, so the value is not interpolated), and the part below 1e-6 of the shell by the analytic integral of
    the local power law.
"""
import math

import numpy as np

from xpmc import lattice, oracle
from xpmc.engine import Digest
from xpmc.solvers import construct, call, Inadmissible

ID = "C11"
LEVEL = "exploration"
TECHNIQUE = ("bounded exhaustive enumeration of the Sedov parameter lattice on the real solver with a singularity-aware "
             "quadrature of the returned fields (explicit-state exploration, mode L)")
CLAIM = ("Every Sedov parameter vector of the stated lattice (geometry x gamma x symbolic omega chosen on each side of every "
         "code-visible branch: standard, singular, vacuum, origin-singular, omega2/omega3 special values and their "
         "neighbours; rho0; eblast) is constructed and called at every lattice time; the shock is located from the returned "
         "fields, kinetic+internal energy and mass are integrated over the region behind it with the documented volume "
         "element and compared with eblast and with the mass of the initial profile inside the shock radius, and the state "
         "ahead is compared with rho0 r^-omega, u=p=0.  Exhaustive over the stated lattice; right level because the property "
         "is an integral identity whose failure modes are wrong parameter-dependent formulas (alpha normalisation, shock "
         "exponent, similarity functions), which the lattice exposes.")
LEVEL_NOTE = ("trusted: numpy, the quadrature written in props/C11.py; assumed: the documented internal grid "
              "linspace(0, max(r), 3001) (a two-point batch [x, 3000x] has x as a node; the run aborts as a harness fault if "
              "dense and two-point values disagree), parameter values between lattice values are not seen, the solver's "
              "documented small-radius interpolation in the standard case is within tolerance (measured <= 2e-4 of the mass)")
BOUND = {"quick": "all vectors with <=2 deviations from the default plus every geometry x gamma x omega-tag triple; times 0.3, 1, 2.2",
         "thorough": "full product geometry x gamma x omega-tag x rho0 x eblast; times 0.3, 1, 2.2"}
RULE = ("tasks = parameter vectors; per vector every lattice time; an evaluation is one public solver call (two-point calls "
        "of the bisections and of the layer quadrature, the dense 3001-node call, the ahead-of-shock call); a case "
        "(vector, time) is non-trivial when a shock was located from the fields and both integrals are positive and finite; "
        "distinct by (vector, time)")
ASSUMPTIONS = [
    "values outside the parameter/time alphabets are not explored (omega -> geometry, where the vacuum-boundary singularity stops being integrable in double precision, is outside the lattice)",
    "planar eblast is the energy of the half space r >= 0 and dV = dr, 2 pi r dr, 4 pi r^2 dr (sedov/__init__.py)",
    "the internal grid is linspace(0, max(r), 3001) (documented resolution); two-point batches [x, 3000x] return the node value at x",
    "parameter vectors whose construction or call raises are counted (constructor ValueError = inadmissible; anything else is C20's business), not judged here",
]

G53 = 5.0 / 3.0
ALPHABET = {
    "geometry": [3, 1, 2],
    "gamma": [1.4, 1.2, G53, 3.0],
    "omega": [0.0, "0.4j", "singular-", "vacuum", "standard_hi", "origin_singular", "omega3", "omega3-", "omega2",
              "omega2+", "singular"],
    "rho0": [1.0, 2.5],
    "eblast": [0.851072, 3.0],
}
TIMES = [0.3, 1.0, 2.2]
SOLVER = "sedov.sedov.Sedov"

# Tolerances (class C: 3001-point linear interpolation; documented small-radius interpolation in the standard case).
# Calibration on the thorough lattice of the unchanged tree (528 vectors x 3 times, 2160 integrals): worst energy residual
# 1.42e-5 (singular-type closed form used 1e-5 away from the exactly singular omega; regular cases 1e-9..2e-6), worst mass
# residual 1.51e-4 (planar, gamma = 1.2, omega = 0: the solver's documented linear interpolation of the density to the
# origin inside r < 0.3 r_s), ahead density 0 at nodes and 1.4e-6 between nodes, ahead u, p exactly 0.
# Seeded defects (mutants/C11): 7e-2 .. 0.47 on the energy, 0.6 on the ahead density.
TOL_E = 3.0e-4
TOL_M = 2.0e-3
TOL_AHEAD_NODE = 1.0e-10       # rho0 r^-omega at grid nodes / two-point calls (node value to 1e-12): pure formula
TOL_AHEAD_ZERO = 1.0e-12       # |u|, |p| ahead relative to the post-shock values (exact zeros expected)
TOL_AHEAD_INTERP = 1.0e-4      # between nodes: linear interpolation of r^-omega, <= w(w+1)/8 (h/r)^2 = 1.5e-6 at rmax = 3 r_s
NGRID = 3000                   # documented internal resolution (3001 nodes)
EPS = 1.0e-12                  # offset of the two-point sentinel (see Probe.point2)
LAYER = 1.0e-2                 # inner layer thickness / shell thickness
S0 = 1.0e-6                    # analytic tail below S0 * shell thickness
GL_N = 12
GL_PANELS = 4


def omega_value(tag, j, g):
    """Symbolic density exponents -> numbers (None = the tag does not exist for this (geometry, gamma))."""
    if isinstance(tag, (int, float)):
        return float(tag)
    ws = (3.0 * j - 2.0 + g * (2.0 - j)) / (g + 1.0)          # singular: v2 == v*
    w2 = (2.0 * (g - 1.0) + j) / g                             # denom2 == 0
    w3 = j * (2.0 - g)                                         # denom3 == 0
    wo = j / g                                                 # standard type, density diverges at the origin above it
    if tag == "origin_singular":
        return 0.5 * (wo + ws) if ws - wo > 2e-3 else None
    return {"0.4j": 0.4 * j, "singular": ws, "singular-": ws - 1e-5, "vacuum": min(0.5 * (ws + j), ws + 0.3),
            "standard_hi": 0.8 * ws, "omega2": w2, "omega2+": w2 + 2e-3, "omega3": w3, "omega3-": w3 - 2e-3}[tag]


def tasks(tier, seed):
    if tier == "thorough":
        devs = lattice.enumerate_checked(ALPHABET, len(ALPHABET))
    else:
        devs = lattice.enumerate_checked(ALPHABET, 2)
        seen = {tuple(sorted((k, str(v)) for k, v in d.items())) for d in devs}
        sub = {k: ALPHABET[k] for k in ("geometry", "gamma", "omega")}
        for d in lattice.enumerate_checked(sub, 3):
            key = tuple(sorted((k, str(v)) for k, v in d.items()))
            if key not in seen:
                seen.add(key)
                devs.append(d)
    return [{"dev": d} for d in devs]


# ----------------------------------------------------------------------------------------------- observation

class SolverCallError(Exception):
    """A public solver call raised (C20's business: counted here, not judged)."""


class Probe:
    """Public calls on one solver at one time, counted and digested."""

    def __init__(self, s, t, dg):
        self.s, self.t, self.dg, self.n = s, t, dg, 0

    def fields(self, r):
        try:
            sol = call(self.s, np.asarray(r, float), self.t)
        except Exception as ex:
            raise SolverCallError(type(ex).__name__)
        self.n += 1
        out = tuple(np.asarray(sol[k], float) for k in ("density", "velocity", "pressure"))
        self.dg.add(*out)
        return out

    def point2(self, x):
        """Values at x and at the next internal node above it, from the batch [x, 2x(1-e), 3000x(1-e)], e = 1e-12.
        The internal grid linspace(0, 3000x(1-e), 3001) has the node x(1-e) immediately below x, so the value returned
        at x is that node's value plus e times the difference to the next node (the sentinel is kept a hair below 3000x
        so that x never falls into the cell [0, x], whose other end is the -- possibly infinite -- origin value)."""
        d, u, p = self.fields(np.array([x, 2.0 * x * (1.0 - EPS), float(NGRID) * x * (1.0 - EPS)]))
        return (float(d[0]), float(u[0]), float(p[0])), (float(d[1]), float(u[1]), float(p[1]))

    def point(self, x):
        return self.point2(x)[0]

    def cleaned(self, x):
        """Values at x with the interpolation admixture of the next node removed: a field smaller than 100 e times its
        value at the next node is an exact zero of the node below x (vacuum hole, or u = p = 0 ahead of the shock)."""
        v, w = self.point2(x)
        return tuple(0.0 if abs(a) <= 100.0 * EPS * abs(b) else a for a, b in zip(v, w))

    def state(self, x):
        d, u, p = self.cleaned(x)
        if u != 0.0 or p != 0.0:
            return "shell"
        return "hole" if d == 0.0 else "ahead"


def bisect(pred, a, b, iters=80):
    """pred(a) is True, pred(b) is False; returns the last True and first False abscissae."""
    for _ in range(iters):
        m = 0.5 * (a + b)
        if not (a < m < b):
            break
        if pred(m):
            a = m
        else:
            b = m
        if b - a <= 4e-16 * b:
            break
    return a, b


def locate_shock(P):
    """(lo, hi): adjacent radii with lo behind and hi ahead of the shock, from the returned fields only."""
    x = 1.0
    st = P.state(x)
    if st == "ahead":
        for _ in range(200):
            x *= 0.5
            st = P.state(x)
            if st != "ahead":
                break
        else:
            return None
        inner, outer = x, 2.0 * x
    else:
        for _ in range(200):
            x *= 2.0
            if P.state(x) == "ahead":
                break
        else:
            return None
        inner, outer = 0.5 * x, x
    if P.state(inner) != "shell":
        # inner is inside the vacuum hole: look for a shell point between it and the point ahead
        found = None
        for n in (8, 64, 512):
            for q in np.geomspace(inner, outer, n + 2)[1:-1]:
                if P.state(float(q)) == "shell":
                    found = float(q)
                    break
            if found:
                break
        if not found:
            return None
        inner = found
    lo, hi = bisect(lambda q: P.state(q) != "ahead", inner, outer)
    # point(q) reads the node q (1 - 1e-12): step back so that lo itself is certainly behind the shock
    return lo * (1.0 - 4.0e-12), hi


def vol(j, r):
    return 1.0 if j == 1 else (2.0 * math.pi * r if j == 2 else 4.0 * math.pi * r * r)


def powerlaw_cells(s, f):
    """Sum over cells of the exact integral of the power law through the two end values (trapezoid where a value <= 0)."""
    s1, s2, f1, f2 = s[:-1], s[1:], f[:-1], f[1:]
    ok = (f1 > 0) & (f2 > 0) & (s1 > 0)
    with np.errstate(all="ignore"):
        b = np.log(f2 / f1) / np.log(s2 / s1)
        pl = np.where(np.abs(b + 1.0) < 1e-9, f1 * s1 * np.log(s2 / s1), (f2 * s2 - f1 * s1) / (b + 1.0))
    trap = 0.5 * (f1 + f2) * (s2 - s1)
    return float(np.where(ok & np.isfinite(pl), pl, trap).sum())


def integrands(j, g, r, d_, u_, p_):
    v = vol(j, r)
    return (0.5 * d_ * u_ * u_ + p_ / (g - 1.0)) * v, d_ * v


def first_cell(r1, r2, f1, f2):
    """Integral over [0, r1] of the power law through (r1, f1), (r2, f2); (value, exponent)."""
    if not (f1 > 0 and f2 > 0):
        return 0.5 * max(f1, 0.0) * r1, 0.0
    b = math.log(f2 / f1) / math.log(r2 / r1)
    if b <= -0.98:
        return float("inf"), b           # not integrable: the integral of the returned profile does not exist
    return f1 * r1 / (b + 1.0), b


def dense_nodes(P, lo):
    nodes = np.linspace(0.0, lo, NGRID + 1)
    return (nodes,) + P.fields(nodes)


def locate_hole(P, nodes, d, u, p):
    """Vacuum hole of the returned fields: a run of >= 3 nodes above the origin with rho = u = p = 0 exactly.
    Returns 0.0 (no hole) or the smallest located radius with p > 0."""
    empty = (d == 0.0) & (u == 0.0) & (p == 0.0)
    k = 1
    while k < len(nodes) - 1 and empty[k]:
        k += 1
    if k < 4:
        return 0.0
    _, r_in = bisect(lambda q: P.cleaned(q)[2] <= 0.0, float(nodes[k - 1]), float(nodes[k]))
    return r_in


def integrals(P, j, g, lo, r_in, nodes, d, u, p):
    """Energy and mass of the returned fields over [r_in, lo]; returns dict with the pieces."""
    L = lo - r_in
    fe, fm = integrands(j, g, nodes, d, u, p)
    if r_in == 0.0:
        # standard / singular type: the 3001 nodes down to the first, the cell [0, h] from the local power law
        bulkE, bulkM = powerlaw_cells(nodes[1:], fe[1:]), powerlaw_cells(nodes[1:], fm[1:])
        tE, bE = first_cell(nodes[1], nodes[2], fe[1], fe[2])
        tM, bM = first_cell(nodes[1], nodes[2], fm[1], fm[2])
        layE = layM = 0.0
        k1 = 1
    else:
        k1 = int(np.searchsorted(nodes, r_in + LAYER * L, side="left"))
        k1 = min(max(k1, 1), NGRID - 2)
        s1 = nodes[k1] - r_in
        sb = nodes[k1:] - r_in
        bulkE, bulkM = powerlaw_cells(sb, fe[k1:]), powerlaw_cells(sb, fm[k1:])
        # inner layer: Gauss-Legendre in y = ln s on [ln(S0 L), ln s1], values from two-point calls (node values)
        xg, wg = np.polynomial.legendre.leggauss(GL_N)
        edges = np.linspace(math.log(S0 * L), math.log(s1), GL_PANELS + 1)
        layE = layM = 0.0
        for a, b in zip(edges[:-1], edges[1:]):
            ym, yr = 0.5 * (a + b), 0.5 * (b - a)
            for xi, wi in zip(xg, wg):
                sv = math.exp(ym + yr * xi)
                e_, m_ = integrands(j, g, r_in + sv, *P.point(r_in + sv))
                layE += wi * yr * e_ * sv
                layM += wi * yr * m_ * sv
        # analytic tail below S0 L from the local power law through s0 and 2 s0
        s0 = S0 * L
        ea, ma = integrands(j, g, r_in + s0, *P.point(r_in + s0))
        eb, mb = integrands(j, g, r_in + 2.0 * s0, *P.point(r_in + 2.0 * s0))
        tE, bE = first_cell(s0, 2.0 * s0, ea, eb)
        tM, bM = first_cell(s0, 2.0 * s0, ma, mb)
    # the dense call and the two-point calls must see the same similarity solution (grid assumption of this module)
    chk = 0.0
    for frac in (0.6, 0.8, 0.95):
        k = int(round((r_in + frac * L) / lo * NGRID))
        k = min(max(k, k1), NGRID - 1)
        dd, uu, pp = P.point(float(nodes[k]))
        chk = max(chk, float(oracle.mismatch(np.array([dd, uu, pp]), np.array([d[k], u[k], p[k]])).max()))
    return {"E": tE + layE + bulkE, "M": tM + layM + bulkM, "tailE": tE, "tailM": tM, "layerE": layE, "layerM": layM,
            "bulkE": bulkE, "bulkM": bulkM, "bE": bE, "bM": bM, "grid_check": chk,
            "post": (float(d[-1]), float(u[-1]), float(p[-1]))}


def ahead_checks(P, cfg, om, lo, hi, post):
    """Undisturbed state ahead of the shock: list of (clause, value, tol, detail)."""
    rho0 = cfg["rho0"]
    out = []
    us, ps = abs(post[1]), abs(post[2])
    # (a) one natural dense batch reaching 3 r_s: grid nodes beyond the cell that contains the shock, and mid-cells
    rmax = 3.0 * hi
    nodes = np.linspace(0.0, rmax, NGRID + 1)
    k0 = int(np.searchsorted(nodes, hi, side="right")) + 1
    ks = np.unique(np.linspace(k0, NGRID, 32).astype(int))
    rn = nodes[ks]
    rm = 0.5 * (nodes[ks[:-1]] + nodes[ks[:-1] + 1])
    batch = np.concatenate([rn, rm])
    d, u, p = P.fields(batch)
    ref = rho0 * batch ** (-om)
    mm = oracle.mismatch(d, ref)
    nn = len(rn)
    i = int(np.argmax(mm[:nn]))
    out.append(("sedov:ahead-density", float(mm[:nn].max()), TOL_AHEAD_NODE,
                {"r": float(batch[i]), "returned": float(d[i]), "expected": float(ref[i]), "kind": "grid nodes, dense batch to 3 r_s"}))
    i = nn + int(np.argmax(mm[nn:]))
    out.append(("sedov:ahead-density-between-nodes", float(mm[nn:].max()), TOL_AHEAD_INTERP,
                {"r": float(batch[i]), "returned": float(d[i]), "expected": float(ref[i])}))
    worst_up = max(float(np.abs(u).max()) / us if us > 0 else float(np.abs(u).max()),
                   float(np.abs(p).max()) / ps if ps > 0 else float(np.abs(p).max()))
    # (b) immediately ahead of the shock and in the far field (two-point calls: node values)
    for x in (hi, 1.5 * hi, 10.0 * hi, 1.0e3 * hi, 1.0e6 * hi):
        dd, uu, pp = P.point(x)
        m = float(oracle.mismatch(np.array([dd]), np.array([rho0 * x ** (-om)]))[0])
        if m > out[0][1]:
            out[0] = ("sedov:ahead-density", m, TOL_AHEAD_NODE,
                      {"r": x, "returned": dd, "expected": rho0 * x ** (-om), "kind": "two-point call"})
        worst_up = max(worst_up, abs(uu) / us if us > 0 else abs(uu), abs(pp) / ps if ps > 0 else abs(pp))
    out.append(("sedov:ahead-velocity-pressure-zero", worst_up, TOL_AHEAD_ZERO, {"scale_u": us, "scale_p": ps}))
    return out


def run_task(task):
    cfg = lattice.full_cfg(ALPHABET, task["dev"])
    j, g = cfg["geometry"], cfg["gamma"]
    dg = Digest()
    res = {"evals": 0, "nontrivial": [], "violations": [], "counters": {}, "sample": None}
    C = res["counters"]
    om = omega_value(cfg["omega"], j, g)
    if om is None or not (0.0 <= om < j):
        C["omega_tag_outside_[0,geometry)"] = 1
        res["digest"] = dg.add("no-such-omega").hex()
        return res
    real = dict(cfg, omega=om)
    try:
        s = construct(SOLVER, real)
    except Inadmissible:
        C["inadmissible_vectors"] = 1
        res["digest"] = dg.add("inadmissible").hex()
        return res
    except Exception as ex:
        C["construct_exceptions"] = 1
        C["cexc:%s:%s" % (cfg["omega"], type(ex).__name__)] = 1
        res["digest"] = dg.add("cexc", type(ex).__name__).hex()
        return res
    vf = vol(j, 1.0)
    for t in TIMES:
        P = Probe(s, t, dg)
        try:
            br = locate_shock(P)
            if br is None:
                raise RuntimeError("no shock found in the returned fields")
            lo, hi = br
            nodes, dA, uA, pA = dense_nodes(P, lo)
            r_in = locate_hole(P, nodes, dA, uA, pA)
            if r_in > 0.0:
                C["vacuum_holes_located"] = C.get("vacuum_holes_located", 0) + 1
            I = integrals(P, j, g, lo, r_in, nodes, dA, uA, pA)
            ah = ahead_checks(P, cfg, om, lo, hi, I["post"])
        except SolverCallError as ex:      # a raising public call is C20's business; counted, not judged
            res["evals"] += P.n
            C["call_exceptions"] = C.get("call_exceptions", 0) + 1
            key = "exc:%s:%s" % (cfg["omega"], ex.args[0])
            C[key] = C.get(key, 0) + 1
            dg.add("exc", ex.args[0])
            continue
        res["evals"] += P.n
        if I["grid_check"] > 1e-3:
            # the values of the dense call at its own grid nodes and the values of two-point calls placed on those nodes are
            # both 'the returned solution at that radius'; the unchanged code agrees to rounding.  A disagreement means the
            # returned profile depends on the batch far beyond the documented 3001-point resolution, so 'the integral of the
            # returned solution' is not even defined: reported as a violation (it was a harness error until the seeded change
            # S-C11-3, a root bracket that collapses the vacuum-type profile to a ramp, showed it can be the code's doing);
            # the integrals below are still judged on the dense call
            res["violations"].append({"solver": "Sedov", "cfg": cfg, "clause": "sedov:profile-depends-on-batch-beyond-resolution",
                                      "where": {"t": t}, "value": float(I["grid_check"]), "tol": 1e-3,
                                      "detail": {"note": "dense-call node values vs two-point-call values"}})
        E0 = cfg["eblast"]
        M0 = cfg["rho0"] * vf * lo ** (j - om) / (j - om)
        checks = [("sedov:energy-behind-shock", float(oracle.mismatch(np.array([I["E"]]), np.array([E0]))[0]), TOL_E,
                   {"integral": I["E"], "eblast": E0, "tail": I["tailE"], "layer": I["layerE"], "bulk": I["bulkE"]}),
                  ("sedov:mass-behind-shock", float(oracle.mismatch(np.array([I["M"]]), np.array([M0]))[0]), TOL_M,
                   {"integral": I["M"], "initial_mass_inside_shock": M0, "tail": I["tailM"], "layer": I["layerM"],
                    "bulk": I["bulkM"]})] + ah
        for clause, val, tol, det in checks:
            C["max1e9:" + clause] = max(C.get("max1e9:" + clause, 0), int(min(val, 1.0) * 1e9) if val == val else 10 ** 9)
            if not (val <= tol):
                det = dict(det, r_shock=lo, r_inner=r_in, omega=om)
                res["violations"].append({"solver": "Sedov", "cfg": dict(cfg, omega_value=om), "clause": clause,
                                          "where": {"t": t}, "value": val, "tol": tol, "detail": det})
        if I["E"] > 0 and I["M"] > 0 and math.isfinite(I["E"]) and math.isfinite(I["M"]):
            res["nontrivial"].append("%s|%g" % (sorted((k, str(v)) for k, v in task["dev"].items()), t))
        C["integrals_evaluated"] = C.get("integrals_evaluated", 0) + 2
        C["solution_type:" + str(getattr(s, "solution_type", "?")) + "/" + str(getattr(s, "special_singularity", "?"))] = \
            C.get("solution_type:" + str(getattr(s, "solution_type", "?")) + "/" + str(getattr(s, "special_singularity", "?")), 0) + 1
        if res["sample"] is None:
            res["sample"] = {"cfg": cfg, "omega": om, "t": t, "r_shock_located": lo, "r_inner": r_in,
                             "E_integral": I["E"], "eblast": E0, "M_integral": I["M"], "M_initial": M0,
                             "public_calls": P.n}
    res["digest"] = dg.hex()
    return res


def postprocess(agg, tier):
    """The 'max1e9:' counters are maxima, not sums: recompute them over the tasks and report as worst residuals."""
    worst = {}
    for r in agg["results"]:
        if not r:
            continue
        for k, v in r["counters"].items():
            if k.startswith("max1e9:"):
                worst[k[7:]] = max(worst.get(k[7:], 0), v)
    for k in list(agg["counters"]):
        if k.startswith("max1e9:"):
            del agg["counters"][k]
    return {"worst_residual": {k: v * 1e-9 for k, v in sorted(worst.items())}}
