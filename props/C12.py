"""C12 -- radiative shocks are steady travelling waves conserving total fluxes.

Mode L over the constructor lattice of ED_Solver, nED_Solver (closures nED, LM_nED, FLD_LP, FLD_1, FLD_2, FLD_poly),
Sn_Solver and ie_Solver (the same wrapper, no radiation).  For every constructed solver:

(i)   travelling wave: F(xi, t) := solver(xi + M0*c0*t, t) must not depend on t, with the upstream sound speed
      c0 = sqrt(gamma (gamma-1) Cv Tref) formed from the *user's* parameters, at ~200 profile abscissae, every returned
      field; and at t = 0 the returned fields are the steady profile held in the public attributes (mirrored, as the
      wrappers document by construction: upstream at +x, the front moving towards it);
(ii)  along the whole profile (public attributes Density, Speed, Pressure, Tm, Tr, Fr [, VEF]) the nondimensional mass
      flux rho u, momentum flux rho u^2 + p + P0 f Tr^4 and energy flux u (rho u^2/2 + rho e + p) + P0 C0 F are constant
      (radshocks/__init__.py), nondimensionalised with rho0, c0, P0 = ar Tref^4/(rho0 c0^2), C0 = c/c0 from the user's
      parameters;
(iii) the first (upstream) state is the user's reference state, both end states are in equilibrium (Tm = Tr, no
      comoving radiation flux) and are related by the radiation-modified jump relations written with E = T^4, f = 1/3.

Nothing is imported from the code under test except the solver classes; the constants c and ar are the documented
values of radshock.py.
"""
import math

import numpy as np

from xpmc import lattice, oracle
from xpmc.engine import Digest
from xpmc.solvers import construct, call, Inadmissible

ID = "C12"
LEVEL = "exploration"
TECHNIQUE = ("bounded exhaustive enumeration of deviation-bounded constructor lattices of the radiative-shock solvers with "
             "flux-balance and translation oracles on every profile (explicit-state exploration, mode L)")
CLAIM = ("Every parameter vector within K deviations of the default (ED_Solver: K=2 in both tiers; nED_Solver with its six "
         "closures and ie_Solver: K=1 quick, K=2 thorough), and the listed Mach numbers of Sn_Solver, is constructed; on each the time-translation "
         "with the upstream sound speed formed from the user's gamma, Cv, Tref is checked at every lattice time on ~200 "
         "profile points and all returned fields, the three total fluxes are formed on every node of the public profile and "
         "compared with their upstream values, and the end states are checked for equilibrium and the radiation-modified "
         "jump relations.  Exhaustive over the stated lattice; right level because the property is a set of algebraic "
         "identities whose failure modes are parameter-dependent (a constant frozen at its default, a closure-specific "
         "term), which deviation bounding exposes.")
LEVEL_NOTE = ("trusted: numpy, the transcription of the nondimensional flux sums of radshocks/__init__.py in props/C12.py, the "
              "documented constants c and a_r; the Eddington factor of the FLD closures is not public and is read from the "
              "solver's internal profile (Pr/Er), that of Sn from the public attribute VEF; assumed: parameter values between "
              "lattice values are not seen; vectors for which the solver raises are counted, not judged")
BOUND = {"quick": "K=2 deviations from the default vector of ED_Solver, K=1 of nED_Solver and ie_Solver; Sn_Solver default only; times 0, 1e-9, 3e-9",
         "thorough": "K=2 deviations; Sn_Solver at M0 in {1.2, 2}; times 0, 1e-9, 3e-9"}
RULE = ("tasks = parameter vectors with <=K deviations from each family's default; per vector: one construction, one public "
        "call per lattice time plus one at t=0 on the profile nodes (an evaluation is one public call); flux sums on every "
        "profile node; a case (family, vector) is non-trivial when the profile is not uniform (density varies by > 1e-3 "
        "between its ends) -- every produced shock is; distinct by (family, vector)")
ASSUMPTIONS = [
    "values outside the parameter/time alphabets are not explored",
    "nondimensionalisation per radshocks/__init__.py: rho0, c0 = sqrt(gamma(gamma-1) Cv Tref), P0 = a_r Tref^4/(rho0 c0^2), C0 = c/c0 from the user's parameters; a_r = 137.20172 erg/cm^3/eV^4, c = 2.99792458e10 cm/s (documented in radshock.py)",
    "the attribute Fr is (radiation flux)/c0, i.e. Fr/(rho0 c0^2) = P0 C0 F (the convention of the package's own conservation tests)",
    "the Eddington factor is 1/3 for ED, nED, LM_nED, the public VEF for Sn, and Pr/Er of the internal profile for the FLD closures",
    "a constructor raising ValueError is an inadmissible vector; any other exception or a non-finite profile abscissa is counted (C20's business) and the vector skipped",
]

G53 = 5.0 / 3.0
C_LIGHT = 2.99792458e10        # cm/s            (radshock.py)
A_RAD = 137.20172              # erg/cm^3/eV^4   (radshock.py)
CV0 = 1.4472799784454e12

RS = {"M0": [1.2, 1.05, 2.0, 3.0, 5.0], "gamma": [G53, 1.4], "Cv": [CV0, 2.0 * CV0], "Tref": [100.0, 50.0],
      "rho0": [1.0, 3.0], "sigA": [577.35, 1732.05], "sigS": [0.0, 230.94], "expDensity_abs": [0.0, 1.0],
      "expTemp_abs": [0.0, -3.5]}
FAMILIES = {
    "ED_Solver": {"path": "radshocks.nED_radshocks.ED_Solver", "alphabet": dict(RS)},
    "nED_Solver": {"path": "radshocks.nED_radshocks.nED_Solver",
                   "alphabet": dict(RS, problem=["nED", "LM_nED", "FLD_LP", "FLD_1", "FLD_2", "FLD_poly"])},
    "ie_Solver": {"path": "radshocks.nED_radshocks.ie_Solver",
                  "alphabet": {"M0": [1.4, 1.2, 2.0], "gamma": [G53, 1.4], "Cv": [CV0, 2.0 * CV0], "Tref": [100.0, 50.0],
                               "rho0": [1.0, 3.0]}},
    "Sn_Solver": {"path": "radshocks.nED_radshocks.Sn_Solver", "alphabet": {"M0": [1.2, 2.0]}},   # M0 = 3 needs > 15 min
}
K = {"quick": 1, "thorough": 2}
TIMES = [0.0, 1.0e-9, 3.0e-9]

# Tolerances.  Calibration: thorough lattice (235 vectors, 219 solutions) on a worktree carrying the three candidate repairs of
# findings_proposed/C12.md (on the unchanged tree the same numbers hold outside the recorded findings): flux sums, EOS,
# upstream state, Tm=Tr, jump relations, t=0 anchoring <= 1e-12 for ED/nED/ie; translation <= 1e-12; ED upstream comoving
# flux 8.2e-10; FLD Eddington factor 1.3e-8 below 1/3; Sn: momentum 2.8e-8, Tm=Tr 2.4e-9, comoving flux 6.9e-9.
# Seeded defects (mutants/C12) and the recorded findings give 1e-6 .. 0.7.
TOL_FLUX_A = 1.0e-9      # flux sums are algebraic identities of the profile construction (measured <= 4e-15)
TOL_END_A = 1.0e-7       # end states are appended equilibrium states; measured on the thorough lattice: <= 1e-12 except the
                         # upstream comoving flux of ED_Solver, 8.2e-10 (1/dxdT at T = 1 is large, not infinite)
TOL_ANCHOR = 1.0e-9      # returned fields at t=0 on profile nodes vs attributes (np.interp at its own nodes)
TOL_TRANSLATE = 1.0e-6   # np.interp of a profile whose cells are down to 1e-10 wide, abscissae shifted by 0.05: rounding
TOL_SN = 1.0e-6          # Sn_Solver iterates the variable Eddington factor to f_tol = 1e-4 and interpolates it onto the
                         # profile abscissae: class B (measured: momentum 2.3e-9, end states 6.4e-9)
NPTS = 400


def tasks(tier, seed):
    out = []
    for name, f in FAMILIES.items():
        if name == "Sn_Solver":
            devs = [{}] if tier == "quick" else lattice.enumerate_checked(f["alphabet"], 1)
        elif name == "ED_Solver":
            # 1-2 s per vector: two deviations in both tiers (a closure that mixes the absorption and scattering exponents needs
            # sigS != 0 AND unequal exponents: seeded changes S-C12-2, S3-C12-2)
            devs = lattice.enumerate_checked(f["alphabet"], 2)
        else:
            devs = lattice.enumerate_checked(f["alphabet"], K[tier])
        for d in devs:
            out.append({"family": name, "dev": d})
    return out


def preimport():
    import exactpack.solvers.radshocks  # noqa: F401  (8 s of matplotlib: once in the parent, inherited by fork)


def reference(cfg):
    g, Cv, Tref, rho0 = cfg.get("gamma", G53), cfg.get("Cv", CV0), cfg.get("Tref", 100.0), cfg.get("rho0", 1.0)
    c0 = math.sqrt(g * (g - 1.0) * Cv * Tref)
    return {"gamma": g, "Cv": Cv, "Tref": Tref, "rho0": rho0, "c0": c0, "C0": C_LIGHT / c0,
            "P0": A_RAD * Tref ** 4 / (rho0 * c0 * c0), "M0": cfg["M0"]}


def eddington(name, s, n):
    """(f along the profile, how it was obtained)."""
    if name == "Sn_Solver":
        return np.asarray(s.VEF, float), "public VEF"
    prob = str(getattr(s, "problem", ""))
    if "FLD" in prob:
        inner = getattr(s, "_%s__prob" % type(s).__name__, None)
        prof = getattr(inner, "nED_profile", None)
        if prof is None or not hasattr(prof, "Pr") or not hasattr(prof, "Er"):
            return None, "FLD Eddington factor not available"
        return np.asarray(prof.Pr, float) / np.asarray(prof.Er, float), "internal Pr/Er"
    return np.full(n, 1.0 / 3.0), "1/3"


def flux_clauses(name, s, R):
    """List of (clause, value, tol, detail, where) from the public profile attributes."""
    g, rho0, c0, P0, C0, Tref, M0 = R["gamma"], R["rho0"], R["c0"], R["P0"], R["C0"], R["Tref"], R["M0"]
    TOL_FLUX, TOL_END = (TOL_SN, TOL_SN) if name == "Sn_Solver" else (TOL_FLUX_A, TOL_END_A)
    rho = np.asarray(s.Density, float) / rho0
    u = np.asarray(s.Speed, float) / c0
    p = np.asarray(s.Pressure, float) / (rho0 * c0 * c0)
    T = np.asarray(s.Tm, float) / Tref
    e = T / (g * (g - 1.0))
    n = len(rho)
    out = []

    def const(clause, total, parts):
        tol = TOL_FLUX
        scale = sum(np.abs(q) for q in parts)
        with np.errstate(all="ignore"):
            r = np.abs(total - total[0]) / np.where(scale > 0, scale, 1.0)
        r = np.where(np.isfinite(r), r, 1.0)
        i = int(np.argmax(r))
        bad = np.where(r > tol)[0]
        where = {} if not bad.size else {"nodes": "downstream-end-state-only" if (bad.size == 1 and bad[0] == n - 1) else "interior"}
        out.append((clause, float(r[i]), tol, {"node": i, "nodes": n, "value_there": float(total[i]), "upstream_value": float(total[0]),
                                               "x_there": float(np.asarray(s.x, float)[i]), "n_bad_nodes": int(bad.size)}, where))

    # upstream reference state is the user's
    up = max(abs(rho[0] - 1.0), abs(T[0] - 1.0), abs(u[0] - M0) / M0, abs(p[0] - 1.0 / g) * g)
    out.append(("state:upstream-is-user-reference", float(up), TOL_END,
                {"Density0/rho0": float(rho[0]), "Tm0/Tref": float(T[0]), "Speed0/(M0 c0)": float(u[0] / M0), "gamma*p0": float(p[0] * g)}))
    out.append(("eos:p=rho*T/gamma", float(oracle.mismatch(p, rho * T / g).max()), TOL_FLUX, {}))
    const("flux:mass", rho * u, [rho * u])
    if name == "ie_Solver":
        Fe = np.asarray(s.Fe, float)
        const("flux:momentum", rho * u * u + p, [rho * u * u, p])
        const("flux:energy", u * (0.5 * rho * u * u + rho * e + p) + Fe, [u * 0.5 * rho * u * u, u * rho * e, u * p, Fe])
        Ti, Te = np.asarray(s.Ti, float) / Tref, np.asarray(s.Te, float) / Tref
        eq = max(abs(Ti[0] - Te[0]), abs(Ti[-1] - Te[-1]), abs(T[0] - Te[0]), abs(T[-1] - Te[-1])) / max(T[-1], 1.0)
        out.append(("end:equilibrium-temperatures", float(eq), TOL_END, {}))
        scaleF = abs(u[0] * (0.5 * rho[0] * u[0] ** 2 + rho[0] * e[0] + p[0]))
        out.append(("end:no-heat-flux", float(max(abs(Fe[0]), abs(Fe[-1])) / scaleF), TOL_END, {"Fe_ends": [float(Fe[0]), float(Fe[-1])]}))
        return [c if len(c) == 5 else c + ({},) for c in out], rho
    th = np.asarray(s.Tr, float) / Tref if hasattr(s, "Tr") else T
    E = th ** 4
    F = np.asarray(s.Fr, float) / (C0 * A_RAD * Tref ** 4)
    f, how = eddington(name, s, n)
    if f is None:
        out.append(("flux:momentum-not-formed", 0.0, 1.0, {"why": how}))
    else:
        const("flux:momentum", rho * u * u + p + P0 * f * E, [rho * u * u, p, P0 * f * E])
        # a transport (Sn) Eddington factor lies in [0, 1]; a flux-limited-diffusion one in [1/3, 1]
        flo = 0.0 if name == "Sn_Solver" else 1.0 / 3.0
        out.append(("closure:eddington-factor-in-range", float(max(0.0, (flo - f).max(), (f - 1.0).max())), 1.0e-6,
                    {"min": float(f.min()), "max": float(f.max()), "allowed": [flo, 1.0], "source": how}))
    const("flux:energy", u * (0.5 * rho * u * u + rho * e + p) + P0 * C0 * F,
          [u * 0.5 * rho * u * u, u * rho * e, u * p, P0 * C0 * F])
    # end states: equilibrium and radiation-modified jump relations (E = T^4, f = 1/3, no comoving flux)
    eq = max(abs(T[0] - th[0]), abs(T[-1] - th[-1]) / T[-1])
    out.append(("end:Tm=Tr", float(eq), TOL_END, {"upstream": [float(T[0]), float(th[0])], "downstream": [float(T[-1]), float(th[-1])]}))
    fe = f if f is not None else np.full(n, 1.0 / 3.0)
    com = [C0 * F[k] - (1.0 + fe[k]) * u[k] * E[k] for k in (0, -1)]
    sc = [(1.0 + fe[k]) * u[k] * E[k] for k in (0, -1)]
    ends = [abs(com[0]) / sc[0], abs(com[1]) / sc[1]]
    which = [nm for nm, v in zip(("upstream", "downstream"), ends) if not (v <= TOL_END)]
    out.append(("end:no-comoving-radiation-flux", float(max(ends)), TOL_END,
                {"C0*F_ends": [float(C0 * F[0]), float(C0 * F[-1])], "(1+f)uE_ends": [float(sc[0]), float(sc[1])]},
                {"end": "+".join(which)} if which else {}))
    r1, T1, u1 = rho[-1], T[-1], u[-1]
    mom = oracle.relres(M0 * M0, 1.0 / g, P0 / 3.0, -r1 * u1 * u1, -r1 * T1 / g, -P0 * T1 ** 4 / 3.0)
    en = oracle.relres(M0 * (0.5 * M0 * M0 + 1.0 / (g - 1.0)), 4.0 * P0 * M0 / 3.0,
                       -u1 * (0.5 * r1 * u1 * u1 + r1 * T1 / (g - 1.0)), -4.0 * P0 * u1 * T1 ** 4 / 3.0)
    ms = oracle.relres(M0, -r1 * u1)
    out.append(("end:radiation-modified-jump", float(max(mom, en, ms)), TOL_END,
                {"mass": float(ms), "momentum": float(mom), "energy": float(en), "rho1": float(r1), "T1": float(T1)}))
    return [c if len(c) == 5 else c + ({},) for c in out], rho


FIELD_ATTR = {"temperature": "Tm", "temperature_mat": "Tm", "temperature_rad": "Tr", "temperature_ion": "Ti",
              "temperature_elec": "Te", "density": "Density", "velocity": "Speed", "pressure": "Pressure",
              "specific_internal_energy": "SIE", "rade": "RADE", "sound_speed": "Sound_Speed", "VEF": "VEF"}


def wave_clauses(name, s, R, dg, res):
    """Anchoring at t = 0 and translation invariance; list of (clause, value, tol, detail, where)."""
    out = []
    xi = -np.flip(np.asarray(s.x, float))            # mirrored abscissae: upstream at +x
    width = xi[-1] - xi[0]
    # (a) t = 0 on profile nodes (every k-th node so that at most ~4000 are used; ends included)
    step = max(1, len(xi) // 4000)
    idx = np.unique(np.append(np.arange(0, len(xi), step), len(xi) - 1))
    # nodes that coincide with a neighbour (the embedded hydrodynamic shock is a doubled abscissa) are left out
    d = np.diff(xi)
    dup = np.zeros(len(xi), bool)
    dup[:-1] |= d <= 0
    dup[1:] |= d <= 0
    idx = idx[~dup[idx]]
    sol0 = call(s, xi[idx], 0.0)
    res["evals"] += 1
    worst, wf, wi = 0.0, None, 0
    for fld in sol0.dtype.names:
        if fld == "position" or fld not in FIELD_ATTR or not hasattr(s, FIELD_ATTR[fld]):
            continue
        got = np.asarray(sol0[fld], float)
        dg.add(got)
        want = np.flip(np.asarray(getattr(s, FIELD_ATTR[fld]), float))[idx]
        m = oracle.mismatch(got, want, floor=1e-12)
        i = int(np.argmax(m))
        if m[i] > worst:
            worst, wf, wi = float(m[i]), fld, i
    out.append(("wave:t=0-is-the-steady-profile", worst, TOL_ANCHOR,
                {"field": wf, "x": float(xi[idx][wi]) if len(idx) else None, "nodes_compared": int(len(idx))}, {}))
    # (b) translation: F(q, t) = solver(q + M0 c0 t, t) independent of t.  Points: mid-cells chosen evenly by node index
    # (dense where the profile is steep) and evenly by position; cells narrower than 1e-10 of the width (the doubled
    # abscissa of an embedded shock) are left out
    mids = 0.5 * (xi[1:] + xi[:-1])
    ok = d > 1e-10 * width
    byidx = np.unique(np.linspace(0, len(mids) - 1, NPTS // 2).astype(int))
    pos = np.linspace(xi[0], xi[-1], NPTS // 2 + 2)[1:-1]
    bypos = np.clip(np.searchsorted(xi, pos) - 1, 0, len(mids) - 1)
    sel = np.unique(np.concatenate([byidx, bypos]))
    sel = sel[ok[sel]]
    q = mids[sel]
    speed = R["M0"] * R["c0"]
    c_default = math.sqrt(G53 * (G53 - 1.0) * CV0 * 100.0)      # sound speed of the class-default gamma, Cv, Tref

    def moved(v, t):
        sol = call(s, q + v * t, t)
        res["evals"] += 1
        cur = {fld: np.asarray(sol[fld], float) for fld in sol.dtype.names if fld != "position"}
        for fld in sorted(cur):
            dg.add(cur[fld])
        return cur

    def compare(cur, base):
        worst, wf, wi = 0.0, None, 0
        for fld in sorted(cur):
            m = oracle.mismatch(cur[fld], base[fld], floor=1e-9)
            i = int(np.argmax(m))
            if m[i] > worst:
                worst, wf, wi = float(m[i]), fld, i
        return worst, wf, wi

    # (c) beyond the tabulated extent the wave is in its far-upstream / far-downstream equilibrium state: points 0.5 and 2
    # profile widths outside either end, in the moving frame, at t = 0, the last lattice time and a late time (1e-6 s: the
    # wave has left any fixed grid by then) must return the profile's end value on that side (added after the seeded change
    # S2-C12-3, which swapped the two fill values)
    qfar = np.array([xi[0] - 2.0 * width, xi[0] - 0.5 * width, xi[-1] + 0.5 * width, xi[-1] + 2.0 * width])
    for t in (0.0, TIMES[-1], 1.0e-6):
        solf = call(s, qfar + speed * t, t)
        res["evals"] += 1
        worst, wf = 0.0, None
        for fld in solf.dtype.names:
            if fld == "position" or fld not in FIELD_ATTR or not hasattr(s, FIELD_ATTR[fld]):
                continue
            prof = np.flip(np.asarray(getattr(s, FIELD_ATTR[fld]), float))
            want = np.array([prof[0], prof[0], prof[-1], prof[-1]])
            got = np.asarray(solf[fld], float)
            dg.add(got)
            m = float(oracle.mismatch(got, want, floor=1e-12).max())
            if m > worst:
                worst, wf = m, fld
        out.append(("wave:far-field-is-the-end-state", worst, TOL_ANCHOR, {"field": wf, "offsets_in_profile_widths": [-2.0, -0.5, 0.5, 2.0]}, {"t": t}))
    base = None
    for t in TIMES:
        cur = moved(speed, t)
        if base is None:
            base = cur
            continue
        worst, wf, wi = compare(cur, base)
        clause = "wave:translates-at-M0*c0(user)"
        if worst > TOL_TRANSLATE and abs(c_default / R["c0"] - 1.0) > 1e-9:
            # reduced oracle for the recorded defect (sound speed frozen at the class defaults): the case counts as that
            # defect only if the profile IS steady when followed at M0 * c0(default parameters)
            if compare(moved(R["M0"] * c_default, t), base)[0] <= TOL_TRANSLATE:
                clause += "/moves-at-M0*c0(default-parameters)"
        out.append((clause, worst, TOL_TRANSLATE,
                    {"field": wf, "profile_abscissa": float(q[wi]), "at_t": float(cur[wf][wi]) if wf else None,
                     "at_0": float(base[wf][wi]) if wf else None, "speed_M0*c0": speed, "points": int(len(q)),
                     "solver_attribute_sound": float(getattr(s, "sound", float("nan"))), "c0_user": R["c0"]}, {"t": t}))
    return out


def run_task(task):
    name = task["family"]
    fam = FAMILIES[name]
    cfg = lattice.full_cfg(fam["alphabet"], task["dev"])
    dg = Digest()
    res = {"evals": 0, "nontrivial": [], "violations": [], "counters": {}, "sample": None}
    C = res["counters"]
    try:
        s = construct(fam["path"], cfg)
    except Inadmissible:
        C["inadmissible_vectors"] = 1
        C["declined:ValueError:%s:%s" % (name, sorted((k, str(v)) for k, v in task["dev"].items()))] = 1
        res["digest"] = dg.add("inadmissible").hex()
        return res
    except Exception as ex:          # the solver declines / fails to produce a solution: counted (C20's business)
        C["construct_exceptions"] = 1
        C["declined:%s:%s:%s" % (type(ex).__name__, name, sorted((k, str(v)) for k, v in task["dev"].items()))] = 1
        res["digest"] = dg.add("cexc", type(ex).__name__).hex()
        return res
    C["solutions_produced"] = 1
    R = reference(cfg)
    x = np.asarray(s.x, float)
    dg.add(x)
    checks = []
    bad_x = int((~np.isfinite(x)).sum())
    back = int((np.diff(x) < 0).sum()) if not bad_x else 0
    if bad_x:
        # no solution was produced (the quantifier is "for which a solution is produced"): the abscissae are NaN and every
        # returned field is NaN.  Counted, not judged -- silent NaN is C20's business
        C["no_solution:nonfinite_abscissae"] = 1
        C["no_solution:%s:%s" % (name, sorted((k, str(v)) for k, v in task["dev"].items()))] = 1
    else:
        if back:
            C["profiles_with_backward_steps"] = 1
        fl, rho = flux_clauses(name, s, R)
        checks += fl
        if int((np.diff(x) > 0).sum()) < 10:
            # a profile of zero extent (all abscissae equal): nothing travels; counted like a non-produced solution
            C["no_solution:zero_extent_profile"] = 1
            C["no_solution:%s:%s" % (name, sorted((k, str(v)) for k, v in task["dev"].items()))] = 1
        else:
            checks += wave_clauses(name, s, R, dg, res)
        for a in ("Density", "Speed", "Pressure", "Tm"):
            dg.add(np.asarray(getattr(s, a), float))
        if abs(rho[-1] - rho[0]) > 1e-3:
            res["nontrivial"].append("%s|%s" % (name, sorted((k, str(v)) for k, v in task["dev"].items())))
    for clause, val, tol, det, where in checks:
        key = "max1e12:%s:%s" % (name, clause)
        C[key] = max(C.get(key, 0), int(min(val, 1.0) * 1e12) if val == val else 10 ** 12)
        if not (val <= tol):
            res["violations"].append({"solver": name, "cfg": cfg, "clause": clause, "where": where, "value": val, "tol": tol,
                                      "detail": det})
    C["clauses_evaluated"] = len(checks)
    res["sample"] = {"family": name, "cfg": cfg, "c0_user": R["c0"], "P0": R["P0"], "C0": R["C0"], "profile_nodes": int(len(x)),
                     "clauses": {c: v for c, v, _, _, w in checks if not w}}
    res["digest"] = dg.hex()
    return res


def postprocess(agg, tier):
    worst = {}
    for r in agg["results"]:
        if not r:
            continue
        for k, v in r["counters"].items():
            if k.startswith("max1e12:"):
                worst[k[8:]] = max(worst.get(k[8:], 0), v)
    for k in list(agg["counters"]):
        if k.startswith("max1e12:"):
            del agg["counters"][k]
    return {"worst_residual": {k: v * 1e-12 for k, v in sorted(worst.items())}}
