"""C13 -- burn times are causal first-arrival times of a front moving at speed D.

Mode L: every parameter vector within K deviations of the default over the alphabets of xpmc/x_c13_burn.py
(Kenamond1 and the DSD cylindrical expansion: the full product; Kenamond2/3: K = 2 quick, K = 3 / full thorough),
restricted to the *documented* admissible set (a constructor ValueError = inadmissible vector, counted).  For each
vector: a polar point lattice (24 directions x 12 radii in 2D, 122 directions x 12 radii in 3D) including points on
every material interface, the detonators, points on the shadow boundary, and point pairs straddling every interface
and the shadow boundary at +-1e-9, 1e-6, 1e-3.

Oracle (written from the statement, nothing imported from the code under test):
  det        t(detonator) = t_d   (a detonator that another documented wave reaches first: t <= t_d)
  causal     t >= earliest detonation time, everywhere
  eikonal    |grad t| * D_local = 1 by 4th-order central differences in every coordinate at three steps (minimum
             residual over the steps); DSD: radial derivative * (D_CJ - alpha/r) = 1 and no tangential derivative
  local      |t(y) - t(x)| <= |y - x| / D for every stencil point y of every lattice point x (continuity *at* each
             lattice point, also for an isolated wrong value which central differences never look at)
  continuity the straddling pairs
  lipschitz  ALL pairs of lattice points whose connecting segment stays inside one explosive
"""
import math

import numpy as np

from xpmc import lattice
from xpmc import x_c13_burn as B
from xpmc.engine import Digest
from xpmc.solvers import construct, call, Inadmissible

ID = "C13"
LEVEL = "exploration"
TECHNIQUE = ("bounded exhaustive enumeration of deviation-bounded parameter lattices on the real burn-time solvers, "
             "every lattice point and every pair of lattice points judged by an independent oracle (explicit-state exploration, mode L)")
CLAIM = ("Every admissible parameter vector within K deviations of the default (Kenamond1, Kenamond3, DSD cylindrical expansion: the full "
         "product; Kenamond2: K=3 quick / K=4 thorough) is constructed and called on a "
         "polar point lattice with interface, detonator, shadow-boundary and straddling points; detonation-time, causality, eikonal "
         "(three finite-difference steps), continuity and the all-pairs Lipschitz consequence are evaluated on every point / pair. "
         "Exhaustive over the stated alphabet; right level because the property is a pointwise and pairwise invariant of closed-form "
         "fields whose failure modes are parameter- and region-dependent formulas, which lattice + region coverage exposes.")
LEVEL_NOTE = ("trusted: numpy, the geometry of props/C13.py and xpmc/x_c13_burn.py (regions, tangent lines, segment-sphere distance); "
              "assumed: defects confined to parameter values or points between lattice values are not seen")
BOUND = {"quick": "K=3 deviations (Kenamond2), full product (Kenamond1, Kenamond3, CylindricalExpansion)",
         "thorough": "K=4 deviations (Kenamond2), full product (Kenamond1, Kenamond3, CylindricalExpansion)"}
RULE = ("tasks = all parameter vectors with <=K deviations from the default over each family's alphabet; per vector one polar point "
        "lattice (288 points in 2D, 1464 in 3D) + detonators + shadow-boundary points + straddling pairs; an evaluation is one public "
        "solver call (a batch of points); a case (family, vector, lattice point) is non-trivial when the point lies in an explosive, "
        "away from detonators and interfaces, so that the gradient of the burn time was formed there and compared with 1/D_local; "
        "distinct by (task, point index)")
ASSUMPTIONS = [
    "values outside the parameter alphabets and points outside the lattices are not explored",
    "Kenamond2 vectors are restricted to the documented admissible set (outer detonators outside the inner sphere, detonation times above the documented bound); DSD vectors to r_i > alpha_i/D_CJ_i",
    "a detonator that another documented wave reaches before it fires (allowed by the documented conditions) is required to satisfy t <= t_d, not t = t_d",
    "at a lattice point lying on, or within a stencil width of, a locus where two arrival branches cross (gradient undefined; recognised from the returned values as a concave kink) the eikonal equation is evaluated on both sides of it, 1e-2 L away, instead",
]

# the quick tier is what used to be the thorough one (50 s on 12 cores); the thorough tier goes one deviation further for Kenamond2
K = {"quick": {"Kenamond1": 4, "Kenamond2": 3, "Kenamond3": 6, "CylindricalExpansion": 7},
     "thorough": {"Kenamond1": 4, "Kenamond2": 4, "Kenamond3": 6, "CylindricalExpansion": 7}}

STEPS = (1e-3, 1e-4, 1e-5)        # x L
# Tolerances (class A, closed form).  Measured on the thorough lattice of the unchanged tree (see report):
TOL_EIK = 1e-6                    # worst | |grad t| D - 1 | away from C1-not-C2 loci: 3.8e-11 (4th-order stencil, thorough lattice)
TOL_EIK_C1 = 1e-4                 # within 6e-3 L of Kenamond3's shadow boundary (t is C1, not C2 there): 1.2e-6; also used beside kinks
TOL_REL = 1e-9                    # relative slack of every inequality |dt| <= |dx|/D (exact up to rounding; no excess measured on 2.9e8 pairs)
TOL_ABS = 1e-13                   # x time scale; absolute rounding floor of a burn time
# Kenamond3 only: conditioning-aware absolute floor x_c13_burn.k3_cond_floor (arccos near 1 at the obstacle surface and on
# the axis behind the obstacle loses up to half the digits: measured 7.5e-9 one ulp off the surface, 2.2e-8 on the axis)
NEAR_DET = 30.0                   # a step h is used only where every detonator is >= 30 h away ((h/r)^4 truncation)


def tasks(tier, seed):
    out = []
    for fam in ("Kenamond1", "CylindricalExpansion", "Kenamond3", "Kenamond2"):
        for dev in lattice.enumerate_checked(B.ALPHABET[fam], K[tier][fam]):
            out.append({"family": fam, "dev": dev, "k": len(out)})
    return out


# ------------------------------------------------------------------------------------------------ helpers

def _norm(P):
    return np.sqrt(np.einsum("...j,...j->...", P, P))


def pair_speed(fam, c, P, Q):
    """Lower bound of the documented front speed on the straight segment P->Q (rows), for segments that stay in the
    explosive(s) their end points lie in (short stencil segments, straddling pairs)."""
    rp, rq = _norm(P), _norm(Q)
    if fam in ("Kenamond1", "Kenamond3"):
        return np.full(len(P), float(c["D"]))
    if fam == "Kenamond2":
        return np.where((rp < c["R"]) & (rq < c["R"]), float(c["D1"]), float(min(c["D1"], c["D2"])))
    lo = np.maximum(np.minimum(rp, rq), c["r_1"])
    hi = np.maximum(rp, rq)
    s1 = c["D_CJ_1"] - c["alpha_1"] / np.minimum(lo, c["r_2"])
    s2 = c["D_CJ_2"] - c["alpha_2"] / np.maximum(lo, c["r_2"])
    return np.where(hi < c["r_2"], s1, np.where(lo >= c["r_2"], s2, np.minimum(s1, s2)))


def seg_dmin(P, Q):
    """distance from the origin to the segments P[i]->Q[i]"""
    d = Q - P
    dd = np.einsum("ij,ij->i", d, d)
    with np.errstate(all="ignore"):
        s = np.clip(-np.einsum("ij,ij->i", P, d) / np.where(dd > 0, dd, 1.0), 0.0, 1.0)
    return _norm(P + s[:, None] * d)


class Field:
    """the real solver, called on batches; counts calls and points; skips points the documentation excludes"""

    def __init__(self, fam, c, solver, dg):
        self.fam, self.c, self.s, self.dg = fam, c, solver, dg
        self.calls = 0
        self.npts = 0

    def __call__(self, P):
        P = np.asarray(P, float)
        out = np.full(len(P), np.nan)
        ok = B.region(self.fam, self.c, P) >= 0 if self.fam == "Kenamond3" else np.ones(len(P), bool)
        if ok.any():
            try:
                sol = call(self.s, P[ok], 0.0)
            except ValueError:
                if self.fam != "Kenamond3":
                    raise
                # a point whose vectorised norm is >= R but whose row-wise dot-product norm is one ulp below R:
                # decide row by row the way the documentation words it (points inside the inert region are not evaluated)
                R = self.c["R"]
                ok = ok & np.array([math.sqrt(float(np.dot(v, v))) >= R for v in P])
                sol = call(self.s, P[ok], 0.0)
            out[ok] = np.asarray(sol["burntime"], float)
            self.calls += 1
            self.npts += int(ok.sum())
            self.dg.add(out[ok])
        return out


def stencil(P, L):
    """(N, 1 + 3*d*4, d) array: the point, then for every step and axis the offsets -2h, -h, +h, +2h"""
    N, d = P.shape
    offs = [np.zeros(d)]
    for f in STEPS:
        h = f * L
        for ax in range(d):
            for m in (-2.0, -1.0, 1.0, 2.0):
                e = np.zeros(d)
                e[ax] = m * h
                offs.append(e)
    offs = np.array(offs)
    return P[:, None, :] + offs[None, :, :]


def gradients(fam, c, P, F, L, dets):
    """For lattice points P (N,d) and values F (N, 1+12d) on stencil(P): per step the gradient (N,d) and whether the
    step is usable (whole stencil in the material of the centre, no NaN, detonators far enough)."""
    N, d = P.shape
    S = stencil(P, L)
    reg0 = B.region(fam, c, P)
    regS = B.region(fam, c, S.reshape(-1, d)).reshape(N, -1)
    ddet = np.full(N, np.inf)
    for xd, _ in dets:
        ddet = np.minimum(ddet, _norm(P - xd[None, :]))
    out = []
    for k, f in enumerate(STEPS):
        h = f * L
        sl = slice(1 + k * 4 * d, 1 + (k + 1) * 4 * d)
        usable = (reg0 >= 0) & (regS[:, sl] == reg0[:, None]).all(axis=1) & np.isfinite(F[:, sl]).all(axis=1) & (ddet >= NEAR_DET * h)
        G = np.zeros((N, d))
        for ax in range(d):
            j = 1 + k * 4 * d + ax * 4
            G[:, ax] = (F[:, j] - 8.0 * F[:, j + 1] + 8.0 * F[:, j + 2] - F[:, j + 3]) / (12.0 * h)
        out.append((h, usable, G))
    return S, out


def eik_residual(fam, c, P, G):
    """|grad t| D_local - 1 (Kenamond);  max(|dt/dr (D_CJ - alpha/r) - 1|, |tangential derivative| (D_CJ - alpha/r)) (DSD)"""
    D = B.local_speed(fam, c, P)
    if fam != "CylindricalExpansion":
        return np.abs(_norm(G) * D - 1.0)
    r = _norm(P)
    rh = P / r[:, None]
    gr = np.einsum("ij,ij->i", G, rh)
    gt = _norm(G - gr[:, None] * rh)
    return np.maximum(np.abs(gr * D - 1.0), gt * D)


def viol(fam, kw, clause, where, value, tol, **detail):
    return {"solver": fam, "cfg": kw, "clause": clause, "where": where, "value": float(value), "tol": float(tol), "detail": detail}


# ------------------------------------------------------------------------------------------------ the task

def run_task(task):
    fam = task["family"]
    c = B.full(fam, task["dev"])
    dg = Digest()
    res = {"evals": 0, "nontrivial": [], "violations": [], "counters": {}, "sample": None}
    C = res["counters"]

    def cnt(name, n=1):
        if n:
            C[name] = C.get(name, 0) + int(n)

    kw = B.kwargs(fam, c)
    if kw is None:
        cnt("outside_documented_admissible_set")
        res["digest"] = dg.add("undocumented").hex()
        return res
    try:
        s = construct(B.PATH[fam], kw)
    except Inadmissible:
        cnt("inadmissible_vectors")
        res["digest"] = dg.add("inadmissible").hex()
        return res
    d = B.dim(fam, c)
    L = float(B.length(fam, c))
    T = B.time_scale(fam, c)
    dets = B.detonators(fam, c)
    t0 = B.t_first(fam, c)
    field = Field(fam, c, s, dg)
    V = res["violations"]
    floor = TOL_ABS * T

    # ---------------------------------------------------------------- points
    P, ridx = B.polar_lattice(fam, c)
    extra = [xd for xd, _ in dets]
    rays = B.k3_shadow_rays(c) if fam == "Kenamond3" else []
    for a, tau, n in rays:
        for sfrac in (0.0, 0.3, 1.0, 2.5):
            extra.append(a + sfrac * c["R"] * tau)
    if extra:
        P = np.concatenate([P, np.array(extra)], axis=0)
    if fam == "Kenamond3":
        P = B.keep_outside(P, c["R"])
    N = len(P)
    reg = B.region(fam, c, P)
    axis = B.k3_axis_behind(c, P) if fam == "Kenamond3" else np.zeros(N, bool)
    cnt("lattice_points", N)
    cnt("points_on_axis_behind_obstacle", int(axis.sum()))

    # ---------------------------------------------------------------- values on the stencils (one call)
    S = stencil(P, L)
    F = field(S.reshape(-1, d)).reshape(N, -1)
    f0 = F[:, 0]

    # Kenamond3, points on the axis behind the obstacle: does a returned value equal the straight-ray time *through* the
    # obstacle (t_d + |p - x_d|/D)?  Only used to label a violation there (where.axis_value), never to excuse one.
    def straight_ray(Pts, vals):
        if fam != "Kenamond3":
            return np.zeros(len(Pts), bool)
        xd, td = dets[0]
        los = td + _norm(np.asarray(Pts, float) - xd[None, :]) / c["D"]
        return B.k3_axis_behind(c, Pts) & (np.abs(np.asarray(vals, float) - los) <= 1e-12 * T)

    sigS = straight_ray(S.reshape(-1, d), F.reshape(-1)).reshape(N, -1)
    sigL = sigS.any(axis=1)

    def axis_where(locus, flag):
        w = {"locus": locus}
        if locus == "axis_behind_obstacle":
            w["axis_value"] = "straight_ray_through_obstacle" if flag else "other"
        return w

    # ---------------------------------------------------------------- det: t(detonator) = t_d
    for i, (xd, td) in enumerate(dets):
        tv = float(field(xd[None, :])[0])
        # documented arrival of the other detonators' waves at this detonator (straight rays in the outer explosive;
        # detonator 3 through inner + outer explosive); only used to decide whether "=" or "<=" is demanded
        overrun = False
        if fam == "Kenamond2":
            for j, (xj, tj) in enumerate(dets):
                if j == i:
                    continue
                dist = float(np.linalg.norm(xd - xj))
                # documented t_4 for the wave of detonator 3, documented t_1, t_2, t_5, t_6 for the others
                arr = tj + c["R"] / c["D1"] + (dist - c["R"]) / c["D2"] if j == 2 else tj + dist / c["D2"]
                if arr < td + 1e-9 * T:
                    overrun = True
        if overrun:
            cnt("detonators_reached_before_firing")
            bad = tv - td
        else:
            bad = abs(tv - td)
        cnt("detonator_checks")
        if not bad <= 1e-12 * T:
            V.append(viol(fam, kw, "burn:detonator-time", {"detonator": i + 1}, bad if bad == bad else 1.0, 1e-12 * T,
                          t=tv, t_d=td, overrun=overrun))
    if fam == "CylindricalExpansion":
        U = B.unit_dirs(2)
        tv = field(c["r_1"] * U)
        bad = np.abs(tv - c["t_d"])
        cnt("detonator_checks", len(U))
        if not (bad <= 1e-12 * T).all():
            i = int(np.nanargmax(np.where(np.isnan(bad), np.inf, bad)))
            V.append(viol(fam, kw, "burn:detonator-time", {"detonator": "circle r_1"}, bad[i] if bad[i] == bad[i] else 1.0, 1e-12 * T,
                          t=float(tv[i]), t_d=c["t_d"], point=U[i] * c["r_1"]))

    # ---------------------------------------------------------------- causal: t >= earliest detonation, no NaN in the explosive
    inexp = reg >= 0
    allv = F[inexp]
    nanpts = np.isnan(f0) & inexp
    if nanpts.any():
        i = int(np.where(nanpts)[0][0])
        V.append(viol(fam, kw, "burn:finite", {"region": int(reg[i])}, 1.0, 0.0, point=P[i], n_points=int(nanpts.sum())))
    early = t0 - np.nanmin(np.where(np.isfinite(allv), allv, np.inf)) if allv.size else 0.0
    cnt("causality_points", int(np.isfinite(allv).sum()))
    if early > floor:
        V.append(viol(fam, kw, "burn:causal", {}, early, floor, earliest_detonation=t0))

    # ---------------------------------------------------------------- local Lipschitz on every stencil segment
    Sf = S.reshape(-1, d)
    Pc = np.repeat(P, S.shape[1], axis=0)
    dist = _norm(Sf - Pc)
    sp = pair_speed(fam, c, Pc, Sf)
    dt = np.abs(F.reshape(-1) - np.repeat(f0, S.shape[1]))
    # a stencil segment must not cut through the inert obstacle / the initiating circle is allowed (t = t_d inside)
    valid = np.isfinite(dt) & (dist > 0) & (sp > 0)
    ax_rep = np.repeat(axis, S.shape[1])
    cfl = B.k3_cond_floor(c, P) if fam == "Kenamond3" else np.zeros(N)        # per lattice point
    cfs = B.k3_cond_floor(c, Sf) if fam == "Kenamond3" else np.zeros(len(Sf))  # per stencil point
    bound = dist / np.where(sp > 0, sp, 1.0) * (1.0 + TOL_REL) + floor + np.repeat(cfl, S.shape[1]) + cfs
    exc = np.where(valid, dt - bound, -np.inf)
    cnt("local_segments", int(valid.sum()))
    # calibration: how much of the absolute rounding floor is used by the correct code (1e-6 units; > 1e6 would be a violation)
    cal = [0.0]

    def used(dt_, dist_, sp_, fl_, ok_):
        with np.errstate(all="ignore"):
            u_ = np.where(ok_, (dt_ - dist_ / np.where(sp_ > 0, sp_, np.inf)) / fl_, 0.0)
        u_ = u_[np.isfinite(u_)]
        if u_.size:
            cal[0] = max(cal[0], float(u_.max()))

    used(dt, dist, sp, floor + np.repeat(cfl, S.shape[1]) + cfs, valid & ~ax_rep)
    for locus, mask in (("axis_behind_obstacle", ax_rep), ("elsewhere", ~ax_rep)):
        e = np.where(mask, exc, -np.inf)
        if e.size and e.max() > 0:
            j = int(np.argmax(e))
            V.append(viol(fam, kw, "burn:local-lipschitz", axis_where(locus, sigL[j // S.shape[1]]), dt[j] * sp[j] / dist[j] - 1.0, TOL_REL,
                          point=Pc[j], neighbour=Sf[j], dt=dt[j], distance=dist[j], speed=sp[j], n_segments=int((e > 0).sum())))

    # ---------------------------------------------------------------- eikonal
    _, grads = gradients(fam, c, P, F, L, dets)
    best = np.full(N, np.inf)
    raw = np.full(N, np.inf)            # without the noise allowance: calibration statistic only
    nuse = np.zeros(N, int)
    for h, usable, G in grads:
        r = eik_residual(fam, c, P, G)
        r = np.where(np.isnan(r), np.inf, r)
        # rounding noise of the difference quotient where the documented formula is ill-conditioned (Kenamond3 only; cfl is
        # 4e-15 at generic points, up to 1e-7 R/D on the axis behind the obstacle): 16 values / (12 h), times D
        raw = np.where(usable, np.minimum(raw, r), raw)
        r = np.maximum(r - 1.5 * cfl * B.local_speed(fam, c, P) / h, 0.0)
        best = np.where(usable, np.minimum(best, r), best)
        nuse += usable
    tol = np.full(N, TOL_EIK)
    if rays:
        # distance to the shadow boundary (C1, not C2): the tangent cone from the detonator, beyond the tangent points
        dvec, lod, psi = B.k3_frame(c)
        w = P - (lod * dvec)[None, :]
        wl = _norm(w)
        with np.errstate(all="ignore"):
            ang = np.arccos(np.clip(-(w @ dvec) / np.where(wl > 0, wl, 1.0), -1.0, 1.0))
        half = 0.5 * math.pi - psi          # half opening angle of the tangent cone at the detonator
        near = (np.abs(ang - half) * wl <= 6e-3 * L) & (wl >= math.sqrt(lod ** 2 - c["R"] ** 2) - 6e-3 * L)
        tol = np.where(near, TOL_EIK_C1, tol)
        cnt("points_near_shadow_boundary", int(near.sum()))
    checked = nuse > 0
    cnt("eikonal_points", int(checked.sum()))
    cnt("eikonal_skipped_interface_or_detonator", int(((~checked) & inexp).sum()))
    failing = checked & (best > tol)
    # A failing point may lie on, or within a stencil width of, a locus where two arrival branches cross (the minimum of
    # two smooth arrival times: a *concave* kink, gradient undefined).  It is excused only if (a) the second difference
    # over a usable stencil is negative along some axis (concave; a convex kink would be a late arrival), and
    # (b) the eikonal equation holds on BOTH sides of it, 1e-2 L (or, if another kink sits there, 2.3e-2 L) away along
    # that axis.  A field that is wrong on an open set fails (b).
    kink = np.zeros(N, bool)
    kaxis = np.zeros(N, int)
    if failing.any():
        Dl = B.local_speed(fam, c, P)
        for i in np.where(failing)[0]:
            best_d2, best_ax = 0.0, 0
            for k, (h, usable, G) in enumerate(grads):          # any usable stencil that contains the kink sees it
                if not usable[i]:
                    continue
                for ax in range(d):
                    j = 1 + k * 4 * d + ax * 4
                    d2 = (F[i, j] + F[i, j + 3] - 2.0 * f0[i]) / (2.0 * h) * Dl[i]
                    if d2 < best_d2:
                        best_d2, best_ax = d2, ax
            if best_d2 < -1e-7:
                kink[i] = True
                kaxis[i] = best_ax
    cnt("kink_points", int(kink.sum()))
    bad = failing & ~kink
    if kink.any():
        idx = np.where(kink)[0]
        DISP = (1e-2, 2.3e-2)
        Q = []
        for i in idx:
            for sgn in (-1.0, 1.0):
                for dsp in DISP:
                    q = P[i].copy()
                    q[kaxis[i]] += sgn * dsp * L
                    Q.append(q)
        Q = np.array(Q)
        if fam == "Kenamond3":
            Q = B.keep_outside(Q, c["R"])
        FQ = field(stencil(Q, L).reshape(-1, d)).reshape(len(Q), -1)
        _, gq = gradients(fam, c, Q, FQ, L, dets)
        bq = np.full(len(Q), np.inf)
        nq = np.zeros(len(Q), int)
        cfq = B.k3_cond_floor(c, Q) if fam == "Kenamond3" else np.zeros(len(Q))
        for h, usable, G in gq:
            r = eik_residual(fam, c, Q, G)
            r = np.where(np.isnan(r), np.inf, r)
            r = np.maximum(r - 1.5 * cfq * B.local_speed(fam, c, Q) / h, 0.0)
            bq = np.where(usable, np.minimum(bq, r), bq)
            nq += usable
        cnt("kink_side_points", int((nq > 0).sum()))
        chk = (nq > 0).reshape(len(idx), 2, len(DISP))
        okq = ((nq > 0) & (bq <= TOL_EIK_C1)).reshape(len(idx), 2, len(DISP))
        # a side fails when it has checkable points and none of them satisfies the equation
        side_bad = chk.any(axis=2) & ~okq.any(axis=2)
        cnt("kink_points_without_checkable_side", int((~chk.any(axis=2)).all(axis=1).sum()))
        if side_bad.any():
            ii, ss = np.where(side_bad)
            j = int(ii[0]) * 2 * len(DISP) + int(ss[0]) * len(DISP)
            V.append(viol(fam, kw, "burn:eikonal", {"region": int(B.region(fam, c, Q[j:j + 1])[0]), "locus": "beside_kink"},
                          min(float(bq[j]), 1e300), TOL_EIK_C1, point=Q[j], kink_point=P[idx[int(ii[0])]], n_points=int(side_bad.any(axis=1).sum())))
    if bad.any():
        for locus, lm in (("axis_behind_obstacle", axis), ("smooth", ~axis)):
            for rg in sorted(set(reg[bad & lm].tolist())):
                m = bad & lm & (reg == rg)
                i = int(np.argmax(np.where(m, np.where(np.isfinite(best), best, 1e300), -1.0)))
                V.append(viol(fam, kw, "burn:eikonal", dict(axis_where(locus, sigL[m].any()), region=int(rg)), min(best[i], 1e300), tol[i],
                              point=P[i], n_points=int(m.sum()), D_local=float(B.local_speed(fam, c, P[i:i + 1])[0])))
    for i in np.where(checked)[0]:
        res["nontrivial"].append(task["k"] * 4096 + int(i))

    # ---------------------------------------------------------------- continuity across interfaces and the shadow boundary
    pairs = []
    U = B.unit_dirs(d)
    for Ri in B.interfaces(fam, c):
        for dl in (1e-9, 1e-6, 1e-3):
            lo, hi = Ri * (1.0 - dl), Ri * (1.0 + dl)
            if fam == "Kenamond3":
                lo = Ri                                   # nothing inside the obstacle
            pairs.append(("interface", lo * U, hi * U))
    for a, tau, n in rays:
        for sfrac in (0.05, 0.3, 1.0, 2.5):
            p0 = a + sfrac * c["R"] * tau
            for dl in (1e-9, 1e-6, 1e-3):
                pairs.append(("shadow_boundary", (p0 - dl * L * n)[None, :], (p0 + dl * L * n)[None, :]))
    for kind in ("interface", "shadow_boundary"):
        A = [p for k_, p, q in pairs if k_ == kind]
        if not A:
            continue
        A = np.concatenate(A, axis=0)
        Bq = np.concatenate([q for k_, p, q in pairs if k_ == kind], axis=0)
        if fam == "Kenamond3":
            A, Bq = B.keep_outside(A, c["R"]), B.keep_outside(Bq, c["R"])
        fa, fb = field(A), field(Bq)
        dist = _norm(A - Bq)
        sp = pair_speed(fam, c, A, Bq)
        dt = np.abs(fa - fb)
        bound = dist / sp * (1.0 + TOL_REL) + floor
        if fam == "Kenamond3":
            bound = bound + B.k3_cond_floor(c, A) + B.k3_cond_floor(c, Bq)
        ok = np.isfinite(dt)
        cnt("continuity_pairs_" + kind, int(ok.sum()))
        e = np.where(ok, dt - bound, np.inf)
        onax = (B.k3_axis_behind(c, A) | B.k3_axis_behind(c, Bq)) if fam == "Kenamond3" else np.zeros(len(A), bool)
        used(dt, dist, sp, bound - dist / sp * (1.0 + TOL_REL), ok & ~onax)
        sg = straight_ray(A, fa) | straight_ray(Bq, fb)
        for locus, m in (("axis_behind_obstacle", onax), ("elsewhere", ~onax)):
            em = np.where(m, e, -np.inf)
            if (em > 0).any():
                j = int(np.argmax(em))
                V.append(viol(fam, kw, "burn:continuity", dict(axis_where(locus, sg[m & (e > 0)].any()), across=kind),
                              dt[j] * sp[j] / dist[j] - 1.0 if dt[j] == dt[j] else 1.0,
                              TOL_REL, a=A[j], b=Bq[j], ta=fa[j], tb=fb[j], distance=dist[j], n_pairs=int((em > 0).sum())))

    # ---------------------------------------------------------------- Lipschitz consequence on ALL pairs inside one explosive
    npairs = 0
    worst = {}
    npair_bad = {}
    sig_all = [True]
    rP = _norm(P)
    for i in range(N - 1):
        if reg[i] < 0 or not np.isfinite(f0[i]):
            continue
        Qj = P[i + 1:]
        Pi = np.broadcast_to(P[i], Qj.shape)
        dmin = seg_dmin(Pi, Qj)
        rj = rP[i + 1:]
        fin = np.isfinite(f0[i + 1:]) & (reg[i + 1:] >= 0)
        if fam == "Kenamond1":
            ok = fin
            sp = np.full(len(Qj), float(c["D"]))
        elif fam == "Kenamond2":
            Rr = c["R"]
            inner = (rP[i] <= Rr * (1 + 1e-12)) & (rj <= Rr * (1 + 1e-12))
            outer = (rP[i] >= Rr * (1 - 1e-12)) & (rj >= Rr * (1 - 1e-12)) & (dmin >= Rr * (1 - 1e-12))
            ok = fin & (inner | outer)
            sp = np.where(inner, float(c["D1"]), float(c["D2"]))
        elif fam == "Kenamond3":
            ok = fin & (dmin >= c["R"] * (1 - 1e-12))
            sp = np.full(len(Qj), float(c["D"]))
        else:
            r1, r2 = c["r_1"], c["r_2"]
            in1 = (rP[i] <= r2 * (1 + 1e-12)) & (rj <= r2 * (1 + 1e-12)) & (dmin >= r1 * (1 - 1e-12))
            in2 = (rP[i] >= r2 * (1 - 1e-12)) & (rj >= r2 * (1 - 1e-12)) & (dmin >= r2 * (1 - 1e-12))
            ok = fin & (in1 | in2)
            with np.errstate(all="ignore"):
                sp = np.where(in1, c["D_CJ_1"] - c["alpha_1"] / dmin, c["D_CJ_2"] - c["alpha_2"] / dmin)
        if not ok.any():
            continue
        dist = _norm(Qj - Pi)
        dt = np.abs(f0[i + 1:] - f0[i])
        axp = axis[i] | axis[i + 1:]
        bound = dist / np.where(sp > 0, sp, np.inf) * (1.0 + TOL_REL) + floor + cfl[i] + cfl[i + 1:]
        ok &= (sp > 0) & (dist > 0)
        npairs += int(ok.sum())
        e = np.where(ok, dt - bound, -np.inf)
        used(dt, dist, sp, floor + cfl[i] + cfl[i + 1:], ok & ~axp)
        if (e > 0).any():
            for locus, m in (("axis_behind_obstacle", axp), ("elsewhere", ~axp)):
                em = np.where(m, e, -np.inf)
                if (em > 0).any():
                    j = int(np.argmax(em))
                    val = dt[j] * sp[j] / dist[j] - 1.0
                    w = worst.get(locus)
                    if w is None or val > w["value"]:
                        worst[locus] = viol(fam, kw, "burn:lipschitz-pairs", {"locus": locus}, val, TOL_REL, a=P[i], b=Qj[j],
                                            ta=f0[i], tb=f0[i + 1 + j], distance=dist[j], speed=sp[j])
                    npair_bad[locus] = npair_bad.get(locus, 0) + int((em > 0).sum())
                    if locus == "axis_behind_obstacle":
                        # every offending pair must involve a point carrying the straight-ray value, else "other"
                        inv = (em > 0)
                        sig_all[0] &= bool(np.all(sigL[i] | sigL[i + 1:][inv]))
    cnt("pairs_in_one_explosive", npairs)
    for k_ in sorted(worst):
        worst[k_]["where"] = axis_where(k_, sig_all[0])
        worst[k_]["detail"]["n_pairs"] = npair_bad[k_]
        V.append(worst[k_])

    res["evals"] = field.calls
    cnt("points_evaluated", field.npts)
    res["sample"] = {"family": fam, "kwargs": kw, "lattice_points": N, "first_points": P[:3], "burntime": f0[:3],
                     "pairs_checked": npairs, "eikonal_points": int(checked.sum()),
                     "worst_eikonal_residual": float(np.max(np.where(checked & ~kink, best, 0.0))) if checked.any() else None}
    # calibration aid (XPMC_PROFILE only reads counters): worst residual in units of 1e-12
    if checked.any():
        sm = checked & ~kink & ~axis & (tol == TOL_EIK)
        c1 = checked & ~kink & ~axis & (tol == TOL_EIK_C1)
        okp = best <= tol
        C["max_eik_residual_1e-15"] = int(min(1e18, 1e15 * float(np.max(np.where(sm & okp & (cfl < 1e-13 * T), raw, 0.0)))))
        C["max_eik_residual_near_shadow_1e-15"] = int(min(1e18, 1e15 * float(np.max(np.where(c1 & okp, raw, 0.0))))) if c1.any() else 0
    C["max_floor_fraction_used_1e-6"] = int(min(1e15, 1e6 * max(cal[0], 0.0)))
    res["digest"] = dg.hex()
    return res


def postprocess(agg, tier):
    """counters named max_* are maxima, not sums: recompute them over the tasks"""
    mx = {}
    for r in agg["results"]:
        if not r:
            continue
        for k_, v in r["counters"].items():
            if k_.startswith("max_"):
                mx[k_] = max(mx.get(k_, 0), v)
    agg["counters"].update(mx)
    return {}
