"""C14 -- heat solutions satisfy the heat equation, the declared boundary conditions and initial data; the value at
r = 0 is the limit of nearby values.

Mode L.  For every heat solver, every parameter vector within K deviations of the default over the alphabets below
(Rod1D: additionally the full product over every boundary-coefficient tuple (alpha1, beta1, alpha2, beta2) of the
coefficient alphabet, i.e. all four documented special cases BC1-BC4 and the general Robin cases I and II), the real
solver is constructed and called on a deterministic lattice; the documented problem (transcribed in
xpmc/x_c14_heat.py from the docstrings) is evaluated on the returned temperatures by finite differences:

  pde:interior        T_t - kappa*Laplacian(T) (- source)   4th-order central differences, 3 step sizes, 4 times
  bc:<face>           alpha*T + beta*dT/dcoord = gamma     one-sided differences, 5 step sizes, 4 times
  bc:r=0 (symmetry)   dT/dr -> 0                            from r = h, 2h, 3h (r = 0 itself is not used)
  axis:value-is-limit T(r=0) = lim T(r), r = 1e-3, 1e-6, 1e-9 of the radius
  initial:limit/rise  sup-distance to the declared initial profile at t = 1e-2, 1e-3, 1e-4 (small at the last, not rising)
                      (CylindricalSandwich, which cannot sum more than 20 angular modes: low-order moments instead of sup)
  steady:limit        T(1000 tscale) = the stated static solution
  finite:*            no NaN/inf at any lattice point inside the closed domain at t > 0

Series truncation (class D): a boundary/initial/steady/axis clause whose residual exceeds its tolerance at the configured
Nsum is re-evaluated with 4x (if that overflows: 2x) the terms; it is a truncation artefact (counted, not reported) iff the
residual then is within tolerance or has fallen to <= 0.6x; a wrong mode number / coefficient / static part does not
fall.  If no longer series is evaluable the comparison is made with half the terms.  The interior PDE residual of a
truncated eigenfunction expansion does not depend on the number of terms and is never excused.
"""
import json
import math
import os

import numpy as np

from xpmc import lattice
from xpmc import x_c14_heat as H
from xpmc.engine import Digest
from xpmc.solvers import Inadmissible

ID = "C14"
LEVEL = "exploration"
TECHNIQUE = ("bounded exhaustive enumeration of deviation-bounded parameter lattices (and the full product of boundary-coefficient "
             "tuples for the rod) on the real solvers, finite-difference PDE/boundary/limit oracles on every case (explicit-state exploration, mode L)")
CLAIM = ("Every parameter vector within K deviations of the default (K=1 quick, K=2 thorough) of each of the eight heat solvers -- for Rod1D "
         "crossed with every non-degenerate boundary-coefficient tuple over the coefficient alphabet, which covers BC1-BC4 and both general Robin "
         "cases -- is constructed and called on a fixed lattice of 4 times, 9 (1D) or 25 (2D) interior points, every boundary face, r=0 and "
         "r->0+; the documented PDE, boundary operators, initial profile (t->0+), static solution (t->infinity) and the r=0 limit are evaluated "
         "on the returned temperatures. Exhaustive over the stated alphabets; right level because the failure modes are wrong mode numbers, "
         "coefficients, static parts and special-cased points, each of which is parameter-dependent but not point-dependent, so a parameter "
         "lattice with an independent differential oracle exposes them.")
LEVEL_NOTE = ("trusted: numpy, the transcription of each documented problem in xpmc/x_c14_heat.py, 4th-order central / 2nd-order one-sided "
              "difference formulas; assumed: defects confined to parameter values, points or times between lattice values are not seen; "
              "residuals below the class-D tolerances are not seen")
BOUND = {"quick": "K=1 deviations from the default vector per solver; Rod1D x all boundary-coefficient tuples over {0,1,-1,2}^4 (225 tuples); "
                  "CylindricalSandwich K=1 at Nsum x Msum = 5 x 10",
         "thorough": "K=2 deviations; Rod1D x all tuples over {0,1,-1,0.5,2}^4 (576 tuples; K=2 on the 225 tuples over {0,1,-1,2}, K=1 on the 351 containing 0.5); "
                     "CylindricalSandwich K=1 at 10 x 40 plus one call set at the default 20 x 100"}
RULE = ("tasks = (solver, [boundary-coefficient tuple,] deviation vector), complete for the bound; per task: 4 times x (interior PDE residual on "
        "9/25 points, every face operator, r=0 limit) + the t->0+ sequence + the t->infinity call; an evaluation is one public solver call; "
        "a case (solver, vector, clause, time, point) is non-trivial when the balance it tests is not 0=0: for the PDE clause the terms exceed "
        "1e3 x the absolute floor (1e-5 S/tscale) at that point, for initial/steady the reference profile or the distance is non-zero; distinct by that tuple")
ASSUMPTIONS = [
    "values outside the parameter/time/point alphabets are not explored",
    "the documented problem of each solver is the one transcribed from its docstring: Rod1D family alpha_i T + beta_i dT/dx = gamma_i with d/dx along +x at both ends, linear initial profile TL..TR; "
    "Rectangle with the side condition the module docstring declares (read at run time; on the pinned tree: zero heat flux); Hutchens1 sphere; Hutchens2 with the cylindrical Laplacian (the displayed r^2 is read as the misprint it is: the text says cylindrical and the solution uses I0); "
    "CylindricalSandwich with the declared boundary temperatures T0, T1 (static solution T0 + (T1-T0) 2 theta/pi; the docstring's T0 + 2 theta T1/pi is the same at the default T0 = 0)",
    "for Robin coefficient signs that pump heat in (alpha1*beta1 > 0 or alpha2*beta2 < 0) the documented real-mode series cannot represent the solution; "
    "only the PDE and boundary clauses are evaluated there (counted as skipped_initial_steady_nondissipative)",
    "a residual that exceeds tolerance at Nsum but falls to <= 0.6x with 4x the terms is attributed to series truncation (counted as truncation_limited)",
    "Rod1D pure-flux ends with unequal fluxes raise ValueError at call time (documented restriction): counted as inadmissible",
]

K = {"quick": 1, "thorough": 2}

# ---- alphabets (default first) ---------------------------------------------------------------------------
COEF = {"quick": [0.0, 1.0, -1.0, 2.0], "thorough": [0.0, 1.0, -1.0, 0.5, 2.0]}
ALPHABET = {
    "Rod1D": {"gamma1": [0.0, 1.0, 2.0], "gamma2": [0.0, 1.0, 2.0], "TL": [3.0, 0.0, 1.0], "TR": [3.0, 0.0, 1.0],
              "L": [2.0, 0.7, 1.0], "kappa": [1.0, 0.3], "Nsum": [100, 400]},
    "PlanarSandwich": {"TB": [1.0, 0.0, 2.0], "TT": [0.0, 1.0, 2.0], "TL": [0.0, 1.0], "TR": [0.0, 1.0],
                       "L": [2.0, 0.7], "kappa": [1.0, 0.3], "Nsum": [10000, 100, 400]},
    "PlanarSandwichHot": {"F": [0.0, 1.0, -1.0], "TL": [3.0, 0.0, 1.0], "TR": [3.0, 0.0, 1.0],
                          "L": [2.0, 0.7], "kappa": [1.0, 0.3], "Nsum": [10000, 100, 400]},
    "PlanarSandwichHalf": {"TB": [1.0, 0.0, 2.0], "FT": [0.0, 1.0, -1.0], "TL": [3.0, 0.0, 1.0], "TR": [3.0, 0.0, 1.0],
                           "L": [2.0, 0.7], "kappa": [1.0, 0.3], "Nsum": [10000, 100, 400]},
    "Rectangle": {"a": [2.0, 1.2, 0.7], "b": [2.0, 1.5], "Ttop": [1.0, 2.5], "kappa": [1.0, 0.3], "Nsum": [100, 30]},
    "Hutchens1": {"k": [8.4695e10, 2.0e10], "cp": [5.2441e10, 1.0e10], "rho": [7.897, 2.5], "b": [1.0, 2.5],
                  "Tb": [5.0, 0.0, 1.0], "T0": [1.0, 3.0, 0.0], "Nsum": [100, 400]},
    "Hutchens2": {"g0": [1.0e13, 0.0, 3.0e12], "k": [8.4695e10, 2.0e10], "b": [1.0, 0.6], "L": [2.0, 1.3],
                  "Tb": [5.0, 1.0], "T0": [2.0, 1.0, 0.0], "TL": [1.0, 2.0, 3.0], "Nsum": [100, 400]},
    "CylindricalSandwich": {"kappa": [1.0, 0.3], "a": [0.25, 0.4], "b": [0.85, 1.0], "T1": [1.0, 2.0], "T0": [0.0, 0.5]},
}
CYL_SIZE = {"quick": (5, 10), "thorough": (10, 40)}
# heavy families first (better packing of the worker pool); within a family the simplest vector comes first
ORDER = ["Rectangle", "CylindricalSandwich", "PlanarSandwich", "PlanarSandwichHot", "PlanarSandwichHalf", "Hutchens1", "Hutchens2",
         "Rod1D"]

# ---- tolerances.  The series are class D, but each *term* is closed form, so the clauses that do not depend on the
# ---- truncation (PDE, mode-wise boundary operators, steady state) get FD-limited tolerances; the truncation-dependent
# ---- ones (initial profile, Gibbs-affected faces) additionally go through the falls-with-Nsum rule.
# ---- Measured worst residual of the clauses the pinned tree satisfies (thorough lattice) is noted; tolerance >= 10x that.
TOL = {
    "pde": 1e-3,        # measured worst (thorough): 5.2e-5 rod family (t = 1e-3 tscale, boundary layer), 9.7e-5 Rectangle, 1.0e-5 Hutchens1, 8.9e-9 Hutchens2
    "bc": 1e-5,         # measured worst: 2.3e-9 flux faces of BC2-BC4 (one-sided differences), 1.9e-7 Robin faces (case II and the patched case I); temperature faces 2e-15
    "sym": 1e-6,        # measured worst 3.1e-8 (Hutchens2, Nsum = 400), 8.9e-11 (Hutchens1)
    "axis": 1e-8,       # measured worst 1.1e-10 (spread between r = 1e-6 and 1e-9), 1e-13 (value)
    "initial": 1e-4,    # measured worst 1.24e-6 (Nsum = 100 at t = 1e-4 tscale)
    "rise": 1e-4,       # measured worst 0 on BC1-BC4, Hutchens1; 0 on the patched Robin branch
    "steady": 1e-9,     # measured worst 2.8e-14
}
TOL_FAMILY = {
    # mode-wise radial flux faces: measured worst 2.0e-6 (pinned, a = 0.4 at 10 x 40, field still rough at t = 1e-3 tscale),
    # 3.8e-8 (patched solver; newton tolerance of the mode numbers);
    # documented accuracy of the coefficients 1e-3 ("NOTE" in the docstring); low-order moments of the patched solver at
    # t = 1e-4 tscale: 5.3e-4 (physical decay, independent of the truncation); pde of the patched solver 3.6e-7
    "CylindricalSandwich": {"pde": 1e-2, "bc": 1e-4, "initial": 1e-2, "rise": 1e-2, "steady": 1e-9},
    # double series, Nsum = 100: measured worst initial/rise 2.3e-3 (a = 0.7, b = 1.5; 5.9e-3 at a = 0.7 with the overflow repaired):
    # truncation in y at t = 1e-4 tscale; a wrong coefficient gives 1.2 (mutant rectangle_coefficient_a_for_b).  At Nsum = 30 the
    # clause is truncation-limited (measured up to 5.9e-2) and is decided by the falls-with-Nsum rule whichever side of 6e-2 it lands
    "Rectangle": {"initial": 6e-2, "rise": 6e-2},
}
FALL = 0.6


def tol(family, kind):
    return TOL_FAMILY.get(family, {}).get(kind, TOL[kind])


def bc_tuples(tier):
    A = COEF[tier]
    out = []
    for a1 in A:
        for b1 in A:
            for a2 in A:
                for b2 in A:
                    if (a1 == 0 and b1 == 0) or (a2 == 0 and b2 == 0):
                        continue
                    out.append([a1, b1, a2, b2])
    n = len(A)
    assert len(out) == n ** 4 - (2 * n * n - 1), "boundary-coefficient enumeration truncated"
    # simplest first: the default BC1 tuple, then the other special cases, then the Robin cases
    rank = {"BC1": 0, "BC2": 1, "BC3": 2, "BC4": 3, "robin-II": 4, "robin-I": 5}
    out.sort(key=lambda c: (rank[H.rod_branch(*c)], c != [1.0, 0.0, 1.0, 0.0], sum(abs(v) != 1 and v != 0 for v in c), sum(v < 0 for v in c)))
    return out


def tasks(tier, seed):
    out = []
    k = K[tier]
    for fam in ORDER:
        devs = lattice.enumerate_checked(ALPHABET[fam], k)
        if fam == "Rod1D":
            core = set(COEF["quick"])
            devs1 = lattice.enumerate_checked(ALPHABET[fam], 1)
            for c in bc_tuples(tier):
                # thorough: K = 2 on every tuple over the quick coefficient alphabet, K = 1 on the tuples that contain 0.5
                for dev in (devs if all(v in core for v in c) else devs1):
                    out.append({"family": fam, "bc": c, "dev": dev})
        elif fam == "CylindricalSandwich":
            if tier == "thorough":
                out.append({"family": fam, "size": [20, 100], "dev": {}, "reduced_lattice": True})
            for dev in lattice.enumerate_checked(ALPHABET[fam], 1):
                out.append({"family": fam, "size": list(CYL_SIZE[tier]), "dev": dev})
        else:
            for dev in devs:
                out.append({"family": fam, "dev": dev})
    return out


def task_cfg(task):
    fam = task["family"]
    cfg = lattice.full_cfg(ALPHABET[fam], task["dev"])
    if fam == "Rod1D":
        cfg["alpha1"], cfg["beta1"], cfg["alpha2"], cfg["beta2"] = task["bc"]
    if fam == "CylindricalSandwich":
        cfg["Nsum"], cfg["Msum"] = task["size"]
    return cfg


def bigger(fam, cfg, factor):
    """The same vector with `factor` x the series terms (CylindricalSandwich: both sums doubled for 'x4', halved for 'x0.5')."""
    c = dict(cfg)
    if fam == "CylindricalSandwich":
        if factor == 2:
            return None
        f = 2 if factor > 1 else 0.5
        c["Nsum"], c["Msum"] = max(1, int(cfg["Nsum"] * f)), max(1, int(cfg["Msum"] * f))
    else:
        c["Nsum"] = max(2, int(cfg["Nsum"] * factor))
    return c


def specs(prob, reduced=False):
    out = []
    times = [0.0] if prob.steady_only else (H.T_FRACS[1:2] if reduced else H.T_FRACS)
    for tf in times:
        out.append(("pde", None, tf))
        for k in range(len(prob.faces)):
            out.append(("bc", k, tf))
        if prob.axis:
            out.append(("axis", None, tf))
    if prob.initial is not None and not reduced:
        out.append(("initial", None, None))
    if prob.steady is not None:
        out.append(("steady", None, None))
    return out


def evaluate(prob, spec, alt=False):
    kind, k, tf = spec
    if kind == "pde":
        return H.pde(prob, tf)
    if kind == "bc":
        return H.bc(prob, k, tf, alt=alt)
    if kind == "axis":
        return H.axis(prob, tf)
    if kind == "initial":
        return H.initial_weak(prob) if getattr(prob, "initial_weak", False) else H.initial(prob)
    if kind == "steady":
        return H.steady(prob, alt=alt)
    raise ValueError(kind)


def clause_of(prob, spec):
    kind, k, tf = spec
    if kind == "pde":
        return "pde:interior", "pde"
    if kind == "bc":
        f = prob.faces[k]
        return "bc:" + f["name"], ("sym" if f.get("kind") == "sym" else "bc")
    if kind == "axis":
        return "axis:value-is-limit", "axis"
    if kind == "initial":
        return "initial:limit", "initial"
    return "steady:limit", "steady"


def run_task(task):
    fam = task["family"]
    cfg = task_cfg(task)
    dg = Digest()
    res = {"evals": 0, "nontrivial": [], "violations": [], "counters": {}, "sample": None, "calib": {}}
    C = res["counters"]
    calib = res["calib"]

    def bump(name, n=1):
        C[name] = C.get(name, 0) + n

    try:
        prob = H.make(fam, cfg)
    except Inadmissible:
        bump("inadmissible_vectors")
        res["digest"] = dg.add("inadmissible").hex()
        return res
    except Exception as ex:          # any other exception at construction is C20's business; counted
        bump("construct_exceptions")
        bump("cexc:%s:%s" % (fam, type(ex).__name__))
        res["digest"] = dg.add("cexc", type(ex).__name__).hex()
        return res
    if fam in ("Rod1D", "PlanarSandwich", "PlanarSandwichHot", "PlanarSandwichHalf"):
        bump("branch:" + prob.tags["branch"])
        if not prob.tags["dissipative"]:
            bump("skipped_initial_steady_nondissipative")
    others = {}
    dead = set()

    def other(factor):
        """The same problem with `factor` x the series terms (built once per task, lazily)."""
        if factor not in others:
            try:
                c2 = bigger(fam, cfg, factor)
                others[factor] = H.make(fam, c2) if c2 is not None else None
            except Exception:
                others[factor] = None
        return others[factor]

    tagkey = "%s|%s|%s" % (fam, task.get("bc"), sorted(task["dev"].items()))
    vcfg = {k: v for k, v in prob.cfg.items()}

    def report(clause, kind, tf, value, tolv, detail, extra_where=None):
        where = {"t": tf}
        where.update(prob.tags)
        if extra_where:
            where.update(extra_where)
        res["violations"].append({"solver": fam, "cfg": vcfg, "clause": clause, "where": where, "value": float(value),
                                  "tol": tolv, "detail": detail})

    def truncation_artefact(spec, pick, val, tv, detail, alt):
        """Series truncation or defect?  The residual `val` (> tv) of this clause must fall when the number of terms grows:
        re-evaluated with 4x (if not evaluable: 2x) the terms it must be within tolerance or <= FALL * val; if no longer
        series is evaluable (overflow/NaN/exception) it must be <= FALL * (the residual with half the terms).
        Never for the PDE clause: every term of a truncated eigenfunction expansion solves the PDE, so an interior residual
        does not depend on the number of terms."""
        kind, k, tf = spec
        if not prob.nsum or kind == "pde":
            return False
        if kind == "initial" and getattr(prob, "initial_weak", False):
            return False        # low-order moments of a truncated expansion do not depend on the number of terms either

        def value_at(factor):
            if (factor, kind, k, alt) in dead:     # overflow of a longer series does not depend on the time
                return None
            o = other(factor)
            rr = None
            if o is not None:
                try:
                    rr = evaluate(o, spec, alt=alt)
                except Exception:
                    rr = None
            if rr is None or not rr["finite"]:
                dead.add((factor, kind, k, alt))
                return None
            return float(rr[pick])

        for factor in (4, 2):
            v2 = value_at(factor)
            if v2 is not None:
                detail["value_with_%dx_terms" % factor] = v2
                return v2 <= tv or v2 <= FALL * val
        bump("truncation_check_fallback_half")
        v0 = value_at(0.5)
        if v0 is not None:
            detail["value_with_half_the_terms"] = v0
            return val <= FALL * v0
        return False

    for spec in specs(prob, reduced=bool(task.get("reduced_lattice"))):
        kind, k, tf = spec
        clause, tkind = clause_of(prob, spec)
        tolv = tol(fam, tkind)
        try:
            r = evaluate(prob, spec)
        except ValueError as ex:
            # the only documented call-time rejection: unequal fluxes at two pure-flux ends
            if "flux" in str(ex):
                bump("inadmissible_vectors")
                dg.add("inadmissible-call")
                break
            bump("call_exceptions")
            bump("exc:%s:%s" % (fam, type(ex).__name__))
            dg.add("exc", type(ex).__name__)
            continue
        except Exception as ex:
            bump("call_exceptions")
            bump("exc:%s:%s" % (fam, type(ex).__name__))
            dg.add("exc", type(ex).__name__)
            continue
        bump("clauses_evaluated")
        if not r["finite"]:
            report("finite:" + clause, "finite", tf, 1.0, 0.0, {"non_finite_values": r["n_bad"]})
            continue
        for i in r.get("nontrivial", []):
            res["nontrivial"].append("%s|%s|%s|%d" % (tagkey, clause, tf, i))
        checks = [(clause, tkind, r["value"], tolv)]
        if kind == "initial":
            checks.append(("initial:rise", "rise", r["rise"], tol(fam, "rise")))
        if kind == "axis":
            checks.append(("axis:limit-exists", "axis", r["spread"], tolv))
        for cl, tk, val, tv in checks:
            if val <= tv:
                calib[cl] = max(calib.get(cl, 0.0), float(val))     # worst passing residual (calibration aid)
                continue
            detail = dict(r.get("detail", {}))
            extra = {}
            pick = {"initial:rise": "rise", "axis:limit-exists": "spread"}.get(cl, "value")
            if truncation_artefact(spec, pick, val, tv, detail, alt=False):
                bump("truncation_limited")
                bump("truncation_limited:%s:%s" % (fam, cl))
                continue
            # --- reduced oracle: does the alternative (as-coded) reading of this clause hold (up to truncation)?
            face = prob.faces[k] if kind == "bc" else None
            tag = face["alt"]["tag"] if face is not None and "alt" in face else (
                prob.steady_alt[1] if kind == "steady" and hasattr(prob, "steady_alt") else None)
            if tag is not None:
                ra = evaluate(prob, spec, alt=True)
                ok = bool(ra["finite"]) and (ra["value"] <= tv or truncation_artefact(spec, "value", ra["value"], tv, {}, alt=True))
                extra[tag] = int(ok)
                detail["value_under_" + tag] = ra.get("value")
            report(cl, tk, tf, val, tv, detail, extra)
    for p in [prob] + [o for o in others.values() if o is not None]:
        res["evals"] += p.evals
    for v in prob.observed:
        dg.add(v)
    res["sample"] = {"family": fam, "cfg": {k: v for k, v in cfg.items()}, "tags": prob.tags, "tscale": prob.tscale,
                     "clauses": sorted({clause_of(prob, s)[0] for s in specs(prob)}), "evaluations": prob.evals}
    res["digest"] = dg.hex()
    if os.environ.get("XPMC_C14_CALIB"):          # development aid: worst passing residual per clause, one line per task
        with open(os.environ["XPMC_C14_CALIB"], "a") as f:
            f.write(json.dumps({"task": task, "calib": calib, "tags": prob.tags}) + "\n")
    return res
