"""C15 -- Blake: the returned fields solve the spherical elastic wave problem; the six moduli describe one material.

Mode L, full product over the material/pair alphabet, deviation-bounded over the non-material parameters.

Reference model (textbook isotropic elasticity, written here, nothing imported from the code under test): from
(G, nu) all six moduli  lambda = 2 G nu/(1-2 nu),  E = 2 G (1+nu),  K = lambda + 2G/3,  M = lambda + 2G.
Each of the 15 unordered pairs of each material (plus the no-argument default material) is fed to Blake(...).

Oracle, parameters:  the six attributes reproduce the two supplied values and satisfy K = lambda + 2G/3,
M = lambda + 2G, E = G(3 lambda + 2G)/(lambda + G), nu = lambda/(2(lambda+G)), are positive definite, and -- for the 14
single-valued pairs -- equal the reference material; for (E, M) either root is accepted.  ValueError at construction is
the documented way out (counted); any other exception type at construction is a violation.

Oracle, fields (moduli taken from the solver's own six attributes, c_L^2 = long_mod / ref_density):
  u_tt = c_L^2 (u_rr + 2 u_r / r - 2 u / r^2)   4th-order central differences in r and t, three step sizes
  u == 0 and strains == 0 ahead of the front r - a > c_L t
  stress_rr(a, t) = -pressure_scale for t > 0
  strain_rr = du/dr (finite differences), strain_qq = u/r, strain_vol = strain_rr + 2 strain_qq
  Hooke's law, pressure, deviators, stress difference and density from the strains, algebraically.
"""
import itertools
import math
import warnings

import numpy as np

from xpmc import lattice, oracle
from xpmc.engine import Digest

ID = "C15"
LEVEL = "exploration"
TECHNIQUE = ("bounded exhaustive enumeration on the real solver: full product materials x 15 parameter pairs, deviation-bounded "
             "non-material parameters, fixed time/point lattices; textbook reference model of the six moduli; finite-difference "
             "and algebraic oracles on every returned record (explicit-state exploration, mode L)")
CLAIM = ("Every material of the (G, nu) lattice is specified to Blake(...) through each of its 15 parameter pairs (and the no-argument "
         "default), with every vector of non-material parameters of the full product lattice (2 values per parameter quick, 3 thorough), and five non-positive-definite materials through every pair; "
         "every successful construction is checked against the textbook identities and the reference material, and called at every "
         "lattice time on a radial lattice from the cavity wall to beyond the front, where the wave equation, causality, the wall "
         "traction, the strain-displacement relations and Hooke's law are evaluated at every point. Exhaustive over the stated alphabet; "
         "right level because the solver is a closed form whose failure modes are per-pair formulas and parameter-dependent coefficients, "
         "each of which the product lattice executes.")
LEVEL_NOTE = ("trusted: numpy, the transcription of the textbook identities and of the documented wave equation in props/C15.py; "
              "assumed: defects confined to parameter values, radii or times between lattice values are not seen; finite differences "
              "decide the differential relations to 1e-6/1e-7, not exactly")
BOUND = {"quick": "21 materials x (15 pairs + default) x full product of the 2x2x2 non-material lattice; 6 times x 84 radii; 5 non-positive-definite materials x 15 pairs",
         "thorough": "45 materials x (15 pairs + default) x full product of the 3x3x3 non-material lattice; 8 times x 164 radii; 5 non-positive-definite materials x 15 pairs"}
RULE = ("tasks = (material, pair, non-material vector); one evaluation = one Blake(...) construction or one solver call; a case is "
        "non-trivial when the construction succeeded (key material|pair|vector) or when a lattice point lies in the disturbed region "
        "with non-zero displacement (key material|pair|vector|time|point); ValueError constructions are counted as inadmissible")
ASSUMPTIONS = [
    "values outside the material, pair, non-material, time and radius lattices are not explored",
    "density is accepted when it agrees with rho0 (1 - strain_vol) to second order in the strains (rho0/(1+tr E), rho0 (1 - tr E) and rho0/det F are all linear-elastic)",
    "for the two-valued pair (youngs_mod, long_mod) whichever root the solver selects is accepted provided inputs and identities hold",
    "radii below the cavity radius and negative times are outside the quantifier and not called",
]

NAMES = ["lame_mod", "shear_mod", "youngs_mod", "poisson_ratio", "bulk_mod", "long_mod"]
PAIRS = [list(p) for p in itertools.combinations(NAMES, 2)]
# the quick tier is what used to be the thorough one (7 s on 12 cores); the thorough tier adds two shear moduli, two Poisson
# ratios, a third value of every non-material parameter (full product), two more times and twice the radii
G_VALUES = {"quick": [25.0e9, 3.0e9, 80.0e9], "thorough": [25.0e9, 3.0e9, 80.0e9, 1.0e9, 200.0e9]}
NU_VALUES = {"quick": [0.25, 0.1, 0.45, -0.3, 0.0, 0.49, -0.9], "thorough": [0.25, 0.1, 0.45, -0.3, 0.0, 0.49, -0.9, 0.35, -0.6]}
NONPD_MATERIALS = [(25.0e9, 0.6), (25.0e9, 1.0), (25.0e9, -1.2), (-25.0e9, 0.25), (25.0e9, 0.75)]
NONMAT = {"quick": {"cavity_radius": [0.1, 1.0], "ref_density": [3000.0, 7800.0], "pressure_scale": [1.0e6, 1.0e5]},
          "thorough": {"cavity_radius": [0.1, 1.0, 0.02], "ref_density": [3000.0, 7800.0, 1000.0], "pressure_scale": [1.0e6, 1.0e5, 2.0e7]}}
K_NONMAT = {"quick": 3, "thorough": 3}
TIME_FACTORS = {"quick": [0.0, 0.1, 0.4, 1.0, 2.5, 40.0], "thorough": [0.0, 0.03, 0.1, 0.4, 0.7, 1.0, 2.5, 40.0]}
NPTS = {"quick": 80, "thorough": 160}
WINDOW = 8.0                    # L = WINDOW * a; transit time T = L / c_L (T = 1.6e-4 s = the documented snapshot time for the default)
FD_STEPS = (1.0e-2, 3.0e-3, 1.0e-3)   # h / a ; k = h / c_L

# tolerances; measured worst residual of the unchanged code over the thorough lattice in the comment
TOL_INPUT = 1e-13      # supplied value reproduced: measured 0 (stored as given)
TOL_IDENT = 1e-10      # identities among the six: measured 9.3e-16
TOL_REF = 1e-9         # equality with the reference material: measured 3.6e-14 (thorough, nu = -0.9 / 0.49 included)
TOL_WAVE = 1e-6        # wave-equation residual |sum|/sum|.|: measured 5.1e-10 (design probe with 2nd-order stencils: 2.6e-7); seeded changes give >= 1e-3
TOL_STRAIN = 1e-7      # strain_rr vs du/dr relative to max|strain_rr| of the profile: measured 5.6e-12
TOL_ALG = 1e-10        # algebraic relations, |sum|/sum|.|: measured 2.7e-14
TOL_BC = 1e-10         # |stress_rr(a) + p0| / p0: measured 2.2e-14
FRONT_GAP = 1e-9       # lattice points closer than this (in units of T) to the front are moved off it


def reference(G, nu):
    lam = 2.0 * G * nu / (1.0 - 2.0 * nu)
    return {"lame_mod": lam, "shear_mod": G, "youngs_mod": 2.0 * G * (1.0 + nu), "poisson_ratio": nu,
            "bulk_mod": lam + 2.0 * G / 3.0, "long_mod": lam + 2.0 * G}


def tasks(tier, seed):
    out = []
    devs = lattice.enumerate_checked(NONMAT[tier], K_NONMAT[tier])
    mats = [(G, nu) for nu in NU_VALUES[tier] for G in G_VALUES[tier]]
    mats.sort(key=lambda m: (m != (25.0e9, 0.25),))          # default material first
    for G, nu in mats:
        pairs = ([["default"]] if (G, nu) == (25.0e9, 0.25) else []) + PAIRS
        for pair in pairs:
            for dev in devs:
                out.append({"G": G, "nu": nu, "pair": pair, "dev": dev, "tier": tier})
    # materials that are NOT positive definite, through each of the 15 pairs: 'the six describe one positive-definite material,
    # or construction fails with ValueError' -- accepted constructions are judged by the same parameter oracle (clause
    # params:positive-definite); added after the seeded change S2-C15-1 (a range check that can never fire)
    for G, nu in NONPD_MATERIALS:
        for pair in PAIRS:
            out.append({"G": G, "nu": nu, "pair": pair, "dev": {}, "tier": tier, "nonpd": True})
    return out


def _viol(res, cfg, clause, where, value, tol, detail):
    res["violations"].append({"solver": "Blake", "cfg": cfg, "clause": clause, "where": where,
                              "value": float(value), "tol": float(tol), "detail": detail})


def check_params(res, cfg, s, pair, ref):
    got = {n: float(getattr(s, n)) for n in NAMES}
    lam, G, E, nu, K, M = [got[n] for n in NAMES]
    S = max(abs(lam), abs(G), abs(E), abs(K), abs(M))

    def rel(a, b, dimensionless=False):
        return abs(a - b) / (1.0 if dimensionless else S)
    worst = 0.0
    # (a) the two supplied values are reproduced
    if pair != ["default"]:
        for n in pair:
            v = rel(got[n], ref[n], n == "poisson_ratio")
            worst = max(worst, v)
            if not v <= TOL_INPUT:
                _viol(res, cfg, "params:input-reproduced", {"param": n}, v, TOL_INPUT, {"given": ref[n], "attribute": got[n]})
    # (b) identities among the six
    with np.errstate(all="ignore"):
        idents = [("K=lambda+2G/3", K, lam + 2.0 * G / 3.0, False), ("M=lambda+2G", M, lam + 2.0 * G, False),
                  ("E=G(3lambda+2G)/(lambda+G)", E, G * (3.0 * lam + 2.0 * G) / (lam + G) if lam + G != 0 else float("nan"), False),
                  ("nu=lambda/(2(lambda+G))", nu, lam / (2.0 * (lam + G)) if lam + G != 0 else float("nan"), True)]
    for name, a, b, dimless in idents:
        v = rel(a, b, dimless)
        if not v <= TOL_IDENT:          # NaN fails
            _viol(res, cfg, "params:identity:" + name, {}, v if v == v else 1.0, TOL_IDENT, {"six": got})
        elif v > res["_w"].get("ident", 0.0):
            res["_w"]["ident"] = v
    # (c) one positive-definite material
    pd = (G > 0) and (3.0 * lam + 2.0 * G > 0) and (-1.0 < nu < 0.5) and (E > 0) and (K > 0) and (M > 0)
    if not pd:
        _viol(res, cfg, "params:positive-definite", {}, 1.0, 0.0, {"six": got})
    # (d) equality with the reference material (implied by (a)+(b) for the single-valued pairs)
    cands = [ref]
    if pair == ["youngs_mod", "long_mod"]:
        # both roots of 4 M nu^2 + ... : nu = (E - M +- sqrt(E^2 + 9 M^2 - 10 E M)) / (4 M)
        Eg, Mg = ref["youngs_mod"], ref["long_mod"]
        disc = max(Eg * Eg + 9.0 * Mg * Mg - 10.0 * Eg * Mg, 0.0)
        cands = []
        for sgn in (1.0, -1.0):
            nu_r = (Eg - Mg + sgn * math.sqrt(disc)) / (4.0 * Mg)
            if -1.0 < nu_r < 0.5:
                cands.append(reference(Eg / (2.0 * (1.0 + nu_r)), nu_r))
    if cands:
        v = min(max(rel(got[n], c[n], n == "poisson_ratio") for n in NAMES) for c in cands)
        # the double root of (E, M) at nu = 0 is a square-root singularity: rounding 1e-16 in the discriminant moves nu by 1e-8
        tol = 1e-6 if (pair == ["youngs_mod", "long_mod"] and abs(ref["poisson_ratio"]) < 1e-3) else TOL_REF
        if not v <= tol:
            _viol(res, cfg, "params:equals-reference-material", {}, v if v == v else 1.0, tol, {"six": got, "reference": cands[0]})
        elif tol == TOL_REF and v > res["_w"].get("ref", 0.0):
            res["_w"]["ref"] = v
    return got


def check_fields(res, cfg, s, got, tier, key, dg):
    a, rho0, p0 = cfg["cavity_radius"], cfg["ref_density"], cfg["pressure_scale"]
    lam, G, K, M = got["lame_mod"], got["shear_mod"], got["bulk_mod"], got["long_mod"]
    if not (M > 0 and rho0 > 0):
        return
    cL = math.sqrt(M / rho0)
    L = WINDOW * a
    T = L / cL
    C = res["counters"]
    W = res["_w"]

    def U(r, t):
        res["evals"] += 1
        return np.asarray(s(np.asarray(r, dtype=float), t)["displacement"], dtype=float)

    for tf in TIME_FACTORS[tier]:
        t = tf * T
        r = a + np.linspace(0.0, 1.25 * L, NPTS[tier])
        front = a + cL * t
        if t > 0:
            # both sides of the front (the strain jumps there), a small distance away from it
            r = np.concatenate([r, [a * (1.0 + 1e-9), front - 1e-6 * L, front + 1e-6 * L, front + 1e-3 * L]])
        # far field: decades of cavity radii ahead of the front (the closed forms overflow there; the statement says the
        # displacement *vanishes* ahead of the front -- added after the seeded change S-C15-3)
        r = np.concatenate([r, front + a * np.array([3e1, 1e2, 1e3, 1e4, 1e5, 1e6])])
        r = np.unique(r[r >= a])
        tp = t - (r - a) / cL
        near = np.abs(tp) < FRONT_GAP * T
        if t > 0 and near.any():
            C["points_moved_off_front"] = C.get("points_moved_off_front", 0) + int(near.sum())
            r = r[~near]
            tp = tp[~near]
        where = {"t_over_T": tf}
        try:
            with warnings.catch_warnings():
                warnings.simplefilter("ignore")
                sol = s(r, t)
            res["evals"] += 1
        except Exception as ex:           # a raising call is C20's business: counted, not judged
            C["call_exceptions"] = C.get("call_exceptions", 0) + 1
            C["exc:" + type(ex).__name__] = C.get("exc:" + type(ex).__name__, 0) + 1
            dg.add("exc", type(ex).__name__)
            continue
        F = {n: np.asarray(sol[n], dtype=float) for n in sol.dtype.names}
        for n in sol.dtype.names:
            dg.add(F[n])
        u, err, eqq, evol = F["displacement"], F["strain_rr"], F["strain_qq"], F["strain_vol"]
        srr, sqq, p = F["stress_rr"], F["stress_qq"], F["pressure"]
        ahead = tp < 0
        behind = ~ahead
        for i in np.where(behind & (u != 0))[0]:
            res["nontrivial"].append("%s|%g|%d" % (key, tf, i))

        def alg(clause, lhs, *terms, tol=TOL_ALG):
            m = oracle.relres(lhs, *[-np.asarray(x) for x in terms])
            m = np.where(np.isfinite(lhs), m, 1.0)
            i = int(np.argmax(m))
            if m[i] <= tol:
                W["alg"] = max(W.get("alg", 0.0), float(m[i]))
            else:
                _viol(res, cfg, clause, where, m[i], tol, {"r": float(r[i]), "lhs": float(np.asarray(lhs)[i]),
                                                            "rhs": float(sum(np.asarray(x)[i] if np.ndim(x) else x for x in terms)),
                                                            "n_bad": int((m > tol).sum()), "n_points": int(len(r))})
        # (iii) nothing ahead of the front
        if ahead.any():
            sc = p0 * a / M
            v = max(np.max(np.abs(u[ahead])) / sc, np.max(np.abs(err[ahead])) / (p0 / M), np.max(np.abs(eqq[ahead])) / (p0 / M))
            if not v <= 1e-14:
                _viol(res, cfg, "causality:zero-ahead-of-front", where, v, 1e-14, {"n_ahead": int(ahead.sum())})
        # (iv) wall traction
        if t > 0 and r[0] == a:
            v = abs(srr[0] + p0) / p0
            W["bc"] = max(W.get("bc", 0.0), v if v <= TOL_BC else 0.0)
            if not v <= TOL_BC:
                _viol(res, cfg, "bc:stress_rr(a)=-p0", where, v if v == v else 1.0, TOL_BC, {"stress_rr": float(srr[0]), "p0": p0})
        # (v) strain-displacement, algebraic part
        alg("strain:qq=u/r", eqq, u / r)
        alg("strain:vol=rr+2qq", evol, err, 2.0 * eqq)
        # (vi) Hooke's law and what follows from it
        alg("hooke:stress_rr", srr, (lam + 2.0 * G) * err, 2.0 * lam * eqq)
        alg("hooke:stress_qq", sqq, lam * err, 2.0 * (lam + G) * eqq)
        alg("hooke:pressure=-tr(stress)/3", p, -srr / 3.0, -2.0 * sqq / 3.0)
        alg("hooke:pressure=-K*strain_vol", p, -K * err, -2.0 * K * eqq)
        alg("hooke:dev_rr=stress_rr+p", F["stress_dev_rr"], srr, p)
        alg("hooke:dev_qq=stress_qq+p", F["stress_dev_qq"], sqq, p)
        alg("hooke:dev_rr=2G(strain_rr-vol/3)", F["stress_dev_rr"], 4.0 * G / 3.0 * err, -4.0 * G / 3.0 * eqq)
        alg("hooke:dev_qq=2G(strain_qq-vol/3)", F["stress_dev_qq"], -2.0 * G / 3.0 * err, 2.0 * G / 3.0 * eqq)
        alg("hooke:stress_diff=|rr-qq|", F["stress_diff"], np.abs(srr - sqq))
        # density: linear-elastic to second order in the strains
        with np.errstate(all="ignore"):
            dev = np.abs(F["density"] / rho0 - (1.0 - evol))
        env = 12.0 * np.maximum(np.abs(err), np.abs(eqq)) ** 2 + 1e-13
        bad = ~(dev <= env)
        if bad.any():
            i = int(np.argmax(np.where(bad, dev / env, 0.0)))
            _viol(res, cfg, "hooke:density=rho0(1-strain_vol)+O(strain^2)", where, dev[i], env[i],
                  {"r": float(r[i]), "density": float(F["density"][i]), "strain_vol": float(evol[i])})
        # (ii) wave equation and (v) strain_rr = du/dr by finite differences, behind the front, three step sizes
        if t <= 0 or not behind.any():
            continue
        nb = len(r)
        best_w = np.full(nb, np.inf)
        best_s = np.full(nb, np.inf)
        sscale = np.max(np.abs(err))
        for hf in FD_STEPS:
            h = hf * a
            k = h / cL
            fit = behind & (r - 2.0 * h >= a) & (tp - 2.0 * k - 2.0 * h / cL > FRONT_GAP * T) & (t - 2.0 * k > 0)
            if not fit.any():
                continue
            rr = r[fit]
            um2, um1, up1, up2 = U(rr - 2 * h, t), U(rr - h, t), U(rr + h, t), U(rr + 2 * h, t)
            tm2, tm1, tq1, tq2 = U(rr, t - 2 * k), U(rr, t - k), U(rr, t + k), U(rr, t + 2 * k)
            u0 = u[fit]
            u_r = (um2 - 8.0 * um1 + 8.0 * up1 - up2) / (12.0 * h)
            u_rr = (-um2 + 16.0 * um1 - 30.0 * u0 + 16.0 * up1 - up2) / (12.0 * h * h)
            u_tt = (-tm2 + 16.0 * tm1 - 30.0 * u0 + 16.0 * tq1 - tq2) / (12.0 * k * k)
            for arr in (um2, um1, up1, up2, tm2, tm1, tq1, tq2):
                dg.add(arr)
            wres = oracle.relres(u_tt, -cL ** 2 * u_rr, -cL ** 2 * 2.0 * u_r / rr, cL ** 2 * 2.0 * u0 / rr ** 2)
            sres = np.abs(err[fit] - u_r) / (sscale if sscale > 0 else 1.0)
            sres = np.where(np.isfinite(sres), sres, 1.0)
            best_w[fit] = np.minimum(best_w[fit], wres)
            best_s[fit] = np.minimum(best_s[fit], sres)
        done = np.isfinite(best_w)
        C["wave_points_checked"] = C.get("wave_points_checked", 0) + int(done.sum())
        C["wave_points_no_stencil"] = C.get("wave_points_no_stencil", 0) + int((behind & ~done).sum())
        if done.any():
            for name, best, tol, clause in (("wave", best_w, TOL_WAVE, "pde:u_tt=cL^2(u_rr+2u_r/r-2u/r^2)"),
                                            ("strain", best_s, TOL_STRAIN, "strain:rr=du/dr")):
                b = np.where(done, best, 0.0)
                i = int(np.argmax(b))
                if b[i] <= tol:
                    W[name] = max(W.get(name, 0.0), float(b[i]))
                else:
                    _viol(res, cfg, clause, where, b[i], tol, {"r": float(r[i]), "tprime_over_T": float(tp[i] / T),
                                                               "n_bad": int((b > tol).sum()), "n_checked": int(done.sum())})


def run_task(task):
    from xpmc.solvers import get_class
    tier = task.get("tier", "quick")
    G, nu, pair = task["G"], task["nu"], task["pair"]
    ref = reference(G, nu)
    nonmat = lattice.full_cfg(NONMAT[task.get("tier", "quick")], task["dev"])
    kw = dict(nonmat)
    if pair != ["default"]:
        for n in pair:
            kw[n] = ref[n]
    cfg = dict(kw)
    cfg.update({"G": G, "nu": nu, "pair": "+".join(pair)})
    res = {"evals": 1, "nontrivial": [], "violations": [], "counters": {}, "sample": None, "_w": {}}
    C = res["counters"]
    dg = Digest()
    key = "%g|%g|%s|%s" % (G, nu, "+".join(pair), sorted(task["dev"].items()))
    Blake = get_class("blake.blake.Blake")
    try:
        with warnings.catch_warnings():
            warnings.simplefilter("ignore")
            s = Blake(**kw) if pair != ["default"] or task["dev"] else Blake()
    except ValueError as ex:
        C["inadmissible_vectors"] = 1
        C["valueerror:" + "+".join(pair)] = 1
        res["digest"] = dg.add("ValueError").hex()
        res.pop("_w")
        return res
    except Exception as ex:
        _viol(res, cfg, "params:construction-raises-non-ValueError", {"exception": type(ex).__name__}, 1.0, 0.0, {"message": str(ex)[:200]})
        res["digest"] = dg.add("exc", type(ex).__name__).hex()
        res.pop("_w")
        return res
    res["nontrivial"].append(key)
    # a second, clearly different material is constructed AFTER the solver under test and before it is evaluated: the six
    # moduli and the fields of `s` must describe s's own material, not the most recently constructed one (added after the
    # seeded change S-C15-2, where _run read the class-level dictionary that every constructor overwrites)
    try:
        with warnings.catch_warnings():
            warnings.simplefilter("ignore")
            Blake(shear_mod=3.7 * G, poisson_ratio=(0.31 if abs(nu - 0.31) > 0.05 else 0.17), ref_density=1234.5)
        C["decoy_materials_constructed"] = 1
    except Exception:
        C["decoy_construction_failed"] = 1
    got = check_params(res, cfg, s, pair, ref)
    dg.add([got[n] for n in NAMES])
    check_fields(res, cfg, s, got, tier, key, dg)
    res["sample"] = {"kwargs": kw, "six": got, "times_over_T": TIME_FACTORS[tier], "n_radii": NPTS[tier] + 4}
    for k_, v in res.pop("_w").items():
        # worst passing residuals, kept as integer counters in units of 1e-18 so the evidence shows the calibration margin
        C["worst_e-18:" + k_] = max(C.get("worst_e-18:" + k_, 0), int(v * 1e18))
    res["digest"] = dg.hex()
    return res


def postprocess(agg, tier):
    # the engine sums counters; turn the summed "worst" counters into maxima over tasks
    worst = {}
    for r in agg["results"]:
        if not r:
            continue
        for k, v in r["counters"].items():
            if k.startswith("worst_e-18:"):
                worst[k] = max(worst.get(k, 0), v)
    for k in list(agg["counters"]):
        if k.startswith("worst_e-18:"):
            del agg["counters"][k]
    return {"worst_passing_residual": {k.split(":", 1)[1]: v * 1e-18 for k, v in sorted(worst.items())}}
