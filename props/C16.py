"""C16 -- EOS library closures and Newton Jacobians of the black-box Noh solver are self-consistent.

Mode L, three task kinds, each a complete enumeration of a finite lattice on the real code:

  eos     every EOS class x constants lattice x (rho, P or e) state lattice on both sides of every piecewise branch:
            P(rho, e(rho,P)) = P,  e(rho, P(rho,e)) = e,  each analytic partial = 4th-order central difference of its
            closure at three step sizes (stencils never straddle the Steinberg branch point rho_ref).  Methods are called
            positionally in the order the residual classes use: de_drho(rho, P), de_dP(rho, P), dP_drho(rho, e), dP_de(rho, e).
  jac     the four residual classes x EOS x symmetry x initial states x a 5x5(x5) lattice of evaluation states:
            F_prime = finite-difference Jacobian of F entry by entry;  F_prime_inv @ F_prime = I.
  newton  every EOS x geometry wrapper x initial state x starting guess: solve_jump_conditions(); when it returns
            (= reports convergence) from a physically reasonable guess, the returned (rho, e, D) satisfies the three
            documented jump conditions and D > 0.

"Physically reasonable starting guess" is fixed here as: rho_guess >= rho0, second component > 0, D_guess > 0, rho_guess
inside the EOS's domain.  The class default [1.5, 0.5, 0.5] satisfies it for rho0 = 1 (it is what every user gets who
does not call set_new_solver_initial_guess) and so do the guesses of the shipped example.
The jump conditions are the three equations of the package docstring, nothing else:
  rho_L = rho0 (1 - u0/D)^(m+1),   P_L = P0 - rho_L D u0,   e_L = e0 + u0^2/2 - u0 P0/(rho_L D).
"""
import contextlib
import io
import itertools
import math

import numpy as np

from xpmc.engine import Digest

ID = "C16"
LEVEL = "exploration"
TECHNIQUE = ("bounded exhaustive enumeration on the real code: EOS classes x constants x state lattices (both sides of every "
             "piecewise branch), residual classes x EOS x symmetry x initial states x evaluation-state lattices, Newton solves "
             "over EOS x geometry x initial state x starting guess; finite-difference, matrix-identity and jump-condition "
             "oracles on every case (explicit-state exploration, mode L)")
CLAIM = ("Every EOS class of the library with every constants vector of its lattice is evaluated on a full (rho, P|e) state lattice "
         "covering both sides of the Steinberg branch point; both closures and all four partials are checked at every state. Every "
         "residual class is instantiated for every (EOS, symmetry, initial state) of the lattice and F_prime / F_prime_inv are checked "
         "entry by entry on a full lattice of evaluation states. Every (EOS, geometry, initial state, starting guess) of the Newton "
         "lattice is solved through the front end, on one re-used newton_solver object, again after an EOS constant was changed through its public setter, and under an iteration cap of 3; each reported convergence is judged. Exhaustive over the stated lattices; right level because the "
         "failure modes are formula slips (argument order, missing factors, signs) that are wrong on open sets of states, which a "
         "lattice touching every branch and every off-default constant exposes.")
LEVEL_NOTE = ("trusted: numpy, the finite-difference stencils, the transcription of the three documented jump conditions; assumed: "
              "defects confined to states/constants between lattice values are not seen; derivative identities are decided to 1e-6 "
              "by finite differences, not exactly; 'physically reasonable starting guess' is the rule stated in the module docstring")
BOUND = {"quick": "33 EOS instances x 17 densities x 12 values; 4 residual classes x 33 EOS x 3 symmetries x 4 initial states x 7^3 states; "
                  "Newton: 12 EOS x 3 geometries x 2-5 initial states x 4-7 guesses x 2 modes",
         "thorough": "43 EOS instances (10 more with gamma 1.2 / 2.0 and off-example constants) x 17 densities x 12 values; 4 residual classes x 43 EOS x "
                     "3 symmetries x 4 initial states x 7^3 states; Newton: 22 EOS x 3 geometries x 2-5 initial states x 4-7 guesses x 2 modes"}
RULE = ("tasks = (kind, EOS instance[, residual class, symmetry, initial state | geometry, initial state]); an evaluation is one call of a "
        "public EOS / residual / solver method; a case is non-trivial and distinct by (EOS, state) for closures, by (residual, EOS, "
        "symmetry, initial state, evaluation state) for Jacobians with a finite non-singular F_prime, and by (EOS, geometry, initial "
        "state, guess) for Newton solves that returned; constructor ValueError = inadmissible vector, counted")
ASSUMPTIONS = [
    "states, constants, initial states and guesses outside the lattices are not explored",
    "domain of validity: rho > 0, b*rho < 0.95 (Noble-Abel, Carnahan-Starling), rho/rho_ref <= 2.2 (Steinberg, below the pole of the Hugoniot fit), P, e >= 0",
    "a starting guess is physically reasonable when rho_guess >= rho0, second component > 0, D_guess > 0 and rho_guess is in the EOS domain",
    "the Newton solver's stopping rule is |step| and |F| <= 1e-6 (its default); jump conditions are judged to 1e-5 of the sum of the magnitudes of their terms",
    "Newton outcomes that raise (IterationError, ZeroDensityError, ...) are counted, not judged: no convergence was reported",
]

G53 = 5.0 / 3.0
SQ = math.sqrt(G53)
AL = ["aluminum"]
# generic Steinberg with a second parameter set: non-zero reference pressure and non-zero s_2, s_3 so that every term is exercised
ST2 = ["steinberg", 8.93, 1.0e9, 2.02, 0.47, 3.94e5, 1.489, 0.3, -0.2]
# copper-like set (Steinberg's table, linear Us-up fit)
ST3 = ["steinberg", 8.93, 0.0, 2.02, 0.47, 3.94e5, 1.489, 0.0, 0.0]

TOL_CLOSURE = 1e-10   # round trips, relative to |value| + EOS scale: measured 2.8e-14 (thorough lattice)
TOL_PARTIAL = 1e-6    # analytic partial vs central difference: measured 2.0e-9 (recorded defects and seeded changes: 0.05 .. 2.0)
TOL_JAC = 1e-6        # F_prime entry vs FD: measured 3.2e-9 (recorded defects and seeded changes: 8.6e-4 .. 2.0)
TOL_INV = 1e-9        # (F_prime_inv @ F_prime - I), variable-scaled: measured 1.7e-11 (seeded change: 0.55)
TOL_JUMP = 1e-5       # jump conditions, |sum|/(sum|.| + scale): measured 1.6e-8 (2.0e-13 once pressure_noh_residual.F_prime[2,0] is repaired);
                      # 10x the 1e-6 the solver's own stopping rule guarantees at unit scale; seeded changes: 0.59 .. 1.0
FD_REL = (1e-2, 1e-3, 1e-4)


# ----------------------------------------------------------------------------------------------------------------- EOS

def eos_instances(tier):
    out = []
    for g in (G53, 1.4, 3.0):
        out.append(["ideal", g])
    for g in (G53, 1.4, 3.0):
        for cs in (SQ, 2.0):
            for ri in (1.0, 0.5):
                out.append(["stiff", g, cs, ri])
    for g in (G53, 1.4, 3.0):
        for b in (0.01, 0.1):
            out.append(["noble_abel", g, b])
    for g in (G53, 1.4, 3.0):
        for b in (1, 0.01, 0.1):
            out.append(["carnahan", g, b])
    out += [AL, ST2, ST3]
    if tier == "deep":      # thorough tier only: parameter values no shipped example uses
        for g in (1.2, 2.0):
            out += [["ideal", g], ["stiff", g, 1.0, 2.0], ["stiff", g, 3.0, 0.25], ["noble_abel", g, 0.3], ["carnahan", g, 0.3]]
    return out


JAC_EOS_QUICK = [["ideal", G53], ["ideal", 1.4], ["stiff", G53, SQ, 1.0], ["stiff", 1.4, 2.0, 0.5], ["noble_abel", G53, 0.01],
                 ["noble_abel", 1.4, 0.1], ["carnahan", G53, 0.01], AL, ST2]
NEWTON_EOS = {"quick": [["ideal", G53], ["ideal", 1.4], ["stiff", G53, SQ, 1.0], ["noble_abel", G53, 0.01], ["noble_abel", 1.4, 0.1],
                        ["carnahan", G53, 0.01], AL],
              "thorough": [["ideal", G53], ["ideal", 1.4], ["ideal", 3.0], ["stiff", G53, SQ, 1.0], ["stiff", 1.4, 2.0, 0.5],
                           ["noble_abel", G53, 0.01], ["noble_abel", 1.4, 0.1], ["carnahan", G53, 0.01], ["carnahan", 1.4, 0.1],
                           AL, ST2, ST3]}


def make_eos(tag):
    from exactpack.solvers.nohblackboxeos.equations_of_state import eos_library as E
    k = tag[0]
    if k == "ideal":
        return E.ideal_gas_eos(gamma=tag[1])
    if k == "stiff":
        return E.stiffened_gas_eos(gamma=tag[1], c_s=tag[2], rho_inf=tag[3])
    if k == "noble_abel":
        return E.noble_abel_eos(gamma=tag[1], b=tag[2])
    if k == "carnahan":
        return E.carnahan_starling_eos(gamma=tag[1], b=tag[2])
    if k == "aluminum":
        return E.aluminum_eos()
    if k == "steinberg":
        return E.steinberg(*tag[1:])
    raise KeyError(tag)


def eos_meta(tag):
    """Scales, domain and branch point, from the constants supplied (inputs), never from the code under test."""
    k = tag[0]
    m = {"kind": k, "rho_s": 1.0, "P_s": 1.0, "e_s": 1.0, "c_s": 1.0, "kink": None, "rho_max": float("inf")}
    if k == "stiff":
        m["P_s"] = max(1.0, tag[2] ** 2 * tag[3])
        m["e_s"] = max(1.0, tag[2] ** 2)
    if k in ("noble_abel", "carnahan"):
        m["rho_max"] = 0.95 / tag[2]
        m["rho_s"] = min(1.0, 0.3 / tag[2])
    if k in ("aluminum", "steinberg"):
        ref, c0 = (2.703, 0.524e6) if k == "aluminum" else (tag[1], tag[5])
        m.update({"rho_s": ref, "P_s": ref * c0 ** 2, "e_s": c0 ** 2, "c_s": c0, "kink": ref, "rho_max": 2.2 * ref * (1 + 1e-12)})
    return m


def eos_cfg(tag):
    c = {"eos": list(tag), "eos_kind": tag[0]}
    names = {"ideal": ["gamma"], "stiff": ["gamma", "c_s", "rho_inf"], "noble_abel": ["gamma", "b"], "carnahan": ["gamma", "b"],
             "aluminum": [], "steinberg": ["reference_density", "reference_pressure", "reference_gruneisen", "b", "c_0", "s_1", "s_2", "s_3"]}
    for n, v in zip(names[tag[0]], tag[1:]):
        c[n] = v
    return c


RHO_GAS = {"quick": [0.05, 0.3, 0.9, 1.0, 1.5, 4.0, 8.0, 20.0, 60.0],
           "thorough": [0.01, 0.05, 0.1, 0.3, 0.5, 0.9, 1.0, 1.5, 2.5, 4.0, 6.0, 8.0, 12.0, 20.0, 35.0, 60.0, 90.0]}
RHO_STEIN = {"quick": [0.5, 0.8, 0.95, 0.999, 1.0, 1.001, 1.05, 1.3, 1.8, 2.2],
             "thorough": [0.3, 0.5, 0.8, 0.9, 0.95, 0.99, 0.999, 1.0, 1.001, 1.01, 1.05, 1.15, 1.3, 1.5, 1.8, 2.0, 2.2]}
VALS = {"quick": [0.0, 1e-3, 0.3, 1.0, 4.0 / 3.0, 7.0, 100.0],
        "thorough": [0.0, 1e-6, 1e-3, 0.05, 0.3, 1.0, 4.0 / 3.0, 2.5, 7.0, 30.0, 100.0, 1e4]}


def _d4(f, x, h):
    return (f(x - 2 * h) - 8.0 * f(x - h) + 8.0 * f(x + h) - f(x + 2 * h)) / (12.0 * h)


def tasks(tier, seed):
    # the quick tier runs what used to be the thorough lattices (23 s on 12 cores); the thorough tier adds the 'deep' EOS
    # instances to all three sub-checks.  `tier` below is the PARAMETER tier of the lattices.
    deep = tier == "thorough"
    tier = "thorough"
    out = []
    for tag in eos_instances("deep" if deep else tier):
        out.append({"kind": "eos", "eos": tag, "tier": tier})
    jac_eos = eos_instances("deep" if deep else tier)
    for tag in jac_eos:
        for rc in RESIDUALS:
            for sym in (0, 1, 2):
                for ic in range(len(IC_JAC)):
                    out.append({"kind": "jac", "eos": tag, "residual": rc, "symmetry": sym, "ic": ic, "tier": tier})
    for tag in NEWTON_EOS[tier] + ([t for t in eos_instances("deep") if t not in eos_instances("thorough")] if deep else []):
        for geom in (1, 2, 3):
            for ic in range(len(newton_ics(tag, tier))):
                out.append({"kind": "newton", "eos": tag, "geometry": geom, "ic": ic, "tier": tier})
    # one task of each kind first, so the written-out samples of the evidence show all three kinds
    first = [next(i for i, t in enumerate(out) if t["kind"] == k) for k in ("eos", "jac", "newton")]
    return [out[i] for i in first] + [t for i, t in enumerate(out) if i not in first]


def _new_res():
    return {"evals": 0, "nontrivial": [], "violations": [], "counters": {}, "sample": None, "_w": {}}


def _finish(res, dg):
    C = res["counters"]
    for k, v in res.pop("_w").items():
        C["worst_e-18:" + k] = int(min(v, 9.0) * 1e18)
    res["digest"] = dg.hex()
    return res


def reduced_partial(tag, eos, name, rho, y, an, fds, side, call):
    """Reduced oracles (DESIGN.md 3.6): which *recorded* defect, if any, explains this failing partial exactly.

    'swapped-args-missing-P'  Carnahan-Starling de_drho(rho, P) returns d/drho[1/(Z(b rho) rho (gamma-1))] evaluated at rho := P,
                              i.e. the derivative of e(., P=1) at the density P (arguments swapped, factor P missing); where that
                              density is 0 or on the pole b*P = 1 it raises.
    'dPinf-sign'              Steinberg, rho >= rho_ref: dPinf_drho is too large by 2 c0^2 rho_ref eta poly'(eta)/poly(eta)^2 * deta/drho;
                              dP_drho and de_drho inherit exactly that error (directly and through deinf_drho).
    Anything else returns 'none' and is reported as a new violation even when the recorded defects are listed."""
    try:
        if tag[0] == "carnahan" and name == "de_drho":
            b = tag[2]
            if an is None:
                return "swapped-args-missing-P" if (y == 0 or abs(b * y - 1.0) < 1e-12) else "none"
            best = float("inf")
            for hr in FD_REL:
                h = hr * y
                if y - 2 * h <= 0 or (b * (y - 2 * h) - 1.0) * (b * (y + 2 * h) - 1.0) <= 0:
                    continue
                alt = _d4(lambda x: call(eos.e, x, 1.0), y, h)
                best = min(best, abs(an - alt) / max(abs(an), abs(alt), 1e-300))
            return "swapped-args-missing-P" if best <= TOL_PARTIAL else "none"
        if tag[0] in ("aluminum", "steinberg") and name in ("dP_drho", "de_drho") and side == "rho>=rho_ref" and an is not None:
            ref, g0, bb, c0 = eos.reference_density, eos.reference_gruneisen, eos.b, eos.c_0
            s1, s2, s3 = eos.s_1, eos.s_2, eos.s_3
            eta = 1.0 - ref / rho
            q = 1.0 - s1 * eta - s2 * eta ** 2 - s3 * eta ** 3
            poly, dpoly = q * q, 2.0 * q * (-s1 - 2.0 * s2 * eta - 3.0 * s3 * eta ** 2)
            dPinf_err = 2.0 * c0 ** 2 * ref * eta * dpoly / poly ** 2 * ref / rho ** 2
            gru = g0 * (1.0 - eta) + bb * eta
            err = dPinf_err * (1.0 - rho * gru * eta / (2.0 * ref)) if name == "dP_drho" else dPinf_err * (-1.0 / (rho * gru) + eta / (2.0 * ref))
            m = min(abs(an - (fd + err)) / max(abs(an), abs(fd), abs(err), 1e-300) for fd in fds)
            return "dPinf-sign" if m <= 1e-5 else "none"
    except Exception:
        pass
    return "none"


def run_eos(task):
    tier = task["tier"]
    tag = task["eos"]
    meta = eos_meta(tag)
    cfg = eos_cfg(tag)
    res = _new_res()
    C, W = res["counters"], res["_w"]
    dg = Digest()
    eos = make_eos(tag)
    res["evals"] += 1
    solver = type(eos).__name__
    kink = meta["kink"]
    if kink:
        rhos = [x * kink for x in RHO_STEIN[tier]]
    else:
        rhos = [x for x in RHO_GAS[tier] if x < meta["rho_max"]]
    Ps, es = meta["P_s"], meta["e_s"]
    agg = {}     # (clause, where) -> [worst, state, nbad, n, detail, tol, where]

    def note(clause, where, m, state, tol, detail=None):
        key = (clause, tuple(sorted(where.items())))
        a = agg.setdefault(key, [0.0, None, 0, 0, None, tol, where])
        a[3] += 1
        if not m <= tol:
            a[2] += 1
            if a[1] is None or m > a[0] or a[0] != a[0]:
                a[0], a[1], a[4] = (m if m == m else 1.0), state, detail
        else:
            W[clause] = max(W.get(clause, 0.0), m)

    def call(fn, *a):
        res["evals"] += 1
        return float(fn(*a))

    for rho in rhos:
        side = "" if not kink else ("rho>=rho_ref" if rho >= kink else "rho<rho_ref")
        for v in VALS[tier]:
            P, e = v * Ps, v * es
            res["nontrivial"].append("%s|%r|%r" % (tag, rho, v))
            # closures are mutual inverses
            for clause, f1, f2, x, xs in (("closure:P(rho,e(rho,P))=P", eos.e, eos.P, P, Ps), ("closure:e(rho,P(rho,e))=e", eos.P, eos.e, e, es)):
                try:
                    back = call(f2, rho, call(f1, rho, x))
                    m = abs(back - x) / (abs(x) + xs)
                    dg.add(back)
                    note(clause, {"side": side}, m if m == m else 1.0, [rho, v], TOL_CLOSURE, {"in": x, "back": back})
                except Exception as ex:
                    C["exc:" + type(ex).__name__] = C.get("exc:" + type(ex).__name__, 0) + 1
                    note(clause, {"side": side}, 1.0, [rho, v], TOL_CLOSURE, {"exception": type(ex).__name__ + ": " + str(ex)[:120]})
            if kink and rho == kink:
                C["states_on_branch_point_closures_only"] = C.get("states_on_branch_point_closures_only", 0) + 1
                continue
            # analytic partials, called in the argument order of the residual classes
            for name, an_f, clo, wrt_rho, y in (("de_drho", eos.de_drho, eos.e, True, P), ("de_dP", eos.de_dP, eos.e, False, P),
                                                ("dP_drho", eos.dP_drho, eos.P, True, e), ("dP_de", eos.dP_de, eos.P, False, e)):
                clause = "partial:" + name
                try:
                    an = call(an_f, rho, y)
                    dg.add(an)
                except Exception as ex:
                    C["exc:" + type(ex).__name__] = C.get("exc:" + type(ex).__name__, 0) + 1
                    red = reduced_partial(tag, eos, name, rho, y, None, None, side, call)
                    note(clause, {"side": side, "reduced": red}, 1.0, [rho, v], TOL_PARTIAL, {"exception": type(ex).__name__ + ": " + str(ex)[:120]})
                    continue
                ys = Ps if name.startswith("de") else es          # scale of the held/varied second argument
                fs = es if name.startswith("de") else Ps          # scale of the function value
                if wrt_rho:
                    x0, xs, dscale = rho, rho, fs / rho
                    f = lambda x: call(clo, x, y)
                else:
                    x0, xs, dscale = y, (ys if y == 0 else max(abs(y), 1e-3 * ys)), fs / ys
                    f = lambda x: call(clo, rho, x)
                best = None
                fds = []
                for hr in FD_REL:
                    h = hr * xs
                    if wrt_rho and kink and (x0 - 2 * h - kink) * (x0 + 2 * h - kink) <= 0:
                        continue
                    if wrt_rho and (x0 - 2 * h <= 0 or x0 + 2 * h >= meta["rho_max"] / 0.95):
                        continue
                    try:
                        fd = _d4(f, x0, h)
                    except Exception as ex:
                        C["exc_fd:" + type(ex).__name__] = C.get("exc_fd:" + type(ex).__name__, 0) + 1
                        continue
                    m = abs(an - fd) / (max(abs(an), abs(fd)) + 1e-6 * dscale)
                    m = m if m == m else 1.0
                    fds.append(fd)
                    if best is None or m < best[0]:
                        best = (m, fd)
                if best is None:
                    C["partials_without_stencil"] = C.get("partials_without_stencil", 0) + 1
                    continue
                where = {"side": side}
                if not best[0] <= TOL_PARTIAL:
                    where["reduced"] = reduced_partial(tag, eos, name, rho, y, an, fds, side, call)
                note(clause, where, best[0], [rho, v], TOL_PARTIAL, {"analytic": an, "central_difference": best[1]})
    for key, (worst, state, nbad, n, detail, tol, where) in sorted(agg.items()):
        clause = key[0]
        if nbad:
            res["violations"].append({"solver": solver, "cfg": cfg, "clause": clause, "where": where, "value": worst, "tol": tol,
                                      "detail": {"worst_state_rho_value": state, "n_bad_states": nbad, "n_states": n, "worst": detail}})
    C["eos_states"] = len(rhos) * len(VALS[tier])
    res["sample"] = {"kind": "eos", "eos": tag, "class": solver, "densities": rhos, "value_factors": VALS[tier], "P_scale": Ps, "e_scale": es}
    return _finish(res, dg)


# ------------------------------------------------------------------------------------------------------------ Jacobians

RESIDUALS = ["energy_noh_residual", "simplified_energy_noh_residual", "pressure_noh_residual", "simplified_pressure_noh_residual"]
# which EOS partial an entry of F_prime contains (from the documented residual equations)
DEP = {"energy_noh_residual": {"2,0": "de_drho", "2,1": "de_dP"}, "simplified_energy_noh_residual": {"1,0": "de_drho", "1,1": "de_dP"},
       "pressure_noh_residual": {"1,0": "dP_drho", "1,1": "dP_de"}, "simplified_pressure_noh_residual": {"0,0": "dP_drho", "0,1": "dP_de"}}
# initial states in units of the EOS scales (rho_s, c_s, P_s): rho0, u0, P0
IC_JAC = [(1.0, -1.0, 0.0), (2.5, -0.5, 0.0), (1.0, -1.0, 0.1), (2.5, -2.0, 0.4)]
JAC_RHO = {"quick": [0.5, 1.3, 2.0, 4.0, 6.5], "thorough": [0.5, 0.8, 1.3, 2.0, 3.0, 4.0, 6.5]}
JAC_RHO_STEIN = {"quick": [0.6, 0.97, 1.03, 1.4, 2.0], "thorough": [0.6, 0.9, 0.97, 1.03, 1.2, 1.4, 2.0]}
JAC_VAL = {"quick": [0.02, 0.5, 1.0, 3.0, 40.0], "thorough": [0.02, 0.2, 0.5, 1.0, 3.0, 10.0, 40.0]}
JAC_D = {"quick": [0.2, 1.0 / 3.0, 0.5, 1.0, 2.0], "thorough": [0.1, 0.2, 1.0 / 3.0, 0.5, 1.0, 2.0, 5.0]}


def explain_entry(eos, rc, dep, x, ic, kink, J, FDs):
    """Reduced oracle for a failing F_prime entry: is it wrong by *exactly* a recorded kind of error?

    'eos-partial'  the entry contains an EOS partial (DEP) and  F_prime - FD  equals  factor * (analytic partial - central
                   difference of the closure)  at this state, i.e. the residual class is right and only the EOS partial it calls is
                   wrong (factor = 1, or 1 - rho0/rho in simplified_pressure_noh_residual, from the documented equations);
    'sign-flip'    the entry equals minus its finite difference;
    'none'         anything else (reported as a new violation even when the recorded defects are listed)."""
    try:
        if dep != "none":
            rho, y = x[0], x[1]
            clo = eos.e if dep.startswith("de") else eos.P
            an = float(getattr(eos, dep)(rho, y))
            factor = (1.0 - ic["density"] / rho) if rc == "simplified_pressure_noh_residual" else 1.0
            for hr in FD_REL:
                if dep.endswith("rho"):
                    h = hr * rho
                    if kink and (rho - 2 * h - kink) * (rho + 2 * h - kink) <= 0:
                        continue
                    fd = _d4(lambda z: float(clo(z, y)), rho, h)
                else:
                    h = hr * abs(y)
                    fd = _d4(lambda z: float(clo(rho, z)), y, h)
                dE = factor * (an - fd)
                for FD in FDs:          # the finite differences of F at every step size that had a stencil
                    if abs((J - FD) - dE) <= 1e-5 * max(abs(J - FD), abs(dE)):
                        return "eos-partial"
        if J != 0 and any(abs(J + FD) <= 1e-6 * max(abs(J), abs(FD)) for FD in FDs):
            return "sign-flip"
    except Exception:
        pass
    return "none"


def run_jac(task):
    from exactpack.solvers.nohblackboxeos.solution_tools import residual_functions as R
    tier = task["tier"]
    tag, rc, sym = task["eos"], task["residual"], task["symmetry"]
    meta = eos_meta(tag)
    f0, fu, fp = IC_JAC[task["ic"]]
    ic = {"density": f0 * meta["rho_s"], "velocity": fu * meta["c_s"], "pressure": fp * meta["P_s"], "symmetry": sym}
    cfg = eos_cfg(tag)
    cfg.update({"residual": rc, "symmetry": sym, "density": ic["density"], "velocity": ic["velocity"], "pressure": ic["pressure"]})
    res = _new_res()
    C, W = res["counters"], res["_w"]
    dg = Digest()
    eos = make_eos(tag)
    try:
        with contextlib.redirect_stdout(io.StringIO()):
            rf = getattr(R, rc)(dict(ic), eos)
        res["evals"] += 1
    except ValueError as ex:
        C["inadmissible_vectors"] = 1
        return _finish(res, dg.add("ValueError"))
    dim = 3 if rc in ("energy_noh_residual", "pressure_noh_residual") else 2
    kink = meta["kink"]
    if kink:
        rhos = [x * kink for x in JAC_RHO_STEIN[tier]]
    else:
        rhos = [x * ic["density"] for x in JAC_RHO[tier] if x * ic["density"] < meta["rho_max"]]
    vs = [v * (meta["P_s"] if "energy" in rc else meta["e_s"]) for v in JAC_VAL[tier]]
    Ds = [d * abs(ic["velocity"]) for d in JAC_D[tier]]
    grid = list(itertools.product(rhos, vs, Ds)) if dim == 3 else list(itertools.product(rhos, vs))
    agg = {}

    def note(clause, where, m, state, tol, detail):
        key = (clause, tuple(sorted(where.items())))
        a = agg.setdefault(key, [0.0, None, 0, 0, None, tol, where])
        a[3] += 1
        if not m <= tol:
            a[2] += 1
            if a[1] is None or m > a[0]:
                a[0], a[1], a[4] = (m if m == m else 1.0), state, detail
        else:
            W[clause] = max(W.get(clause, 0.0), m)

    def Fv(x):
        res["evals"] += 1
        return np.array(rf.F(list(x)), dtype=float).copy()

    for x in grid:
        x = [float(c) for c in x]
        side = "" if not kink else ("rho>=rho_ref" if x[0] >= kink else "rho<rho_ref")
        try:
            with contextlib.redirect_stdout(io.StringIO()):
                J = np.array(rf.F_prime(list(x)), dtype=float).copy()
                Ji = np.array(rf.F_prime_inv(list(x)), dtype=float).copy()
                F0 = Fv(x)
            res["evals"] += 2
        except Exception as ex:        # singular Jacobian, EOS pole ...: counted (C20's business), not judged
            C["exc:" + type(ex).__name__] = C.get("exc:" + type(ex).__name__, 0) + 1
            dg.add("exc", type(ex).__name__)
            continue
        dg.add(J, Ji, F0)
        if not (np.isfinite(J).all() and np.isfinite(Ji).all()):
            C["nonfinite_jacobian_states"] = C.get("nonfinite_jacobian_states", 0) + 1
            continue
        res["nontrivial"].append("%s|%s|%d|%d|%r" % (tag, rc, sym, task["ic"], x))
        ax = np.abs(np.array(x))
        best = None
        allFD = []
        for hr in FD_REL:
            if kink and (x[0] * (1 - 2 * hr) - kink) * (x[0] * (1 + 2 * hr) - kink) <= 0:
                continue
            FD = np.zeros((dim, dim))
            try:
                for j in range(dim):
                    h = hr * ax[j]
                    def f(d, j=j):
                        y = list(x)
                        y[j] += d
                        return Fv(y)
                    FD[:, j] = (f(-2 * h) - 8.0 * f(-h) + 8.0 * f(h) - f(2 * h)) / (12.0 * h)
            except Exception as ex:
                C["exc_fd:" + type(ex).__name__] = C.get("exc_fd:" + type(ex).__name__, 0) + 1
                continue
            # scale of entry (i,j): magnitude of F_i's variation over O(1) relative changes of the variables, per unit x_j
            S = (np.abs(F0) + np.abs(FD) @ ax)[:, None] / ax[None, :]
            with np.errstate(all="ignore"):
                m = np.abs(J - FD) / (np.maximum(np.abs(J), np.abs(FD)) + 1e-4 * S)
            m = np.where(np.isfinite(m), m, 1.0)
            allFD.append(FD)
            if best is None:
                best, bestFD = m, FD
            else:
                bestFD = np.where(m < best, FD, bestFD)
                best = np.minimum(best, m)
        if best is None:
            C["states_without_stencil"] = C.get("states_without_stencil", 0) + 1
        else:
            for i in range(dim):
                for j in range(dim):
                    ent = "%d,%d" % (i, j)
                    where = {"entry": ent, "dep": DEP[rc].get(ent, "none"), "side": side}
                    if not best[i, j] <= TOL_JAC:
                        where["explained"] = explain_entry(eos, rc, where["dep"], x, ic, kink, float(J[i, j]), [float(A[i, j]) for A in allFD])
                    note("jacobian:F_prime", where, float(best[i, j]), x, TOL_JAC,
                         {"F_prime": float(J[i, j]), "central_difference": float(bestFD[i, j])})
        # inverse: (Ji @ J - I)_ij, each dot product normalised by the sum of the magnitudes of its terms plus the
        # variable-scaled unit |x_i|/|x_j| (Ji @ J is invariant under row scalings of F and scales like x_i/x_j)
        Eij = Ji @ J - np.eye(dim)
        den = np.abs(Ji) @ np.abs(J) + ax[:, None] / ax[None, :]
        mi = np.abs(Eij) / den
        i, j = np.unravel_index(int(np.argmax(mi)), mi.shape)
        note("jacobian:F_prime_inv@F_prime=I", {"side": side}, float(mi[i, j]), x, TOL_INV, {"entry": "%d,%d" % (i, j), "product_minus_identity": float(Eij[i, j])})
    for key, (worst, state, nbad, n, detail, tol, where) in sorted(agg.items()):
        if nbad:
            res["violations"].append({"solver": rc, "cfg": cfg, "clause": key[0], "where": where, "value": worst, "tol": tol,
                                      "detail": {"worst_state": state, "n_bad_states": nbad, "n_states": n, "worst": detail}})
    C["jac_states"] = len(grid)
    res["sample"] = {"kind": "jac", "residual": rc, "eos": tag, "initial_conditions": ic, "n_states": len(grid), "first_state": list(grid[0]) if grid else None}
    return _finish(res, dg)


# --------------------------------------------------------------------------------------------------------------- Newton

# guesses for the gas EOS in units (rho0, u0^2, |u0|); the first four are xpmc.hydro_more.BBNOH_GUESS (asserted in postprocess())
GUESS_GAS = {"quick": [[5.0, 1.0, 1.0], "default", [3.0, 0.5, 0.4], [8.0, 0.7, 0.3]],
             "thorough": [[5.0, 1.0, 1.0], "default", [3.0, 0.5, 0.4], [8.0, 0.7, 0.3], [2.0, 0.5, 0.5], [15.0, 1.0, 1.0], [50.0, 1.0, 0.5]]}
# absolute guesses for the metals (cgs): the shipped example's, the class default, two more near the acoustic limit
GUESS_AL = {"quick": [[2.7, 1.55174098e8, 524230.0], "default", [3.0, 2.0e8, 6.0e5], [2.75, 1.6e8, 5.0e5]],
            "thorough": [[2.7, 1.55174098e8, 524230.0], "default", [3.0, 2.0e8, 6.0e5], [2.75, 1.6e8, 5.0e5], [3.244, 1.2e10, 5.24e5], [5.4, 1.5e8, 2.6e5]]}
GUESS_CU = {"quick": [[8.93, 1.0e8, 4.0e5], "default", [9.5, 2.0e8, 5.0e5]],
            "thorough": [[8.93, 1.0e8, 4.0e5], "default", [9.5, 2.0e8, 5.0e5], [9.0, 5.0e7, 3.9e5], [10.7, 1.0e10, 4.0e5]]}


def newton_ics(tag, tier):
    k = tag[0]
    if k == "aluminum":
        ics = [(2.7, -786.0, 20.0), (2.7, -786.0, 0.0)]
        if tier == "thorough":
            ics += [(2.703, -0.3 * 0.524e6, 0.0)]
        return ics
    if k == "steinberg":
        return [(8.9, -600.0, 0.0), (8.9, -600.0, 50.0)]
    ics = [(1.0, -1.0, 0.0), (3.0, -2.0, 0.0), (1.0, -1.0, 0.1), (3.0, -2.0, 1.0)]
    if tier == "thorough":
        ics += [(2.0, -1.0, 0.0)]
    return ics


def newton_guesses(tag, tier, ic):
    k = tag[0]
    if k == "aluminum":
        return [(g, g) for g in GUESS_AL[tier]]
    if k == "steinberg":
        return [(g, g) for g in GUESS_CU[tier]]
    r0, u0, _ = ic
    out = []
    for g in GUESS_GAS[tier]:
        out.append((g, g if g == "default" else [g[0] * r0, g[1] * u0 * u0, g[2] * abs(u0)]))
    return out


# EOS kind -> (index of the constant in the tag, public setter, factor by which the first solve's constant is off)
RESOLVE_SETTERS = {"noble_abel": (2, "set_new_co_volume", 3.0), "carnahan": (2, "set_new_co_volume", 3.0), "stiff": (2, "set_new_sound_speed", 1.3)}


def run_newton(task):
    from exactpack.solvers.nohblackboxeos import blackboxnoh as B
    tier = task["tier"]
    tag, geom = task["eos"], task["geometry"]
    meta = eos_meta(tag)
    r0, u0, p0 = newton_ics(tag, tier)[task["ic"]]
    cfg = eos_cfg(tag)
    cfg.update({"geometry": geom, "density": r0, "velocity": u0, "pressure": p0})
    res = _new_res()
    C, W = res["counters"], res["_w"]
    dg = Digest()
    clsname = {1: "PlanarNohBlackBox", 2: "CylindricalNohBlackBox", 3: "SphericalNohBlackBox"}[geom]
    m = geom - 1
    outcomes = []
    # every guess is solved twice: through the front end (a fresh wrapper per guess) and on ONE newton_solver object that is
    # given its function once and then only new starting guesses (multi-start); a 'converged' state must satisfy the jump
    # conditions in both (the second was added after the seeded change S2-C16-3: stale convergence state between solves)
    shared = {"ns": None, "eos": None}
    # third mode (EOS classes with public setters): the wrapper is built and solved on an EOS whose constant is off by a factor, the
    # constant is then set to the task's value through the EOS's public setter and solve_jump_conditions() is called again -- the
    # state it reports as converged must satisfy the jump conditions of the EOS as it now is (added after the seeded change
    # S3-C16-3: solve_jump_conditions() returned early when a solution was cached)
    # fourth mode: the public iteration cap lowered to 3 -- the solve either raises (no convergence reported) or reports a state,
    # and a reported state must satisfy the jump conditions (added after the seeded change S4-C16-2: the cap test folded into the
    # loop condition, so the last iterate was returned as the solution)
    modes = ["frontend", "one-newton-object"] + (["re-solve-after-eos-setter"] if tag[0] in RESOLVE_SETTERS else []) + ["iteration-cap-3"]
    for mode, (label, guess) in [(m_, lg) for m_ in modes for lg in newton_guesses(tag, tier, (r0, u0, p0))]:
        if mode == "re-solve-after-eos-setter":
            idx, setter, fac = RESOLVE_SETTERS[tag[0]]
            alt = list(tag)
            alt[idx] = alt[idx] * fac
            eos = make_eos(alt)
        else:
            eos = make_eos(tag) if mode == "frontend" else (shared["eos"] or make_eos(tag))
        try:
            with contextlib.redirect_stdout(io.StringIO()):
                if (r0, u0, p0) == (1, -1, 0):
                    # the standard Noh state is the wrappers' DEFAULT argument: use it as such, and construct the wrappers
                    # of the two other geometries (also with their defaults) between construction and solve -- the solve
                    # must still be for THIS wrapper's geometry (added after the seeded change S-C16-3: one dict shared by
                    # the three default arguments)
                    s = getattr(B, clsname)(eos)
                    for other in ("PlanarNohBlackBox", "CylindricalNohBlackBox", "SphericalNohBlackBox"):
                        if other != clsname:
                            getattr(B, other)(make_eos(tag))
                    C["solves_with_default_argument_and_decoy_wrappers"] = C.get("solves_with_default_argument_and_decoy_wrappers", 0) + 1
                else:
                    s = getattr(B, clsname)(eos, {"density": r0, "velocity": u0, "pressure": p0})
            res["evals"] += 1
        except ValueError:
            C["inadmissible_vectors"] = C.get("inadmissible_vectors", 0) + 1
            dg.add("ValueError")
            break
        if guess == "default":
            g = [float(c) for c in s.initial_guess]
        else:
            g = [float(c) for c in guess]
            s.set_new_solver_initial_guess(list(g))
        reasonable = (g[0] >= r0) and (g[1] > 0) and (g[2] > 0) and (g[0] < meta["rho_max"])
        glabel = "default" if label == "default" else ",".join("%g" % c for c in label)
        where = {"guess": glabel} if mode == "frontend" else {"guess": glabel, "mode": mode}
        try:
            with contextlib.redirect_stdout(io.StringIO()):
                if mode == "frontend":
                    s.solve_jump_conditions()
                elif mode == "iteration-cap-3":
                    # the front end's set_new_solver_max_iterations() keeps the number but never hands it to its newton_solver, and
                    # that newton_solver is ONE object shared by every black-box Noh instance (class attribute): the cap is set on it
                    # directly and restored afterwards, so that no later solve of this process inherits it
                    s.set_new_solver_max_iterations(3)
                    old_cap = s.solver.max_iterations
                    s.solver.set_new_max_iteration(3)
                    try:
                        s.solve_jump_conditions()
                    finally:
                        s.solver.set_new_max_iteration(old_cap)
                    C["solves_reported_under_iteration_cap_3"] = C.get("solves_reported_under_iteration_cap_3", 0) + 1
                elif mode == "re-solve-after-eos-setter":
                    try:
                        s.solve_jump_conditions()
                        C["first_solves_before_the_setter_converged"] = C.get("first_solves_before_the_setter_converged", 0) + 1
                    except Exception:
                        pass
                    getattr(eos, setter)(tag[idx])
                    s.solve_jump_conditions()
                    C["re_solves_after_eos_setter"] = C.get("re_solves_after_eos_setter", 0) + 1
                else:
                    from exactpack.solvers.nohblackboxeos.solution_tools import newton_solver, pressure_noh_residual
                    if shared["ns"] is None:
                        shared["eos"] = eos
                        shared["ns"] = newton_solver()
                        shared["ns"].set_function(pressure_noh_residual({"density": r0, "velocity": u0, "pressure": p0, "symmetry": m}, eos))
                    shared["ns"].set_new_initial_guess(list(g))
                    data = shared["ns"].solve(verbose=False)
                    s.solution_data = data
                    s.shocked_density, s.shocked_energy, s.shock_speed = (float(x) for x in data["solution"][:3])
                    s.shocked_pressure = float(eos.P(s.shocked_density, s.shocked_energy)) if s.shocked_density > 0 else float("nan")
                    C["solves_on_one_newton_object"] = C.get("solves_on_one_newton_object", 0) + 1
            res["evals"] += 1
        except Exception as ex:           # no convergence reported: counted, not judged
            C["newton_raised:" + type(ex).__name__] = C.get("newton_raised:" + type(ex).__name__, 0) + 1
            dg.add("exc", type(ex).__name__)
            outcomes.append([glabel, type(ex).__name__])
            continue
        rho, e, D, P = float(s.shocked_density), float(s.shocked_energy), float(s.shock_speed), float(s.shocked_pressure)
        dg.add(rho, e, D, P)
        outcomes.append([glabel, rho, e, D])
        if not reasonable:
            C["converged_from_guess_outside_the_reasonable_set"] = C.get("converged_from_guess_outside_the_reasonable_set", 0) + 1
            continue
        res["nontrivial"].append("%s|%d|%d|%s" % (tag, geom, task["ic"], glabel))
        C["converged_from_reasonable_guess"] = C.get("converged_from_reasonable_guess", 0) + 1
        detail = {"returned": {"rho": rho, "e": e, "D": D, "P": P}, "guess": g,
                  "iterations": int(s.solution_data["number_of_iterations"]), "error_achieved": float(s.solution_data["error_achieved"])}
        if mode != "frontend" and not D > 0:
            # the bare newton_solver is a generic root finder: the non-physical root D = u0 of the jump system is a root, and it is
            # the front end that rejects it (fix 9627f5f).  On the shared object only states offered as shocks (D > 0) are judged.
            C["one_newton_object_nonphysical_roots_not_judged"] = C.get("one_newton_object_nonphysical_roots_not_judged", 0) + 1
            continue
        if not D > 0:
            res["violations"].append({"solver": clsname, "cfg": cfg, "clause": "newton:positive-shock-speed", "where": where,
                                      "value": D if D == D else float("nan"), "tol": 0.0, "detail": detail})
        e0 = float(eos.e(r0, p0))
        try:
            Pchk = float(eos.P(rho, e)) if rho > 0 else 0.0
        except Exception:              # the returned state lies on a pole of the EOS
            Pchk = float("nan")
        with np.errstate(all="ignore"):
            up = r0 * (1.0 - u0 / D) ** (m + 1) if D != 0 else float("nan")
            terms = {"mass": ([rho, -up], r0), "momentum": ([P, -p0, rho * D * u0], r0 * u0 * u0),
                     "energy": ([e, -e0, -0.5 * u0 * u0, u0 * p0 / (rho * D) if rho * D != 0 else (0.0 if p0 == 0 else float("nan"))], u0 * u0),
                     "eos": ([P, -Pchk] if rho > 0 else [0.0, 0.0], r0 * u0 * u0)}
        worst, wname, nan = 0.0, None, False
        for name, (tt, scale) in terms.items():
            ssum, asum = sum(tt), sum(abs(x) for x in tt)
            # the solver stops on an absolute |F| <= 1e-6, so a condition whose terms all vanish (the rho -> 0 root) is
            # judged against the natural scale of that condition (rho0, rho0 u0^2, u0^2), not against its vanishing terms
            v = abs(ssum) / (asum + abs(scale))
            if not np.isfinite(v):
                v, nan = 1.0, True
            if v > worst:
                worst, wname = v, name
        if worst <= TOL_JUMP:
            if D > 0:
                W["newton:jump"] = max(W.get("newton:jump", 0.0), worst)
                C["converged_to_physical_root"] = C.get("converged_to_physical_root", 0) + 1
        else:
            detail = dict(detail)
            detail.update({"worst_condition": wname})
            w2 = dict(where)
            w2["nonfinite"] = int(nan)
            res["violations"].append({"solver": clsname, "cfg": cfg, "clause": "newton:jump-conditions", "where": w2,
                                      "value": worst, "tol": TOL_JUMP, "detail": detail})
    res["sample"] = {"kind": "newton", "class": clsname, "eos": tag, "initial_conditions": [r0, u0, p0], "outcomes": outcomes}
    return _finish(res, dg)


def run_task(task):
    np.seterr(all="ignore")
    return {"eos": run_eos, "jac": run_jac, "newton": run_newton}[task["kind"]](task)


def postprocess(agg, tier):
    from xpmc import hydro_more
    assert GUESS_GAS[tier][:4] == hydro_more.BBNOH_GUESS, "Newton guess lattice no longer contains hydro_more.BBNOH_GUESS"
    worst = {}
    for r in agg["results"]:
        if not r:
            continue
        for k, v in r["counters"].items():
            if k.startswith("worst_e-18:"):
                worst[k] = max(worst.get(k, 0), v)
    for k in list(agg["counters"]):
        if k.startswith("worst_e-18:"):
            del agg["counters"][k]
    kinds = {}
    for t in agg["task_list"]:
        kinds[t["kind"]] = kinds.get(t["kind"], 0) + 1
    return {"worst_passing_residual": {k.split(":", 1)[1]: v * 1e-18 for k, v in sorted(worst.items())}, "tasks_by_kind": kinds}
