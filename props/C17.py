"""C17 -- solutions are admissible: positive, compressive shocks, monotone fans, bounded.

Mode L: the configuration lattices of the solver families named in the property (K=1 quick, K=2 thorough), every
lattice time, on *fine point sequences*: 400 uniformly spaced points across each profile, 16 points straddling every
discontinuity located from the fields (inside the smeared cell for the class-C solvers), Mader on uniform grids
N in {50,100,101,257} x 16 grid-origin offsets x 3 times x u_piston {0, 2e4} x gamma {3, 2}, Su-Olson on a 12 x 8
(x, t) lattice.  Oracle: signs, ordering and monotonicity of the returned fields (no expected values).
"""
import math
import os

import numpy as np

from xpmc import hydro, hydro_more, lattice
from xpmc import x_c02_jumps as J
from xpmc import x_c02_families as X
from xpmc.engine import Digest
from xpmc.solvers import Inadmissible, call, construct

ID = "C17"
LEVEL = "exploration"
TECHNIQUE = ("bounded exhaustive enumeration of deviation-bounded parameter lattices on the real solvers (explicit-state exploration, "
             "mode L) with sign / ordering / monotonicity oracles on fine point sequences")
CLAIM = ("Every parameter vector within K deviations of the default (K=1 quick, K=2 thorough) of Noh, Sedov, Guderley, both 1D Riemann "
         "solvers (state lattice, the tabulated problems and their mirrors, JWL), EHEP, SDRZ, EP piston and the three radiative-shock "
         "solvers is called at every lattice time on 400 uniform points plus 16 points straddling every discontinuity located from the "
         "fields; Mader on every grid of {50,100,101,257} points x 16 origin offsets x 3 times x 3 piston speeds (0, +-2e4) x 3 gammas (3, 2, 3.5) (the cell "
         "phase of the Taylor-wave tail is enumerated); Su-Olson on a 12 x 8 (x, t) lattice per vector. Positivity, compressive shocks "
         "(direction from the speed implied by the located positions), monotone fans and boundedness of smeared cells are decided on "
         "every returned value. Exhaustive over the stated alphabet; right level because the failure modes are sign errors and one-cell "
         "overshoots whose occurrence depends on parameters and on the phase of a wave inside a cell, both of which are enumerated.")
LEVEL_NOTE = ("trusted: numpy, the locator in xpmc/x_c02_jumps.py, the memoised Guderley exponent and in-process memo of get_shock_position; "
              "assumed: overshoots narrower than the point spacing away from located structure are not seen; e and c are undefined (0/0) where "
              "rho = 0 exactly and are not judged there (C20); Su-Olson ordering is decided in energy variables (T/T_bc)^4 with an absolute "
              "floor of 3e-4, i.e. it is blind below T = 0.13 T_bc, the solver's quadrature noise")
BOUND = {"quick": "K=1 deviations from the default vector; Mader 768 grids; Su-Olson K=1 x 96 points", "thorough": "K=2 deviations; Su-Olson full product"}
RULE = ("tasks = all parameter vectors with <=K deviations from the default over each family's alphabet (x lattice time for heavy families; "
        "Mader: one task per (N, u_piston, gamma) covering 3 times x 16 offsets); an evaluation is one public solver call; a case is one "
        "profile (family, vector, time[, grid]); it is non-trivial when it contains at least one located discontinuity, fan, transition "
        "cell or a non-constant field; distinct by (family, vector, time, grid)")
ASSUMPTIONS = [
    "values outside the parameter/time/point alphabets are not explored",
    "documented vacua: EHEP regions ahead of the HE / behind the piston and the hole of a vacuum-type Sedov solution (rho = p = 0 exactly)",
    "a fan is a maximal run of consecutive sample points, between located discontinuities, along which the pressure varies (Riemann) or a maximal run of one returned region label (EHEP) or the whole profile (Mader)",
    "JWL problems are exempt from e >= 0: the zero of a JWL energy is a convention (the Lee problem's right star state has e = -1e-3 by expansion from e = 0.033)",
    "radiative shocks: the upstream end is the end of the profile whose density equals the parameter rho0 (documented reference state)",
    "Su-Olson: NaN temperatures are judged only where monotonicity implies a value above the noise floor",
]

FAMILIES = {   # name -> (K quick, K thorough, one task per time); heavy families first (load balance)
    "Guderley": (1, 2, True), "GenEOS": (1, 2, True), "GenEOS_table": (2, 2, True), "Sedov": (1, 2, True),
    "ED_Solver": (1, 2, False), "nED_Solver": (1, 1, False), "ie_Solver": (1, 2, False),
    "IGEOS": (1, 2, False), "IGEOS_table": (2, 2, False), "IGEOS_bnd": (2, 2, False), "Noh": (1, 2, False),
    "EHEP": (1, 2, False), "SDRZ": (1, 2, False), "EPpiston": (1, 2, False),
}
SUOLSON_ALPHABET = {"trad_bc_ev": [1.0e3, 500.0], "opac": [1.0, 2.5], "alpha": [3.02636565993931701e-14, 6.05273131987863402e-14]}
MADER_N = [50, 100, 101, 257]
MADER_UP = [0.0, 2.0e4, -2.0e4]       # full product with the gammas on both sides of 3: (gamma - 3) u_piston of either sign (S3-C17-2)
MADER_GAMMA = [3.0, 2.0, 3.5]
MADER_T = [2.0e-6, 4.0e-6, 6.25e-6]
NOFF = 16

NOISE = 1e-12          # relative size below which a difference between neighbouring values is rounding noise; a reversal must exceed 10 x
NOISE_C = {"GenEOS": 1e-10, "GenEOS_table": 1e-10}   # interpolated tables; measured: no reversal even at 1e-15 (Sod, ul=-1.5, pl=0.1, Einfeldt, Shyue, LeBlanc, Lee)
SMEAR_TOL = 1e-9       # value inside a smeared cell vs the interval spanned by the states on either side (linear ramp: measured 0)
RS_MIN_RISE = 1e-5     # radiative shocks: smallest end-to-end rise of density / pressure that counts as compression
SUOLSON_FLOOR = 3e-4   # absolute, in (T/T_bc)^4; measured tail noise of the oscillatory quadrature 2.8e-5
VACUUM_OK = {"EHEP", "Sedov"}


def tasks(tier, seed):
    out = []
    only = [x for x in os.environ.get("XPMC_ONLY_FAMILIES", "").split(",") if x]     # development only (mutant runs); never set by registered commands
    for name, (kq, kt, split) in FAMILIES.items():
        if only and name not in only:
            continue
        k = kq if tier == "quick" else kt
        alpha = X.alphabet(name)
        for dev in lattice.enumerate_checked(alpha, k):
            if split:
                cfg = lattice.full_cfg(alpha, dev)
                for t in X.times(name, cfg, tier):
                    out.append({"family": name, "dev": dev, "t": t})
            else:
                out.append({"family": name, "dev": dev})
    for n in (MADER_N if not only or "Mader" in only else []):
        for up in MADER_UP:
            for g in MADER_GAMMA:
                out.append({"family": "Mader", "N": n, "u_piston": up, "gamma": g})
    for dev in (lattice.enumerate_checked(SUOLSON_ALPHABET, 1 if tier == "quick" else 3) if not only or "SuOlson" in only else []):
        out.append({"family": "SuOlson", "dev": dev})
    return out


# ----------------------------------------------------------------------------------------------

class Rec:
    def __init__(self, name, cfg):
        self.name, self.cfg = name, cfg
        self.viol = {}

    def add(self, clause, where, value, tol, **detail):
        key = (clause, tuple(sorted(where.items())))
        old = self.viol.get(key)
        if old is None or value > old["value"]:
            self.viol[key] = {"solver": self.name, "cfg": self.cfg, "clause": clause, "where": where, "value": float(value),
                              "tol": float(tol), "detail": {k: (float(v) if isinstance(v, (float, np.floating)) else v) for k, v in detail.items()}}
            if old is not None:
                self.viol[key]["detail"]["n_bad"] = old["detail"].get("n_bad", 1) + 1
        else:
            old["detail"]["n_bad"] = old["detail"].get("n_bad", 1) + 1

    def list(self):
        return [self.viol[k] for k in sorted(self.viol, key=str)]


def positivity(rec, name, t, x, rho, p, e=None, c=None, T=None, extra=None, region="profile"):
    """rho > 0 (or rho = p = 0 exactly in a documented vacuum), p, e, T >= 0, c real and >= 0."""
    w = {"t": t, "region": region}
    x = np.asarray(x, float)
    vac = (rho == 0) & (p == 0)
    nvac = int(vac.sum())
    bad = ~(rho > 0)
    if name in VACUUM_OK:
        bad &= ~vac
    for i in np.where(bad)[0][:1]:
        rec.add("pos:density>0", w, 1.0, 0.0, x=x[i], val=float(rho[i]), n_bad=int(bad.sum()))
    bad = ~(p >= 0)
    for i in np.where(bad)[0][:1]:
        rec.add("pos:pressure>=0", w, 1.0, 0.0, x=x[i], val=float(p[i]), n_bad=int(bad.sum()))
    for nm, f in (("energy", e), ("sound_speed", c), ("temperature", T)):
        if f is None:
            continue
        f = np.asarray(f)
        if np.iscomplexobj(f):
            rec.add("pos:%s-real" % nm, w, 1.0, 0.0)
            f = f.real
        scale = np.nanmax(np.abs(f)) if np.isfinite(f).any() else 1.0
        bad = ~(f >= -1e-13 * scale) & ~vac          # undefined 0/0 in a vacuum is C20's business
        for i in np.where(bad)[0][:1]:
            rec.add("pos:%s>=0" % nm, w, 1.0, 0.0, x=x[i], val=float(f[i]), n_bad=int(bad.sum()))
    for nm, f in (extra or {}).items():
        bad = ~(np.asarray(f, float) >= 0)
        for i in np.where(bad)[0][:1]:
            rec.add("pos:%s>=0" % nm, w, 1.0, 0.0, x=x[i], val=float(f[i]), n_bad=int(bad.sum()))
    return nvac


def monotone(vals, noise):
    """Largest reversal of a sequence relative to its range: 0 if monotone (differences below `noise` x scale ignored).
    Returns (reversal, index)."""
    v = np.asarray(vals, float)
    if len(v) < 3:
        return 0.0, 0
    d = np.diff(v)
    scale = max(np.nanmax(np.abs(v)), 1e-300)
    d = np.where(np.abs(d) <= noise * scale, 0.0, d)
    up, dn = d[d > 0], d[d < 0]
    if up.size == 0 or dn.size == 0:
        return 0.0, 0
    # the direction is that of the net change; reversals are the steps against it
    against = dn if (v[-1] - v[0]) >= 0 else up
    i = int(np.argmax(np.where((d < 0) if against is dn else (d > 0), np.abs(d), 0.0)))
    return float(np.abs(against).max() / scale), i


def fan_runs(x, M, jumps, noise):
    """Maximal runs of consecutive sample cells along which the pressure varies, not containing a located discontinuity."""
    p = M[J.P] - M[J.SD]
    scale = max(np.nanmax(np.abs(p)), 1e-300)
    vary = np.abs(np.diff(p)) > noise * scale
    for j in jumps:
        lo, hi = j["lo"], j["hi"]
        cut = (x[:-1] <= hi) & (x[1:] >= lo)
        vary &= ~cut
    runs, cur = [], None
    for i, v in enumerate(vary):
        if v:
            cur = [i, i] if cur is None else [cur[0], i]
        elif cur is not None:
            runs.append(cur)
            cur = None
    if cur is not None:
        runs.append(cur)
    return [(a, b + 1) for a, b in runs if b + 1 - a >= 2]     # point index range [a, b+1], at least 3 points


def hydro_profile(A, t, rec, C, dg, cnt):
    name = A.fam["name"]
    noise = NOISE_C.get(name, NOISE)
    a, b = A.window(t)
    if name == "EHEP":          # the products escape into the void with the front at x = D t: look at the whole of it
        b = min(9.9, max(b, 1.15 * A.cfg["D"] * t))
    pad, xtol = 0.0, A.xtol
    if hasattr(A, "cell"):
        c = A.cell(t)
        pad, xtol = 2.0 * c, 1e-13      # class C: brackets stop at 3 cells (xabs = 1.5 pad) and are widened by 2 cells
    Fj = lambda x: A.Fat(x, t)
    jumps = J.locate(Fj, a, b, n=A.scan, geometric=A.geometric, arity=A.arity, xtol=xtol, max_jumps=A.max_jumps, cnt=cnt, pad=pad)
    C["located_discontinuities"] = C.get("located_discontinuities", 0) + len(jumps)
    # ---- fine point sequence: 400 uniform + 16 straddling each located discontinuity
    if name == "Sedov" and jumps:
        # the locator's window brackets the shock only; the profile runs from the core to beyond the shock
        a, b = 2e-3 * jumps[0]["x"], 1.3 * jumps[0]["x"]
    L = b - a
    pts = list(a + (np.arange(400) + 0.5) * L / 400.0)
    inside = []
    for j in jumps:
        if pad:
            inner = list(np.linspace(j["lo"], j["hi"], 18)[1:-1])
            pts += inner
            inside.append((j, inner))
        else:
            for k in range(8):
                d = L * 10.0 ** (-12.0 + 1.4 * k)
                pts += [j["lo"] - d, j["hi"] + d]
    pts = np.array(sorted(x for x in pts if a <= x <= b))
    sol, M = A.profile(pts, t)
    for r_ in M:
        dg.add(np.asarray(r_))
    names = sol.dtype.names
    cfield = np.asarray(sol["sound_speed"]) if "sound_speed" in names else None
    efield = M[J.E] if np.isfinite(M[J.E]).any() else None
    if getattr(A, "rc", {}).get("problem") == "JWL":
        efield = None      # the zero of a JWL energy is a convention (e0): e = (p - f(rho)) / ((gamma-1) rho) < 0 is legitimate
    nv = positivity(rec, name, t, pts, M[J.RHO], M[J.P], e=efield, c=cfield)
    C["vacuum_points"] = C.get("vacuum_points", 0) + nv
    C["points"] = C.get("points", 0) + len(pts)
    # ---- edges of a vacuum (rho > 0 next to rho == 0 without a located jump: a continuous front): straddle them too
    if name in VACUUM_OK:
        pos = M[J.RHO] > 0
        for i in np.where(pos[1:] != pos[:-1])[0]:
            lo_, hi_ = float(pts[i]), float(pts[i + 1])
            if any(j["lo"] <= hi_ and j["hi"] >= lo_ for j in jumps):
                continue
            inl = bool(pos[i])
            for _ in range(200):
                mid = 0.5 * (lo_ + hi_)
                if mid <= lo_ or mid >= hi_ or hi_ - lo_ <= 1e-13 * max(abs(lo_), abs(hi_)):
                    break
                if bool(A.Fat(np.array([mid]), t)[J.RHO, 0] > 0) == inl:
                    lo_ = mid
                else:
                    hi_ = mid
            extra = []
            for k in range(10):
                d = L * 10.0 ** (-13.0 + 1.2 * k)
                extra += [lo_ - d, hi_ + d]
            extra = np.array(sorted(x for x in extra if a <= x <= b))
            sol_e, Me = A.profile(extra, t)
            ce = np.asarray(sol_e["sound_speed"]) if "sound_speed" in sol_e.dtype.names else None
            positivity(rec, name, t, extra, Me[J.RHO], Me[J.P], e=Me[J.E] if np.isfinite(Me[J.E]).any() else None, c=ce, region="vacuum-edge")
            C["vacuum_edges"] = C.get("vacuum_edges", 0) + 1
            C["points"] = C.get("points", 0) + len(extra)
    # ---- compressive shocks
    for k, j in enumerate(jumps):
        sp = J.speed_fd(A.Fat, j, t, A.rel_steps[-1:], A.window, arity=A.arity, cnt=cnt, order=2, xtol=xtol, origin=A.origin, pad=pad)
        s = sp[0][1]
        if s is None:
            C["untracked_discontinuities"] = C.get("untracked_discontinuities", 0) + 1
            continue
        if not np.isfinite(np.concatenate([j["L"][:3], j["R"][:3]])).all():
            C["nonfinite_state_cases"] = C.get("nonfinite_state_cases", 0) + 1
            continue
        ctol = {"GenEOS": 3e-2, "GenEOS_table": 3e-2}.get(name, 1e-5)
        kind, _ = J.jump_residuals(j["L"], j["R"], s, ctol=ctol, energy=False, Vfloor=1e-6 * j["V"])
        dg.add(float(j["x"]), float(s))
        if kind == "contact":
            C["contacts"] = C.get("contacts", 0) + 1
            continue
        C["shocks"] = C.get("shocks", 0) + 1
        cp = J.compressive(j["L"], j["R"], s)
        if cp is None:
            continue
        drho, dp = cp
        w = {"t": t, "wave": k}
        if hasattr(A, "rc"):
            w.update({"pattern": str(getattr(A.s, "soln_type", "")).split("-")[-1], "du": float(A.rc["ul"] - A.rc["ur"])})
        if drho < -noise:
            rec.add("shock:density-rises", w, -drho, noise, x=j["x"], s=s, left=[float(v) for v in j["L"]], right=[float(v) for v in j["R"]])
        if dp < -noise:
            rec.add("shock:pressure-rises", w, -dp, noise, x=j["x"], s=s, left=[float(v) for v in j["L"]], right=[float(v) for v in j["R"]])
    # ---- values inside a smeared cell lie between the states on either side
    for j, inner in inside:
        Mi = A.Fat(np.array(inner), t)
        for f, nm in ((J.RHO, "density"), (J.U, "velocity"), (J.P, "pressure"), (J.E, "energy")):
            lo_, hi_ = min(j["L"][f], j["R"][f]), max(j["L"][f], j["R"][f])
            sc = max(abs(lo_), abs(hi_), 1e-6 * j["V"] if f == J.U else 0.0, 1e-300)
            over = max(float(np.nanmax(Mi[f] - hi_)), float(np.nanmax(lo_ - Mi[f])), 0.0) / sc
            C["smeared_cells_checked"] = C.get("smeared_cells_checked", 0) + 1
            if over > SMEAR_TOL:
                rec.add("bounded:%s-in-smeared-cell" % nm, {"t": t, "x": round(float(j["x"]), 6)}, over, SMEAR_TOL)
    # ---- monotone fans (Riemann: runs of varying pressure; EHEP: runs of one region label)
    nfans = 0
    if name.startswith("IGEOS") or name.startswith("GenEOS"):
        for (i0, i1) in fan_runs(pts, M, jumps, noise):
            nfans += 1
            for f, nm in ((J.RHO, "density"), (J.U, "velocity"), (J.P, "pressure")):
                r, i = monotone(M[f, i0:i1 + 1], noise)
                if r > 10 * noise:
                    rec.add("fan:%s-monotone" % nm, {"t": t, "fan": nfans}, r, 10 * noise, x=float(pts[i0 + i]))
            # bounded by the constant states at its two ends (the end points of the run)
            for f, nm in ((J.RHO, "density"), (J.U, "velocity"), (J.P, "pressure")):
                seg = M[f, i0:i1 + 1]
                lo_, hi_ = min(seg[0], seg[-1]), max(seg[0], seg[-1])
                sc = max(np.abs(seg).max(), 1e-300)
                over = max(float((seg - hi_).max()), float((lo_ - seg).max()), 0.0) / sc
                if over > 10 * noise:
                    rec.add("bounded:%s-in-fan" % nm, {"t": t, "fan": nfans}, over, 10 * noise)
    if name == "EHEP":
        reg = list(sol["region"])
        i0 = 0
        for i in range(1, len(reg) + 1):
            if i == len(reg) or reg[i] != reg[i0]:
                if reg[i0] in ("I", "II", "IV", "V") and i - i0 >= 3:
                    nfans += 1
                    for f, nm in ((J.RHO, "density"), (J.U, "velocity"), (J.P, "pressure")):
                        r, k = monotone(M[f, i0:i], noise)
                        if r > 10 * noise:
                            rec.add("fan:%s-monotone" % nm, {"t": t, "region": reg[i0]}, r, 10 * noise, x=float(pts[i0 + k]))
                i0 = i
    C["fans"] = C.get("fans", 0) + nfans
    return len(jumps) + nfans + int(np.ptp(M[J.RHO][np.isfinite(M[J.RHO])]) > 0 if np.isfinite(M[J.RHO]).any() else 0)


def _profile(self, x, t):
    """(record array, matrix) for a sorted batch -- the ordinary user call (Sedov: one batch, with the interpolation)."""
    x = np.asarray(x, float)
    if isinstance(self, X.EPpistonA):
        sol = self.raw(np.append(x, self.SENTINEL), t)
        return sol[:-1], X.matrix(sol, len(x) + 1, sd="deviatoric stress")[:, :-1]
    sol = self.raw(x, t)
    return sol, X.matrix(sol, len(x))


X.Adapter.profile = _profile


# ----------------------------------------------------------------------------------------------
# Mader: uniform grids, the phase of the Taylor-wave tail inside a cell is enumerated
# ----------------------------------------------------------------------------------------------

def mader_task(task, rec, C, dg):
    N, up, g = task["N"], task["u_piston"], task["gamma"]
    cfg = {"p_cj": 3.0e11, "d_cj": 8.0e5, "gamma": g, "u_piston": up}
    rec.cfg = cfg
    s = construct("mader.timmes.Mader", cfg)
    D = cfg["d_cj"]
    evals = 0
    nt = []
    for t in MADER_T:
        h = D * t / N
        for k in range(NOFF):
            r = (np.arange(N) + (k + 0.5) / NOFF) * h            # distance behind the front (the solver's coordinate)
            sol = call(s, r, t)
            evals += 1
            u, p, rho, c = (np.asarray(sol[n], float) for n in ("velocity", "pressure", "density", "sound_speed"))
            dg.add(u, p, rho, c)
            positivity(rec, "Mader", t, r, rho, p, c=c, region="N=%d" % N)
            # trailing plateau (constant state behind the Taylor wave) -> transition cell = the cell just before it
            flat = np.where(np.abs(np.diff(u)) > NOISE * max(np.abs(u).max(), 1.0))[0]
            last_var = int(flat.max()) if flat.size else -1          # last cell boundary across which u changes
            trans = last_var                                          # index of the last non-plateau point
            C["mader_grids"] = C.get("mader_grids", 0) + 1
            if 0 <= trans < N - 1:
                C["mader_transition_cells"] = C.get("mader_transition_cells", 0) + 1
            for f, nm in ((u, "velocity"), (p, "pressure"), (rho, "density"), (c, "sound_speed")):
                # away from the front every field falls monotonically to the constant state
                d = np.diff(f)
                sc = max(np.abs(f).max(), 1e-300)
                badi = np.where(d > NOISE * sc)[0]                    # increases with distance from the front
                for i in badi:
                    cell = "transition" if (i + 1 == trans or i == trans) else "fan"
                    rec.add("mono:%s" % nm, {"t": t, "N": N, "cell": cell}, float(d[i] / sc), NOISE, offset=k, index=int(i), r=float(r[i]))
                # the transition cell lies between its neighbours (last fan cell and the constant state)
                if 1 <= trans < N - 1:
                    lo_, hi_ = min(f[trans - 1], f[trans + 1]), max(f[trans - 1], f[trans + 1])
                    over = max(f[trans] - hi_, lo_ - f[trans], 0.0) / sc
                    if over > NOISE:
                        rec.add("bounded:%s" % nm, {"t": t, "N": N, "cell": "transition"}, float(over), NOISE, offset=k, index=int(trans),
                                val=float(f[trans]), neighbours=[float(f[trans - 1]), float(f[trans + 1])])
            nt.append("Mader|%d|%g|%g|%g|%d" % (N, up, g, t, k))
    return evals, nt


# ----------------------------------------------------------------------------------------------
# Su-Olson
# ----------------------------------------------------------------------------------------------

XHAT = [0.01, 0.03, 0.1, 0.3, 0.6, 1.0, 1.7, 3.0, 5.0, 8.0, 12.0, 20.0]     # sqrt(3) kappa z
TAUS = [0.01, 0.03, 0.1, 0.3, 1.0, 3.0, 10.0, 30.0]                          # epsilon c kappa t, epsilon = 4a/alpha


def suolson_task(task, rec, C, dg):
    cfg = lattice.full_cfg(SUOLSON_ALPHABET, task["dev"])
    rec.cfg = cfg
    s = construct("suolson.suolson.SuOlson", cfg)
    clight, a_rad = 2.99792458e10, 4.0 * 5.67051e-5 / 2.99792458e10          # documented constants of the problem (cgs)
    eps = 4.0 * a_rad / cfg["alpha"]
    z = np.array(XHAT) / (math.sqrt(3.0) * cfg["opac"])
    U = np.empty((len(TAUS), len(XHAT)))
    V = np.empty_like(U)
    evals = 0
    for k, tau in enumerate(TAUS):
        t = tau / (eps * clight * cfg["opac"])
        sol = call(s, z, t)
        evals += 1
        U[k] = (np.asarray(sol["temperature_rad"], float) / cfg["trad_bc_ev"]) ** 4
        V[k] = (np.asarray(sol["temperature_mat"], float) / cfg["trad_bc_ev"]) ** 4
    dg.add(U, V)
    F = SUOLSON_FLOOR
    nanU, nanV = np.isnan(U), np.isnan(V)
    C["suolson_nan_points"] = C.get("suolson_nan_points", 0) + int(nanU.sum() + nanV.sum())
    C["suolson_points"] = C.get("suolson_points", 0) + U.size
    # a NaN (negative energy under the fourth root) is judged only where monotonicity implies a value above the floor:
    # some point further from the boundary at the same time, or the same point at an earlier time, exceeds 10 x floor
    for nm, W, nan in (("rad", U, nanU), ("mat", V, nanV)):
        Wz = np.where(nan, 0.0, W)
        for k, i in zip(*np.where(nan)):
            if (Wz[k, i + 1:] > 10 * F).any() or (Wz[:k, i] > 10 * F).any():
                rec.add("suolson:T_%s-defined" % nm, {"tau": TAUS[k], "xhat": XHAT[i]}, 1.0, 0.0)
    Uz, Vz = np.where(nanU, 0.0, U), np.where(nanV, 0.0, V)

    def worst(A_, clause):
        if A_.size and A_.max() > F:
            k, i = np.unravel_index(int(np.argmax(A_)), A_.shape)
            rec.add(clause, {"tau": TAUS[k], "xhat": XHAT[i]}, float(A_.max()), F)
    worst(-Vz, "suolson:0<=T_mat")
    worst(-Uz, "suolson:0<=T_rad")
    worst(Vz - Uz, "suolson:T_mat<=T_rad")
    worst(Uz - 1.0, "suolson:T_rad<=T_bc")
    for nm, W in (("rad", Uz), ("mat", Vz)):
        dx = np.zeros_like(W)
        dx[:, :-1] = W[:, 1:] - W[:, :-1]             # must be <= 0: temperatures fall away from the heated boundary
        worst(dx, "suolson:T_%s-monotone-in-x" % nm)
        dt = np.zeros_like(W)
        dt[:-1, :] = W[:-1, :] - W[1:, :]             # must be <= 0: temperatures rise with time
        worst(dt, "suolson:T_%s-monotone-in-t" % nm)
    return evals, ["SuOlson|%s|%d" % (sorted(task["dev"].items()), k) for k in range(len(TAUS))]


# ----------------------------------------------------------------------------------------------
# radiative shocks
# ----------------------------------------------------------------------------------------------

def radshock_task(name, cfg, rec, C, dg):
    """Positivity on 4000 uniform points across the profile's extent (public attribute x) plus 400 points zooming on the
    steepest density step; the end states and the embedded hydrodynamic shock (if the zoom shows a jump) are compressive
    in the direction of the flow (from the end whose density is the reference density rho0 to the other end)."""
    f = hydro.by_name(name)
    s = hydro.make(f, cfg)
    evals = 0
    nt = []
    for t in f["times"](cfg)[:2]:
        xi = np.asarray(s.x, float)
        shift = s.sound * s.M0 * t                 # the solver's own displacement (its correctness is C12's business)
        lo, hi = -float(np.nanmax(xi)) + shift, -float(np.nanmin(xi)) + shift
        L = hi - lo
        pts = lo + (np.arange(4000) + 0.5) * L / 4000.0
        sol = call(s, pts, t)
        evals += 1
        rho0 = np.asarray(sol["density"], float)
        rel = np.abs(np.diff(rho0)) / (rho0[1:] + rho0[:-1])
        i = int(np.nanargmax(rel)) if np.isfinite(rel).any() else 0
        zoom = np.linspace(pts[i], pts[i + 1], 402)[1:-1]
        pts = np.sort(np.concatenate([pts, zoom]))
        sol = call(s, pts, t)
        evals += 1
        names = sol.dtype.names
        rho, p = np.asarray(sol["density"], float), np.asarray(sol["pressure"], float)
        e, c = np.asarray(sol["specific_internal_energy"], float), np.asarray(sol["sound_speed"], float)
        extra = {n: np.asarray(sol[n], float) for n in names if n in ("rade", "temperature_rad", "temperature_mat", "temperature")}
        for n in names[1:]:
            dg.add(np.asarray(sol[n]))
        positivity(rec, name, t, pts, rho, p, e=e, c=c, extra=extra)
        C["points"] = C.get("points", 0) + len(pts)
        # upstream end = the end whose density is the reference density (documented pre-shock state)
        up_right = abs(rho[-1] - cfg["rho0"]) <= abs(rho[0] - cfg["rho0"])
        r_up, r_dn = (rho[-1], rho[0]) if up_right else (rho[0], rho[-1])
        p_up, p_dn = (p[-1], p[0]) if up_right else (p[0], p[-1])
        # "rises" = by more than RS_MIN_RISE: the profiles start from equilibrium perturbed by eps = 1e-6 (documented
        # eps_precursor_equil), so a rise below 1e-5 is indistinguishable from no compression (a Mach 1.05 shock compresses by 7 %)
        if np.isfinite([r_up, r_dn]).all() and not (r_dn > r_up * (1.0 + RS_MIN_RISE)):
            rec.add("shock:density-rises", {"t": t, "wave": "end-states"}, float((r_up - r_dn) / (r_up + r_dn)), 0.0)
        if np.isfinite([p_up, p_dn]).all() and not (p_dn > p_up * (1.0 + RS_MIN_RISE)):
            rec.add("shock:pressure-rises", {"t": t, "wave": "end-states"}, float((p_up - p_dn) / (p_up + p_dn)), 0.0)
        # embedded hydrodynamic shock: a density step > 1 % between neighbouring zoom points (spacing L / 1.6e6)
        d = np.diff(rho)
        rel = np.abs(d) / (rho[1:] + rho[:-1])
        k = int(np.nanargmax(rel)) if np.isfinite(rel).any() else 0
        if rel[k] > 1e-2 and (pts[k + 1] - pts[k]) < 1e-6 * L:
            C["embedded_shocks"] = C.get("embedded_shocks", 0) + 1
            a_, b_ = ((k, k + 1) if up_right else (k + 1, k))          # a_ downstream, b_ upstream
            if not (rho[a_] >= rho[b_]):
                rec.add("shock:density-rises", {"t": t, "wave": "embedded"}, float(rel[k]), 0.0, x=float(pts[k]))
            if not (p[a_] >= p[b_]):
                rec.add("shock:pressure-rises", {"t": t, "wave": "embedded"}, float(abs(p[a_] - p[b_]) / (p[a_] + p[b_])), 0.0, x=float(pts[k]))
        nt.append("%s|%s|%g" % (name, sorted(cfg.items()), t))
    return evals, nt


# ----------------------------------------------------------------------------------------------

def run_task(task):
    name = task["family"]
    dg = Digest()
    res = {"evals": 0, "nontrivial": [], "violations": [], "counters": {}, "sample": None}
    C = res["counters"]
    rec = Rec(name, {})
    try:
        if name == "Mader":
            ev, nt = mader_task(task, rec, C, dg)
        elif name == "SuOlson":
            ev, nt = suolson_task(task, rec, C, dg)
        elif name in ("ED_Solver", "nED_Solver", "ie_Solver"):
            cfg = lattice.full_cfg(X.alphabet(name), task["dev"])
            rec.cfg = cfg
            ev, nt = radshock_task(name, cfg, rec, C, dg)
        else:
            alpha = X.alphabet(name)
            cfg = lattice.full_cfg(alpha, task["dev"])
            rec.cfg = cfg
            A = X.adapter(name, cfg)
            times = [task["t"]] if "t" in task else X.times(name, cfg)
            nt = []
            for t in times:
                cnt = J.Counter()
                try:
                    n = hydro_profile(A, t, rec, C, dg, cnt)
                except Exception as ex:
                    if not X.solver_fault(ex):
                        raise
                    C["call_exceptions"] = C.get("call_exceptions", 0) + 1
                    k = "exc:%s:%s" % (name, type(ex).__name__)
                    C[k] = C.get(k, 0) + 1
                    dg.add("exc", type(ex).__name__, float(t))
                    continue
                C["profiles"] = C.get("profiles", 0) + 1
                if n:
                    nt.append("%s|%s|%g" % (name, sorted(task["dev"].items()), t))
            ev = A.ncall
    except Inadmissible:
        C["inadmissible_vectors"] = 1
        res["digest"] = dg.add("inadmissible").hex()
        return res
    except Exception as ex:
        if not X.solver_fault(ex):
            raise
        C["construct_exceptions"] = 1
        C["cexc:%s:%s" % (name, type(ex).__name__)] = 1
        res["digest"] = dg.add("cexc", type(ex).__name__).hex()
        return res
    res["evals"] = ev
    res["nontrivial"] = nt
    res["violations"] = rec.list()
    res["sample"] = {"family": name, "task": task, "cases": len(nt), "counters": dict(C)}
    res["digest"] = dg.hex()
    return res
