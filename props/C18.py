"""C18 -- Su-Olson temperatures solve the non-equilibrium Marshak diffusion problem.

Mode L: the full product of an (opacity, specific-heat coefficient, boundary temperature) alphabet x a lattice of
dimensionless times x a lattice of dimensionless positions.  For every case the public ``SuOlson(z, t)`` is called at
the physical (z, t) that the *documented* physical problem maps onto the dimensionless point; the returned
temperatures are turned into u = (T_rad/T_bc)^4, v = (T_mat/T_bc)^4 and the four clauses of the statement are
evaluated on them:

  pde:u     eps*u_tau - u_xx - (v - u) = 0      (x > 0, central differences, three step sizes)
  pde:v     v_tau - (u - v) = 0
  bc        u - (2/sqrt3) u_x = 1 at x = 0       (one-sided stencil, three step sizes)
  decay     0 <= v <= u <= erfc(x sqrt(eps)/(2 sqrt(tau))) and u, v non-increasing in x, at every lattice point and at
            the far points x = 5, 10, 20 (, 40); absolute floor 1e-5

The oracle is derived from the package docstring (exactpack/solvers/suolson/__init__.py), not from timmes.py:

  E_t - (c/(3 kappa)) E_zz = c kappa (a T^4 - E),   alpha T^3 T_t = c kappa (E - a T^4),
  E - (2/(3 kappa)) E_z = 4 F_in / c  at z = 0,      E -> 0 as z -> infinity,      E = T = 0 at t = 0.

With U = E / (4 F_in/c), V = a T^4 / (4 F_in/c), x = sqrt3 kappa z, tau = (4 a c kappa / alpha) t, eps = 4 a / alpha
these become exactly the statement's equations (E_zz = 3 kappa^2 E_xx; alpha T^3 T_t = (alpha/4a) (aT^4)_t).  The
incident flux is fixed by the documented boundary temperature, 4 F_in / c = a T_bc^4, so U = (T_rad/T_bc)^4 and
V = (T_mat/T_bc)^4 whatever the temperature unit.  Because u, v are formed from the *physical* temperatures at the
physical (z, t) computed with the user's kappa, alpha, T_bc, an error in the solver's dimensionalisation is a PDE,
boundary or decay residual here.

Decay clause.  "Decays to zero as x -> infinity" is decided on the finite lattice by a comparison principle that is
independent of the code: v_tau = u - v with v(0) = 0 and u non-decreasing in tau gives 0 <= v <= u, so u is a
sub-solution of eps w_tau = w_xx with w(0, tau) = 1 >= u(0, tau); hence 0 <= v <= u <= erfc(x sqrt(eps)/(2 sqrt(tau))).
"""
import math

import numpy as np

from xpmc import lattice
from xpmc.engine import Digest
from xpmc.solvers import construct, call, Inadmissible

ID = "C18"
LEVEL = "exploration"
TECHNIQUE = "bounded exhaustive enumeration of a parameter x time x position lattice on the real solver (explicit-state exploration, mode L), finite-difference PDE/boundary residuals at three step sizes"
CLAIM = ("Every (opacity, specific-heat coefficient, boundary temperature) vector of the stated alphabet (full product = every vector within 3 deviations "
         "of the default) is constructed; for every dimensionless time and position of the lattice the public SuOlson(z, t) is called at the physical "
         "point given by the documented conversion with the user's kappa, alpha, T_bc, and the two diffusion equations, the Marshak condition at x=0 and "
         "the far-field decay are evaluated on u=(T_rad/T_bc)^4, v=(T_mat/T_bc)^4. Exhaustive over the stated lattice; right level because the solver is a "
         "pure function of five scalars whose failure modes (wrong power of a parameter in the dimensionalisation, wrong coefficient or sign in an integral "
         "representation, truncated oscillatory sums) are visible as residuals on an open set of the lattice.")
LEVEL_NOTE = ("trusted: numpy, math.erfc, the derivation of the dimensionless problem from the package docstring written in props/C18.py, the radiation constant "
              "a taken from the documented default alpha = 4a and c = 2.99792458e10 cm/s; assumed: defects confined to parameter values, times or positions "
              "between lattice values are not seen; finite-difference residuals decide the PDE only to the class-D tolerance (2e-3 relative + 1e-5 absolute)")
BOUND = {"quick": "full product opac{1,0.3,5} x eps{1,0.1,2.5} x T_bc{1000,150} (18 vectors, K=3 of 3) x tau{0.1,1,10} x x{0,0.1,0.5,1,2.5,5} + decay x{5,10,20}",
         "thorough": "full product opac{1,0.3,5,20} x eps{1,0.1,2.5,0.4,10} x T_bc{1000,150,1,2e4} (80 vectors) x tau{0.03,0.1,0.3,1,3,10,30} x x{0,0.1,0.25,0.5,0.75,1,1.5,2.5,3.5,5} + decay x{5,10,20,40}"}
RULE = ("tasks = every (opac, alpha, T_bc) vector of the alphabet (all deviations, i.e. the full product) x every lattice tau; per task every lattice x "
        "(PDE clauses at x>0 where u > 1e-4, Marshak clause at x=0, decay/comparison clause at every lattice point and the far points); an evaluation is "
        "one public SuOlson(z_array, t) call (13 per task: the central time and 12 displaced times of the tau stencils); a PDE case (vector, tau, x) is "
        "non-trivial when u > 1e-3 there (below 1e-4 every term sits at the quadrature floor and the comparison clause decides instead); decay cases are "
        "non-trivial when the comparison bound is below 1e-3 (the far field really is required to be small); distinct by (vector, tau, x, clause)")
ASSUMPTIONS = [
    "values outside the parameter / tau / x alphabets are not explored",
    "the dimensionless variables are those that turn the documented physical equations into the statement's (x = sqrt3 kappa z, tau = 4ac kappa t/alpha, eps = 4a/alpha); a = documented default alpha / 4, c = 2.99792458e10 cm/s",
    "opacity is used as an inverse length (the documented equations contain no density), as the docstring's equations do",
    "derivatives are finite differences of public output at three step sizes (minimum residual reported); a defect smaller than 2e-3 of the sum of the absolute terms + 1e-5 is not seen",
    "the PDE is evaluated at x > 0 only (statement: 'for x>0'); x = 0 carries the Marshak clause",
    "'decays to zero as x -> infinity' is decided on the finite lattice through the comparison principle 0 <= v <= u <= erfc(x sqrt(eps)/(2 sqrt(tau))) with an absolute floor of 1e-5 (derived in the module docstring from the statement's own equations)",
]

SOLVER = "suolson.suolson.SuOlson"
NAME = "SuOlson"
A4 = 3.02636565993931701e-14      # documented default: alpha = 4 a  [erg cm^-3 K^-4]
CLIGHT = 2.99792458e10            # cm/s
RT3 = math.sqrt(3.0)

ALPHABET = {
    # eps = 10 is in the quick alphabet too since the seeded change S-C18-2 (a shortcut valid only for eps <= 1)
    "quick": {"opac": [1.0, 0.3, 5.0], "eps": [1.0, 0.1, 2.5, 10.0], "trad_bc_ev": [1000.0, 150.0]},
    "thorough": {"opac": [1.0, 0.3, 5.0, 20.0], "eps": [1.0, 0.1, 2.5, 0.4, 10.0], "trad_bc_ev": [1000.0, 150.0, 1.0, 2.0e4]},
}
TAUS = {"quick": [0.1, 1.0, 3.0, 10.0, 300.0], "thorough": [0.03, 0.1, 0.3, 1.0, 3.0, 10.0, 30.0, 300.0, 1000.0]}
# late times carry their own far x lattice (the diffusion front is at x ~ 2 sqrt(tau/eps)); added after the seeded change
# S-C18-3, whose error lives at x >~ 30, tau >~ 200, outside the published table's window
XS_LATE = {300.0: [30.0, 45.0, 60.0], 1000.0: [40.0, 70.0, 100.0]}
XS = {"quick": [0.0, 0.1, 0.5, 1.0, 2.5, 5.0], "thorough": [0.0, 0.1, 0.25, 0.5, 0.75, 1.0, 1.5, 2.5, 3.5, 5.0]}
FAR = {"quick": [5.0, 10.0, 20.0], "thorough": [5.0, 10.0, 20.0, 40.0]}

# Tolerances (class D, DESIGN.md 4.1): |residual| <= RTOL * sum|terms| + ATOL, minimum over the three step sizes.
# Measured on the unchanged tree over the THOROUGH lattice (80 vectors x 7 tau x 9 x; evidence key worst_residuals):
#   pde:u  judged points (u > 1e-4): worst |R|/(RTOL*S+ATOL) = 0.164, worst |R|/S = 5.5e-4.  Every residual above 2e-5 of S
#          is R = -(error of v) of the recorded truncated-sum defect (findings_proposed/C18.md; 4e-6 at x=5, tau=0.3);
#          the finite differences themselves contribute <= 5e-5 of S (points with x <= 2.5: ratio <= 0.02).
#   pde:v  worst ratio 0.030, worst |R|/S = 1.0e-3 (at S ~ 3e-4, i.e. |R| = 3e-7)
#   bc     worst |u - (2/sqrt3)u_x - 1| = 2.6e-6                               (BC_TOL 2e-3: x 800)
#   decay  worst excess over the comparison bound 5.4e-5 (the recorded defect; 2.6e-5 on the quick lattice);
#          with the defect patched (piece cap 20000) the worst excess is 2.8e-6  (FLOOR 1e-5: x 3.6)
# Seeded changes (mutants/C18): dimensionalisation errors give |R|/S = 0.13 ... 0.83 and Marshak residuals 1.8, i.e.
# >= 65 x RTOL, so RTOL <= 0.1 x the smallest seeded residual holds.
# Points with u <= JUDGE_U are not judged by the PDE clauses: there every term is at the quadrature floor (u ~ 5e-8,
# jumps of 1e-8 between neighbouring abscissae) and second differences of that noise reach 8e-6 at the small steps a
# thin front needs; the comparison clause (0 <= v <= u <= erfc bound, floor 1e-5) decides those points instead.
RTOL = 2.0e-3
ATOL = 1.0e-5
BC_TOL = 2.0e-3          # the Marshak sum is O(1): 2e-3 relative to the right-hand side 1
FLOOR = 1.0e-5           # absolute floor of the decay clause (the class-D quadrature floor)
NONTRIVIAL_U = 1.0e-3    # a case counts as non-trivial above this
JUDGE_U = 1.0e-4         # PDE clauses are judged where u > 10 x FLOOR; below, the comparison clause decides

STEP_FACTORS = (0.05, 0.1, 0.2)    # x steps, in units of the local length scale L = min(1, sqrt(tau/eps))
TAU_STEPS = (0.02, 0.04, 0.08)     # tau steps, relative to tau


def tasks(tier, seed):
    alpha = ALPHABET[tier]
    out = []
    for dev in lattice.enumerate_checked(alpha, len(alpha)):      # K = number of parameters: the full product
        for tau in TAUS[tier]:
            out.append({"dev": dev, "tau": tau, "tier": tier})
    return out


def physical(cfg_dimless):
    """Constructor kwargs for a dimensionless vector (opac, eps, T_bc): alpha = 4a / eps."""
    return {"opac": cfg_dimless["opac"], "alpha": A4 / cfg_dimless["eps"], "trad_bc_ev": cfg_dimless["trad_bc_ev"]}


class Sampler:
    """u, v at dimensionless points through the public solver; one public call per distinct time."""

    def __init__(self, solver, cfg):
        self.s = solver
        self.opac, self.alpha, self.tbc = cfg["opac"], cfg["alpha"], cfg["trad_bc_ev"]
        self.calls = 0
        self.dg = Digest()

    def uv(self, xs, tau):
        xs = np.asarray(xs, float)
        z = xs / (RT3 * self.opac)                              # x = sqrt3 kappa z
        t = tau * self.alpha / (A4 * CLIGHT * self.opac)        # tau = 4 a c kappa t / alpha
        try:
            sol = call(self.s, z, t)
            self.calls += 1
            tr = np.asarray(sol["temperature_rad"], float)
            tm = np.asarray(sol["temperature_mat"], float)
        except Exception as ex:
            # one point of the batch made the solver raise (e.g. a fractional power of a slightly negative energy): evaluate
            # the points one by one so the others are still judged; a point with no returned temperatures is non-finite for
            # the clauses below (seeded change S-C18-2 drove u negative near the front and the whole task used to be skipped)
            self.raised = getattr(self, "raised", 0) + 1
            self.raised_types = getattr(self, "raised_types", set()) | {type(ex).__name__}
            tr = np.full(len(z), np.nan)
            tm = np.full(len(z), np.nan)
            for i_, z_ in enumerate(z):
                try:
                    s1 = call(self.s, np.array([z_]), t)
                    tr[i_], tm[i_] = float(s1["temperature_rad"][0]), float(s1["temperature_mat"][0])
                except Exception:
                    pass
                self.calls += 1
        self.dg.add(tr, tm)
        return (tr / self.tbc) ** 4, (tm / self.tbc) ** 4


def x_steps(x, tau, eps):
    """Three x steps: fractions of the local length scale, never reaching below x = 0."""
    L = min(1.0, math.sqrt(tau / eps))
    hs = [f * L for f in STEP_FACTORS]
    if x > 0:
        hs = [min(h, x / 2.0) for h in hs]
        # keep them distinct after clipping
        if hs[2] == hs[1]:
            hs = [hs[2] / 4.0, hs[2] / 2.0, hs[2]]
    return hs


def run_task(task):
    tier = task["tier"]
    alpha = ALPHABET[tier]
    d = lattice.full_cfg(alpha, task["dev"])
    cfg = physical(d)
    eps, tau = d["eps"], task["tau"]
    res = {"evals": 0, "nontrivial": [], "violations": [], "counters": {}, "sample": None,
           "stats": {"pde_u_ratio": 0.0, "pde_v_ratio": 0.0, "pde_u_rel": 0.0, "pde_v_rel": 0.0, "bc": 0.0,
                     "bound_excess": 0.0, "pde_u_ratio_below_judging_threshold": 0.0}}
    C = res["counters"]
    ST = res["stats"]
    try:
        s = construct(SOLVER, cfg)
    except Inadmissible:
        C["inadmissible_vectors"] = 1
        res["digest"] = Digest().add("inadmissible").hex()
        return res
    S = Sampler(s, cfg)
    vcfg = dict(cfg, eps=eps)
    key = "%s|%g" % (sorted(task["dev"].items()), tau)
    xs_pde = [x for x in XS[tier] if x > 0] + XS_LATE.get(tau, [])
    xs_all = sorted(set(XS[tier]) | set(FAR[tier]) | set(XS_LATE.get(tau, [])))

    def violation(clause, where, value, tol, detail):
        res["violations"].append({"solver": NAME, "cfg": vcfg, "clause": clause, "where": where,
                                  "value": float(value), "tol": float(tol), "detail": detail})

    try:
        # ---------------------------------------------------------------- central time: x stencils, Marshak stencil, far field
        pts = []
        index = {}

        def want(x):
            x = float(x)
            if x not in index:
                index[x] = len(pts)
                pts.append(x)
            return index[x]

        xst = {}
        for x in xs_pde:
            hs = x_steps(x, tau, eps)
            xst[x] = [(h, [want(x + k * h) for k in (-2, -1, 0, 1, 2)]) for h in hs]
        h0 = x_steps(0.0, tau, eps)
        bst = [(h, [want(k * h) for k in range(5)]) for h in h0]
        aidx = [want(x) for x in xs_all]
        u0, v0 = S.uv(pts, tau)

        # ---------------------------------------------------------------- displaced times: lattice points only
        ut, vt = {}, {}
        for r in TAU_STEPS:
            for k in (-2, -1, 1, 2):
                ut[(r, k)], vt[(r, k)] = S.uv(xs_pde, tau * (1.0 + k * r))

        # ---------------------------------------------------------------- PDE clauses
        for j, x in enumerate(xs_pde):
            uc, vc = u0[index[x]], v0[index[x]]
            C["pde_points"] = C.get("pde_points", 0) + 1
            if not (np.isfinite(uc) and np.isfinite(vc)):
                violation("pde:nonfinite", {"tau": tau, "x": x}, float("inf"), 0.0, {"u": float(uc), "v": float(vc)})
                continue
            best_u = best_v = None
            for (h, idx), r in zip(xst[x], TAU_STEPS):
                um2, um1, _, up1, up2 = (u0[i] for i in idx)
                uxx = (-um2 + 16 * um1 - 30 * uc + 16 * up1 - up2) / (12 * h * h)
                ht = r * tau
                u_tau = (ut[(r, -2)][j] - 8 * ut[(r, -1)][j] + 8 * ut[(r, 1)][j] - ut[(r, 2)][j]) / (12 * ht)
                v_tau = (vt[(r, -2)][j] - 8 * vt[(r, -1)][j] + 8 * vt[(r, 1)][j] - vt[(r, 2)][j]) / (12 * ht)
                Ru = eps * u_tau - uxx - (vc - uc)
                Su = abs(eps * u_tau) + abs(uxx) + abs(vc) + abs(uc)
                Rv = v_tau - (uc - vc)
                Sv = abs(v_tau) + abs(uc) + abs(vc)
                eu = abs(Ru) / (RTOL * Su + ATOL) if np.isfinite(Ru) and np.isfinite(Su) else float("inf")
                ev = abs(Rv) / (RTOL * Sv + ATOL) if np.isfinite(Rv) and np.isfinite(Sv) else float("inf")
                if best_u is None or eu < best_u[0]:
                    best_u = (eu, Ru, Su, h, ht, uxx, u_tau)
                if best_v is None or ev < best_v[0]:
                    best_v = (ev, Rv, Sv, h, ht, v_tau)
            if task.get("debug"):
                res.setdefault("cases", []).append({"x": x, "u": float(uc), "v": float(vc), "best_u": best_u, "best_v": best_v})
            if not uc > JUDGE_U:
                # every term sits at the quadrature floor: finite differences of quadrature noise decide nothing; the
                # comparison clause below judges these points instead
                C["pde_points_below_judging_threshold"] = C.get("pde_points_below_judging_threshold", 0) + 1
                ST["pde_u_ratio_below_judging_threshold"] = max(ST["pde_u_ratio_below_judging_threshold"], best_u[0])
                continue
            C["pde_points_judged"] = C.get("pde_points_judged", 0) + 1
            if uc > NONTRIVIAL_U:
                res["nontrivial"].append("%s|x=%g|pde" % (key, x))
            ST["pde_u_ratio"] = max(ST["pde_u_ratio"], best_u[0])
            ST["pde_v_ratio"] = max(ST["pde_v_ratio"], best_v[0])
            ST["pde_u_rel"] = max(ST["pde_u_rel"], abs(best_u[1]) / best_u[2])
            ST["pde_v_rel"] = max(ST["pde_v_rel"], abs(best_v[1]) / best_v[2])
            if best_u[0] > 1.0:
                violation("pde:u-equation", {"tau": tau, "x": x}, abs(best_u[1]) / max(best_u[2], 1e-300), RTOL,
                          {"residual": best_u[1], "sum_abs_terms": best_u[2], "hx": best_u[3], "htau": best_u[4],
                           "u_xx": best_u[5], "u_tau": best_u[6], "u": float(uc), "v": float(vc), "excess": best_u[0]})
            if best_v[0] > 1.0:
                violation("pde:v-equation", {"tau": tau, "x": x}, abs(best_v[1]) / max(best_v[2], 1e-300), RTOL,
                          {"residual": best_v[1], "sum_abs_terms": best_v[2], "htau": best_v[4], "v_tau": best_v[5],
                           "u": float(uc), "v": float(vc), "excess": best_v[0]})

        # ---------------------------------------------------------------- Marshak clause at x = 0
        best = None
        for h, idx in bst:
            f0, f1, f2, f3, f4 = (u0[i] for i in idx)
            ux = (-25 * f0 + 48 * f1 - 36 * f2 + 16 * f3 - 3 * f4) / (12 * h)
            m = f0 - (2.0 / RT3) * ux - 1.0
            e = abs(m) if np.isfinite(m) else float("inf")
            if best is None or e < best[0]:
                best = (e, h, f0, ux)
        C["bc_cases"] = C.get("bc_cases", 0) + 1
        res["nontrivial"].append("%s|x=0|bc" % key)
        ST["bc"] = max(ST["bc"], best[0])
        if best[0] > BC_TOL:
            violation("bc:marshak", {"tau": tau, "x": 0.0}, best[0], BC_TOL,
                      {"h": best[1], "u0": float(best[2]), "u_x": float(best[3]), "lhs": float(best[2] - 2.0 / RT3 * best[3])})

        # ---------------------------------------------------------------- decay / comparison clause, every lattice and far point
        prev = None
        for x, i in zip(xs_all, aidx):
            bound = math.erfc(x * math.sqrt(eps) / (2.0 * math.sqrt(tau)))
            uf, vf = float(u0[i]), float(v0[i])
            C["decay_cases"] = C.get("decay_cases", 0) + 1
            if bound < NONTRIVIAL_U:
                res["nontrivial"].append("%s|x=%g|decay" % (key, x))
            if not (np.isfinite(uf) and np.isfinite(vf)):
                violation("decay:nonfinite", {"tau": tau, "x": x}, float("inf"), 0.0, {"u": uf, "v": vf})
                prev = None
                continue
            where = {"tau": tau, "x": x}
            # 0 <= v <= u <= erfc(x sqrt(eps) / (2 sqrt(tau)))
            exc_u = max(uf - bound, -uf)
            exc_v = max(vf - max(uf, 0.0), -vf)
            ST["bound_excess"] = max(ST["bound_excess"], exc_u, exc_v)
            if exc_u > FLOOR + RTOL * bound:
                violation("decay:u", where, exc_u, FLOOR, {"u": uf, "v": vf, "comparison_bound_erfc": bound})
            if exc_v > FLOOR + RTOL * abs(uf):
                violation("decay:v", where, exc_v, FLOOR, {"u": uf, "v": vf, "comparison_bound_erfc": bound})
            # both fields are non-increasing in x
            if prev is not None:
                for nm, val, pv in (("u", uf, prev[1]), ("v", vf, prev[2])):
                    if val - pv > FLOOR + RTOL * abs(pv):
                        violation("decay:%s-monotone" % nm, where, val - pv, FLOOR,
                                  {"value": val, "value_at_previous_point": pv, "previous_x": prev[0]})
            prev = (x, uf, vf)
    except Exception as ex:        # a raising call is C20's business; counted here, not judged
        C["call_exceptions"] = C.get("call_exceptions", 0) + 1
        k2 = "exc:%s" % type(ex).__name__
        C[k2] = C.get(k2, 0) + 1
        S.dg.add("exc", type(ex).__name__)
    res["evals"] = S.calls
    res["sample"] = {"cfg": vcfg, "tau": tau, "t_physical": tau * cfg["alpha"] / (A4 * CLIGHT * cfg["opac"]),
                     "x_lattice": XS[tier], "far_points": FAR[tier], "z_of_x1": 1.0 / (RT3 * cfg["opac"]),
                     "clauses": ["pde:u-equation", "pde:v-equation", "bc:marshak", "decay:u", "decay:v", "decay:u-monotone", "decay:v-monotone"]}
    res["digest"] = S.dg.hex()
    return res


def postprocess(agg, tier):
    """Worst residuals of the run, written into the evidence (measured, not assumed)."""
    worst = {}
    for r in agg["results"]:
        if not r:
            continue
        for k, v in r.get("stats", {}).items():
            worst[k] = max(worst.get(k, 0.0), float(v))
    return {"worst_residuals": worst,
            "tolerances": {"pde": "|R| <= %g*sum|terms| + %g" % (RTOL, ATOL), "bc": BC_TOL, "decay_floor": FLOOR}}
