"""C19 -- 2D steady Riemann problem: oblique-shock / Prandtl-Meyer relations, balanced slip line.

Mode L: every (bottom_state, top_state) pair within K deviations of the default pair over a per-side alphabet of
pressure, density, Mach number, flow angle and gamma.  For each pair the public IGEOS_Solver is called on an arc of
points; the wave pattern is located *from the returned fields* (plateaus = runs of identical states, jumps and fans =
what lies between them, every edge refined by multi-section through further public calls), and the textbook relations
(xpmc/x_C19_gas.py, nothing imported from the code under test) are evaluated on the located states:

  far:*                first / last plateau are the given bottom / top states
  structure:*          at most one wave below and one above the slip line; wave of the right family and sense
  slip:pressure, slip:flow-direction, slip:tangent   equal p and flow direction on both sides, flow along the slip line
  shock:theta-beta-M, shock:density-ratio, shock:mach-downstream, shock:angle
                       deflection, rho2/rho1, M2 and the shock's polar angle from (M1, p2/p1) by the normal-Mach relations
  fan:isentropic, fan:total-enthalpy     p/rho^gamma and h + q^2/2 equal at both end states and at every point inside
  fan:turning-angle    theta - theta_up = -+(nu(M) - nu(M_up)) with the TRUE Prandtl-Meyer function, at the end state and inside
  fan:head-mach-angle, fan:tail-mach-angle, fan:ray-mach-angle     the rays of a centred fan are Mach lines theta -+ mu(M)
  consistency:*        speed^2 = u^2+v^2, M = speed/c, c^2 = gamma p/rho, e = p/((gamma-1) rho), flow angle of the uniform
                       regions = given angle / reported deflection angle; every point of a uniform region carries its state

Reduced oracles for recorded defects: a case that fails a plain clause is re-tested against the *coded* (defective)
formula and, only if it matches that exactly, is reported under a distinct clause name (`...:coded-nu`, `...:rotated-head`,
`...:upstream-direction-ignored`) which a known-findings entry can name; a case failing both is reported under the
plain clause, i.e. as a new violation.
"""
import math

import numpy as np

from xpmc import lattice, oracle
from xpmc import x_C19_gas as gas
from xpmc.engine import Digest
from xpmc.solvers import construct, call, Inadmissible

ID = "C19"
LEVEL = "exploration"
TECHNIQUE = "bounded exhaustive enumeration of deviation-bounded pairs of inflow states on the real solver (explicit-state exploration, mode L); wave pattern located from the returned fields, textbook jump/expansion relations evaluated on every located state"
CLAIM = ("Every (bottom, top) state pair within K deviations (K=3 quick, K=4 thorough) of the default pair over a per-side alphabet of pressure, density, Mach "
         "number, flow angle and gamma is constructed and called; the plateaus, jumps and fans are located from the returned fields on an arc through every "
         "region (edges refined to 1e-10 rad by further public calls), and the slip-line balance, the oblique-shock relations, the Prandtl-Meyer/isentropic "
         "relations and the pointwise kinematic consistency are evaluated on 3 radii (1, 0.37, 1e-7) x (41 arc points + 8 points in each fan + both sides of every edge). "
         "Exhaustive over the stated alphabet; right level because the solver is a pure function of ten scalars and a point whose failure modes are wrong "
         "formulas in one branch (wave type x side x sign of the inflow angle), which the lattice reaches.")
LEVEL_NOTE = ("trusted: numpy/math, the textbook relations transcribed in xpmc/x_C19_gas.py, exact equality of the copied plateau states used to locate edges; "
              "assumed: points are presented in ascending polar angle (the order the package's own examples use), fields depend on the polar angle only "
              "(checked at two radii), defects confined to states between lattice values are not seen; pairs on which the solver raises are counted, "
              "classified with an independent reference solution, and not judged here (C20)")
BOUND = {"quick": "K=3 deviations from the default pair (1839 pairs), 10-parameter alphabet; radii 1, 0.37, 1e-7",
         "thorough": "K=4 deviations from the default pair (7992 pairs), same alphabet"}
RULE = ("tasks = all (bottom_state, top_state) pairs with <= K deviating entries over the alphabet p{1,0.25,4} rho{1,0.5,2} M{2.4,7,1.5,4} theta{0,+-5,+-12 deg} "
        "gamma{1.4,5/3} per side (default first); per pair: one 161-point scan of the arc phi in [-1.45,1.45], <= 10 refinement calls (14-way multi-section of every "
        "edge), one evaluation call at each of the radii 1, 0.37 and 1e-7 with 41 uniform arc points + 8 points in every fan + 2 points at every edge; an "
        "evaluation is one public IGEOS_Solver call; a case (pair, wave or point, clause) is non-trivial when the wave has non-zero strength "
        "(|p2/p1 - 1| > 1e-9) resp. the point lies in a region other than the two inflow regions; distinct by (pair, located item, clause)")
ASSUMPTIONS = [
    "values outside the state alphabet and pairs with more than K deviations are not explored",
    "points are passed in ascending polar angle (the in-fan root solve of the solver is warm-started from the previous point; order dependence is C06's subject)",
    "x > 0 only (the solver defines the polar angle as arctan(y/x))",
    "edges are located by exact equality with the copied plateau state; a plateau narrower than 2e-10 rad would be seen as a jump",
    "pairs on which the solver raises or returns non-finite fields are counted (with the reference classification regular/vacuum/irregular) but not judged: the statement is about returned solutions",
    "the statement does not say where a fan's rays lie; the fan:*-mach-angle clauses follow DESIGN.md's oracle ('fan boundaries at Mach angles') and are reported under their own clause names",
]

SOLVER = "riemann2D_2section_steadystate.IGEOS_Solver"
NAME = "Riemann2D"
G53 = 5.0 / 3.0
# per-side alphabets, default first: [p, rho, M, theta_deg, gamma]
ALPHABET = {
    "pB": [1.0, 0.25, 4.0], "rB": [1.0, 0.5, 2.0], "MB": [2.4, 7.0, 1.5, 4.0], "thB": [0.0, 5.0, -5.0, 12.0, -12.0], "gB": [1.4, G53],
    "pT": [0.25, 1.0, 4.0], "rT": [0.5, 1.0, 2.0], "MT": [7.0, 2.4, 1.5, 4.0], "thT": [0.0, 5.0, -5.0, 12.0, -12.0], "gT": [1.4, G53],
}
K = {"quick": 3, "thorough": 4}

PHI_MAX = 1.45
N_SCAN = 161
N_ARC = 41
N_FAN = 8
N_INNER = 33           # points used to tell a fan from hidden narrow plateaus inside a zone of change
RADII = (1.0, 0.37, 1.0e-7)      # the last: next to the apex, where an absolute length literal in the ray angle shows (S3-C19-3)
MSEC = 14              # interior points per multi-section round
EDGE_TOL = 2.0e-11     # rad
EDGE_EPS = 1.0e-7      # evaluation points this far on either side of a located edge
# Tolerances (class B, DESIGN.md 4.1).  Measured on the unchanged tree (evidence key worst_residuals; pairs that show a
# defect signature are listed apart), quick K=2 / thorough K=4:
#   relations between plateau states (slip, shock, far, consistency)   <= 6e-15 / 2e-14
#   fan interior states (root-solved per point by the solver, xtol 1.5e-8): isentrope, total enthalpy <= 1e-15
#   located angles against the relation (head Mach angle, shock angle, slip tangency)   <= 4e-12 / 7e-12 rad
# i.e. >= 5 orders of magnitude below the tolerances.  The recorded defects are 5.9e-4 ... 0.6; the seeded changes
# (mutants/C19) give 6.6e-3 ... 0.4, so tolerance <= 1e-3 x the smallest seeded residual.
TOL = 1.0e-6           # relative, state relations
TOL_ANG = 1.0e-6       # rad, angles
TOL_EXACT = 1.0e-12    # copied / purely algebraic quantities


def tasks(tier, seed):
    return [{"dev": dev} for dev in lattice.enumerate_checked(ALPHABET, K[tier])]


def states_of(cfg):
    b = [cfg["pB"], cfg["rB"], cfg["MB"], cfg["thB"], cfg["gB"]]
    t = [cfg["pT"], cfg["rT"], cfg["MT"], cfg["thT"], cfg["gT"]]
    return b, t


# ------------------------------------------------------------------------------------------------ observation

FIELDS = ("pressure", "density", "specific_internal_energy", "Mach", "x_velocity", "y_velocity", "speed")


class SolverRaised(Exception):
    """The public call raised (kept apart from exceptions of the harness itself, which must surface as harness errors)."""

    def __init__(self, ex):
        Exception.__init__(self, "%s: %s" % (type(ex).__name__, ex))
        self.ex = ex


class PatternUnresolved(Exception):
    """The returned field is not a finite sequence of uniform regions, jumps and fans on the arc."""


class Probe:
    def __init__(self, solver):
        self.s = solver
        self.calls = 0
        self.dg = Digest()

    def at(self, phis, r=1.0):
        """States at polar angles phis (ascending) and radius r: array (n, 7)."""
        phis = np.asarray(phis, float)
        pts = [[r * math.cos(p), r * math.sin(p)] for p in phis]
        try:
            sol = call(self.s, pts, 1.0)
        except Exception as ex:
            self.calls += 1
            raise SolverRaised(ex)
        self.calls += 1
        F = np.array([np.asarray(sol[n], float) for n in FIELDS]).T
        self.dg.add(F)
        return F


def same(a, b):
    return bool(np.array_equal(a[:6], b[:6]))      # p, rho, e, M, u, v  (bit-exact: plateau states are copies)


class St:
    """One state with derived quantities."""

    def __init__(self, f, g):
        self.p, self.rho, self.e, self.M, self.u, self.v, self.q = (float(x) for x in f)
        self.g = g
        self.theta = math.atan2(self.v, self.u)

    def entropy(self):
        return self.p / self.rho ** self.g

    def h0(self):
        return self.g / (self.g - 1.0) * self.p / self.rho + 0.5 * (self.u ** 2 + self.v ** 2)


def rel(a, b):
    d = max(abs(a), abs(b))
    return abs(a - b) / d if d > 0 else 0.0


def locate(P, C):
    """Locate plateaus / transitions on the arc from the fields.
    Returns (plateaus, transitions): plateaus = [state vectors]; transitions[i] between plateau i and i+1 =
    dict(kind 'jump'|'fan', lo, hi)  (lo == hi within EDGE_TOL for a jump; fan: lo = head/tail edges)."""
    phis = np.linspace(-PHI_MAX, PHI_MAX, N_SCAN)
    F = P.at(phis)
    if not np.all(np.isfinite(F)):
        return None, None
    # zones of change: maximal groups of consecutive cells whose end states differ
    zones = []
    i = 0
    n = len(phis)
    while i < n - 1:
        if same(F[i], F[i + 1]):
            i += 1
            continue
        j = i + 1
        # extend until two consecutive samples are equal again (start of the next plateau)
        while j < n - 1 and not same(F[j], F[j + 1]):
            j += 1
        zones.append((phis[i], F[i].copy(), phis[j], F[j].copy()))
        i = j
    plateaus = [F[0].copy()]
    transitions = []
    work = list(zones)
    depth = 0
    while work:
        depth += 1
        if depth > 12:
            raise PatternUnresolved()
        # refine both edges of every zone in the work list simultaneously
        br = []
        for (a, Fa, b, Fb) in work:
            br.append([a, b, Fa, True])     # sup{phi: F == Fa}
            br.append([a, b, Fb, False])    # inf{phi: F == Fb}
        for _ in range(12):
            if all(x[1] - x[0] <= EDGE_TOL for x in br):
                break
            q = []
            for x in br:
                q.extend(np.linspace(x[0], x[1], MSEC + 2)[1:-1])
            order = np.argsort(q, kind="stable")
            Fq = np.empty((len(q), 7))
            Fq[order] = P.at(np.asarray(q)[order])
            k = 0
            for x in br:
                sub = np.linspace(x[0], x[1], MSEC + 2)
                vals = Fq[k:k + MSEC]
                k += MSEC
                eq = [True] + [same(v, x[2]) for v in vals] + [False] if x[3] else [False] + [same(v, x[2]) for v in vals] + [True]
                if x[3]:
                    m = max(ii for ii in range(len(eq) - 1) if all(eq[:ii + 1]))
                    x[0], x[1] = sub[m], sub[m + 1]
                else:
                    m = min(ii for ii in range(1, len(eq)) if all(eq[ii:]))
                    x[0], x[1] = sub[m - 1], sub[m]
        new_work = []
        resolved = []
        for zi, (a, Fa, b, Fb) in enumerate(work):
            ea, eb = br[2 * zi], br[2 * zi + 1]
            lo, hi = ea[0], eb[1]          # F == Fa up to lo (bracket [ea0, ea1]); F == Fb from hi on
            if eb[1] - ea[0] <= 4 * EDGE_TOL + 1e-15:
                resolved.append((a, {"kind": "jump", "lo": ea[0], "hi": eb[1]}, Fb))
                continue
            # something of finite width lies between: a fan, or hidden plateau(s)
            inner = np.linspace(ea[1], eb[0], N_INNER + 2)[1:-1]
            Fi = P.at(inner)
            if not np.all(np.isfinite(Fi)):
                return None, None
            hidden = [k for k in range(len(inner) - 1) if same(Fi[k], Fi[k + 1])]
            if hidden:
                k0 = hidden[0]
                k1 = k0 + 1
                while k1 + 1 < len(inner) and same(Fi[k1], Fi[k1 + 1]):
                    k1 += 1
                new_work.append((a, Fa, inner[k0], Fi[k0].copy()))
                new_work.append((inner[k1], Fi[k1].copy(), b, Fb))
                continue
            resolved.append((a, {"kind": "fan", "lo": ea[0], "lo_hi": ea[1], "hi_lo": eb[0], "hi": eb[1]}, Fb))
        C["refinement_rounds"] = C.get("refinement_rounds", 0) + 1
        work = new_work
        for item in resolved:
            transitions.append(item)
    transitions.sort(key=lambda it: it[1]["lo"])
    out_t = []
    for a, tr, Fb in transitions:
        out_t.append(tr)
        plateaus.append(Fb)
    return plateaus, out_t


# ------------------------------------------------------------------------------------------------ signatures of recorded defects

def signature(solver, morph, cd, ps, bref, tref):
    """Letters describing in which way the solver's *own reported* quantities (public attributes morphology,
    pressure_solution, deflection_angle_solution, angles) are inconsistent with its own documented equations.  They do not
    decide anything: they are attached to a violation's `where` so that a known-findings entry can be restricted to
    the cases that show the symptom of the recorded defect.

      B  branch mismatch: the morphology letter says rarefaction (shock) but p* is above (below) that side's pressure
      U  unconverged: the reported (p*, deflection) does not satisfy the documented pressure-deflection equations of the
         reported morphology (with the coded Prandtl-Meyer expression), i.e. the root solve returned a non-root
      N  the coded Prandtl-Meyer expression is not strictly increasing between the end Mach numbers of a reported fan
         (it is not invertible there, so root solves on it are ill-posed); only possible near M = 1 ... 1.6
      O  the reported wave angles are out of order (bottom wave <= slip line <= top wave, head before tail)
    """
    out = ""
    try:
        if len(morph) != 5 or not (ps == ps and cd == cd):
            return "?"
        sides = ((bref, -1, morph[0]), (tref, +1, morph[4]))
        if any((br == "R") != (ps < st[0]) for st, sg, br in sides if ps != st[0]):
            out += "B"
        r = [abs(gas.branch_flow_angle(st, sg, ps, br, gas.nu_without_inner_sqrt) - cd) for st, sg, br in sides]
        if not all(x <= 1e-7 for x in r):
            out += "U"
        for st, sg, br in sides:
            if br == "R":
                Ms = gas.fan_mach_from_pressure_ratio(st[2], st[4], ps / st[0])
                if not gas.strictly_increasing(gas.nu_without_inner_sqrt, st[4], st[2], Ms):
                    out += "N"
                    break
        a = getattr(solver, "angles", {})
        seq = []
        for kname in ("BS", "BR", "CD", "TR", "TS"):
            if kname in a:
                seq.extend(float(x) for x in np.atleast_1d(a[kname]))
        if any(seq[i] > seq[i + 1] for i in range(len(seq) - 1)):
            out += "O"
    except Exception:
        out += "?"
    return out


# ------------------------------------------------------------------------------------------------ the check

def run_task(task):
    cfg = lattice.full_cfg(ALPHABET, task["dev"])
    bottom, top = states_of(cfg)
    vcfg = dict(cfg, bottom_state=bottom, top_state=top, dtheta=cfg["thT"] - cfg["thB"])
    res = {"evals": 0, "nontrivial": [], "violations": [], "counters": {}, "sample": None,
           "stats": {}}
    C = res["counters"]
    ST = res["stats"]
    key = str(sorted(task["dev"].items()))
    bref = (bottom[0], bottom[1], bottom[2], math.radians(bottom[3]), bottom[4])
    tref = (top[0], top[1], top[2], math.radians(top[3]), top[4])

    def stat(name, val):
        # worst residual per clause; pairs showing a defect signature are kept apart so that the plain names give the
        # numerical noise of the relations on consistent solutions (what the tolerances are calibrated against)
        if val == val:
            name = name + (" [pairs with a defect signature]" if sig else "")
            ST[name] = max(ST.get(name, 0.0), float(val))

    seen = set()

    sig = ""

    def violation(clause, where, value, tol, detail):
        if sig:
            where = dict(where, sig=sig)
        k = (clause, tuple(sorted(where.items())))
        if k in seen:          # one per (clause, where): keep the first (= worst is put first by the callers)
            return
        seen.add(k)
        res["violations"].append({"solver": NAME, "cfg": vcfg, "clause": clause, "where": where,
                                  "value": float(value), "tol": float(tol), "detail": detail})

    def check(clause, where, value, tol, detail, statname=None):
        stat((statname or clause) + ("" if value <= tol else " (violating cases)"), value)
        C["relations_checked"] = C.get("relations_checked", 0) + 1
        if not value <= tol:
            violation(clause, where, value, tol, detail)
            return False
        return True

    try:
        s = construct(SOLVER, {"bottom_state": list(bottom), "top_state": list(top)})
    except Inadmissible:
        C["inadmissible_vectors"] = 1
        res["digest"] = Digest().add("inadmissible").hex()
        return res
    P = Probe(s)

    def refused(tag, ex=None):
        ref = gas.reference_solution(bref, tref)
        C["solver_raised_or_nonfinite"] = C.get("solver_raised_or_nonfinite", 0) + 1
        nm = "%s:%s|reference=%s" % (tag, type(ex).__name__ if ex is not None else "-", ref["kind"] + ("/" + ref["morphology"] if "morphology" in ref else ""))
        C[nm] = C.get(nm, 0) + 1
        P.dg.add(tag, type(ex).__name__ if ex is not None else "-")
        res["evals"] = P.calls
        res["sample"] = {"bottom_state": bottom, "top_state": top, "outcome": nm}
        res["digest"] = P.dg.hex()
        return res

    # "all evaluation points": the value at a point must not depend on the order in which the points are listed.  A 41-point
    # arc is evaluated in ascending, descending and stride-permuted order and compared bit for bit (added after the seeded
    # change S-C19-3, an early exit from the point loop that is valid only for points sorted by ray angle)
    pending_order = []          # emitted once the defect signature of the pair is known (so recorded defects keep their shadow)
    try:
        phis0 = np.linspace(-1.2, 1.2, 41)
        base_ = P.at(phis0)
        for oname, perm in (("descending", np.arange(41)[::-1]), ("stride-permuted", (np.arange(41) * 16) % 41)):
            got = P.at(phis0[perm])
            # fan-interior states come from a per-point root solve whose starting guess is carried along the point list: the
            # last bits legitimately depend on the order (measured <= 3e-9); class-B tolerance 1e-6
            mm = oracle.mismatch(got, base_[perm], floor=1e-9)
            same_ = mm <= 1e-6
            C["order_variants_compared"] = C.get("order_variants_compared", 0) + 1
            if not same_.all():
                badphi = phis0[perm][(~same_).any(axis=1)]
                pending_order.append(({"order": oname}, float(mm.max()), {"n_points_differing": int(len(badphi))}, badphi))
    except SolverRaised:
        pass          # the scan below classifies a raising solver
    try:
        plateaus, trans = locate(P, C)
    except SolverRaised as sr:
        return refused("raised", sr.ex)
    except PatternUnresolved:
        if gas.reference_solution(bref, tref)["kind"] == "regular":
            violation("structure:wave-pattern", {"transitions": -1}, float("inf"), 3.0,
                      {"note": "the returned field could not be resolved into uniform regions, jumps and fans after 12 refinement levels"})
        res["evals"] = P.calls
        res["sample"] = {"bottom_state": bottom, "top_state": top, "outcome": "wave pattern unresolved"}
        res["digest"] = P.dg.hex()
        return res
    if plateaus is None:
        return refused("nonfinite")
    # ------------------------------------------------------------------ quantifier: a regular (non-vacuum, supersonic) solution exists
    ref = gas.reference_solution(bref, tref)
    if ref["kind"] != "regular":
        C["outside_quantifier:" + ref["kind"]] = 1
        C["returned_a_field_outside_quantifier"] = 1
        res["evals"] = P.calls
        res["sample"] = {"bottom_state": bottom, "top_state": top, "outcome": "not judged: reference solution is " + ref["kind"]}
        res["digest"] = P.dg.hex()
        return res
    try:
        morph = str(getattr(s, "morphology", "?"))
        cd_attr = float(getattr(s, "deflection_angle_solution"))
        p_attr = float(getattr(s, "pressure_solution"))
    except Exception:
        morph, cd_attr, p_attr = "?", float("nan"), float("nan")
    P.dg.add(morph, cd_attr, p_attr)
    sig = signature(s, morph, cd_attr, p_attr, bref, tref)
    if sig:
        C["signature:" + sig] = 1
    for w_, v_, d_, badphi in pending_order:
        # where do the order-dependent points lie?  strictly inside a located fan (the per-point root solve with a carried
        # starting guess: recorded defect riemann2d-fan-interior-depends-on-point-order) or elsewhere (uniform regions)
        fans = [(tr["lo"], tr["hi"]) for tr in trans if tr["kind"] == "fan"]
        inside = [any(lo - 1e-9 <= ph <= hi + 1e-9 for lo, hi in fans) for ph in badphi]
        w_ = dict(w_, points="fan-interior-only" if all(inside) else "also-outside-fans")
        violation("consistency:value-independent-of-point-order", w_, v_, 1e-6, d_)
    C["morphology:" + morph] = 1
    C["pairs_with_returned_solution"] = 1
    k = len(trans)
    C["located_jumps"] = sum(1 for t in trans if t["kind"] == "jump")
    C["located_fans"] = sum(1 for t in trans if t["kind"] == "fan")

    # ------------------------------------------------------------------ which transition is the slip line
    def mid(t):
        return 0.5 * (t["lo"] + t["hi"])

    jumps = [i for i, t in enumerate(trans) if t["kind"] == "jump"]
    slip = None
    if k == 3:
        slip = 1
    elif k in (1, 2) and jumps:
        # the slip line is the jump across which the pressure changes least (the other wave, if any, has zero strength)
        slip = min(jumps, key=lambda i: rel(plateaus[i][0], plateaus[i + 1][0]))
    if k > 3 or (k >= 1 and slip is None) or (slip is not None and trans[slip]["kind"] != "jump"):
        violation("structure:wave-pattern", {"transitions": k}, float(k), 3.0,
                  {"kinds": [t["kind"] for t in trans], "positions": [mid(t) for t in trans], "morphology_attr": morph})
        if k > 3 or slip is None or trans[slip]["kind"] != "jump":
            slip = None
    if slip is not None and (slip > 1 or k - 1 - slip > 1):
        violation("structure:wave-pattern", {"transitions": k}, float(k), 3.0,
                  {"kinds": [t["kind"] for t in trans], "positions": [mid(t) for t in trans], "slip_index": slip})
    phi_slip = mid(trans[slip]) if slip is not None else None

    def gamma_at(phi):
        if phi_slip is None:
            return None
        return bottom[4] if phi < phi_slip else top[4]

    # ------------------------------------------------------------------ evaluation points (two radii)
    edges = []
    for t in trans:
        if t["kind"] == "jump":
            edges.append((t["lo"], t["hi"]))
        else:
            edges.append((t["lo"], t["lo_hi"]))
            edges.append((t["hi_lo"], t["hi"]))
    arc = list(np.linspace(-PHI_MAX, PHI_MAX, N_ARC))
    arc = [a for a in arc if all(not (lo - EDGE_EPS <= a <= hi + EDGE_EPS) for lo, hi in edges)]
    C["arc_points_dropped_on_an_edge"] = N_ARC - len(arc)
    pts = [(a, "arc", None) for a in arc]
    for ti, t in enumerate(trans):
        if t["kind"] == "jump":
            pts.append((t["lo"] - EDGE_EPS, "below", ti))
            pts.append((t["hi"] + EDGE_EPS, "above", ti))
        else:
            pts.append((t["lo"] - EDGE_EPS, "below", ti))
            pts.append((t["hi"] + EDGE_EPS, "above", ti))
            for j, a in enumerate(np.linspace(t["lo_hi"], t["hi_lo"], N_FAN + 2)[1:-1]):
                pts.append((float(a), "fan", (ti, j)))
    pts.sort(key=lambda x: x[0])
    phis = [x[0] for x in pts]
    try:
        Fr = [P.at(phis, r) for r in RADII]
    except SolverRaised as sr:
        return refused("raised-at-evaluation", sr.ex)

    def region_of(phi):
        """('plateau', i) or ('fan', ti) from the located edges."""
        for ti, t in enumerate(trans):
            if phi < t["lo"]:
                return ("plateau", ti)
            if phi <= t["hi"]:
                return ("fan", ti) if t["kind"] == "fan" else ("edge", ti)
        return ("plateau", k)

    # ------------------------------------------------------------------ pointwise consistency; uniform regions carry their state
    for ri, (r, F) in enumerate(zip(RADII, Fr)):
        for (phi, tag, ref), f in zip(pts, F):
            reg = region_of(phi)
            where = {"region": "%s%d" % reg}
            if not np.all(np.isfinite(f)):
                violation("consistency:nonfinite", where, float("inf"), 0.0, {"phi": phi, "r": r, "fields": [float(x) for x in f]})
                continue
            p, rho, e, M, u, v, q = (float(x) for x in f)
            det = {"phi": phi, "r": r, "p": p, "rho": rho, "M": M, "u": u, "v": v}
            check("consistency:speed", where, rel(q * q, u * u + v * v), TOL_EXACT * 10, det)
            gs = [gamma_at(phi)] if phi_slip is not None else [bottom[4], top[4]]
            cm = min(rel(M * M * g * p / rho, q * q) for g in gs)
            check("consistency:mach=speed/c", where, cm, TOL, det)
            em = min(rel(e * (g - 1.0) * rho, p) for g in gs)
            check("consistency:e=p/((gamma-1)rho)", where, em, TOL, det)
            if reg[0] == "plateau":
                check("consistency:uniform-region", where, float(np.max([rel(a, b) for a, b in zip(f[:6], plateaus[reg[1]][:6])])), TOL_EXACT, det)
                if reg[1] not in (0, k):
                    res["nontrivial"].append("%s|pt|%d|%.6f" % (key, ri, phi))
            elif reg[0] == "fan":
                res["nontrivial"].append("%s|pt|%d|%.6f" % (key, ri, phi))
    C["evaluation_points"] = len(pts) * len(RADII)

    # ------------------------------------------------------------------ far states
    def state(i):
        phi_c = -PHI_MAX if i == 0 else (PHI_MAX if i == k else 0.5 * (trans[i - 1]["hi"] + trans[i]["lo"]))
        g = gamma_at(phi_c)
        if g is None:
            g = bottom[4] if i == 0 else top[4]
        return St(plateaus[i], g)

    for nm, i, refst in (("bottom", 0, bref), ("top", k, tref)):
        S_ = state(i)
        d = max(rel(S_.p, refst[0]), rel(S_.rho, refst[1]), rel(S_.M, refst[2]))
        check("far:%s-state" % nm, {}, d, TOL_EXACT * 100, {"returned": [S_.p, S_.rho, S_.M, S_.theta], "given": list(refst)}, "far:state")
        check("far:%s-flow-angle" % nm, {}, abs(S_.theta - refst[3]), TOL_EXACT * 100, {"returned": S_.theta, "given": refst[3]}, "far:flow-angle")

    # ------------------------------------------------------------------ slip line
    if slip is not None:
        A, B = state(slip), state(slip + 1)
        w = {"wave": "slip"}
        det = {"phi": phi_slip, "below": [A.p, A.rho, A.M, A.theta], "above": [B.p, B.rho, B.M, B.theta], "morphology_attr": morph}
        check("slip:pressure", w, rel(A.p, B.p), TOL, det)
        check("slip:flow-direction", w, abs(A.theta - B.theta), TOL_ANG, det)
        check("slip:tangent", w, max(abs(A.theta - phi_slip), abs(B.theta - phi_slip)), TOL_ANG, det)
        res["nontrivial"].append("%s|slip" % key)
        # reported attributes (observed, compared for information: counted, not judged)
        if not (abs(cd_attr - phi_slip) <= TOL_ANG and rel(p_attr, A.p) <= TOL):
            C["attr_differs_from_fields"] = C.get("attr_differs_from_fields", 0) + 1

    # ------------------------------------------------------------------ the waves
    for ti, t in enumerate(trans):
        if ti == slip or slip is None:
            continue
        sgn = -1 if ti < slip else +1           # bottom wave / top wave
        wname = "bottom" if sgn < 0 else "top"
        U, D = (state(ti), state(ti + 1)) if sgn < 0 else (state(ti + 1), state(ti))
        g = U.g
        w = {"wave": wname}
        pr = D.p / U.p
        base = {"upstream": [U.p, U.rho, U.M, U.theta], "downstream": [D.p, D.rho, D.M, D.theta], "gamma": g, "morphology_attr": morph}
        if max(rel(U.p, D.p), rel(U.rho, D.rho), rel(U.M, D.M), abs(U.theta - D.theta)) <= 1e-9:
            # a wave of zero strength (the two plateau states differ in the last bits only): nothing to relate
            C["zero_strength_waves"] = C.get("zero_strength_waves", 0) + 1
            continue
        res["nontrivial"].append("%s|%s|%s" % (key, wname, t["kind"]))
        if t["kind"] == "jump":
            C["shocks_checked"] = C.get("shocks_checked", 0) + 1
            phi_s = mid(t)
            sh = gas.shock_from_pressure_ratio(U.M, g, pr) if pr > 1.0 else None
            if sh is None:
                violation("shock:admissible", w, pr, 1.0, dict(base, note="jump with p2/p1 <= 1 or normal Mach number above M1"))
                continue
            turn = sgn * (D.theta - U.theta)
            check("shock:theta-beta-M", w, abs(turn - sh["delta"]), TOL_ANG, dict(base, turning=turn, delta_from_p_ratio=sh["delta"], beta=sh["beta"]))
            check("shock:density-ratio", w, rel(D.rho / U.rho, sh["rho_ratio"]), TOL, dict(base, expected=sh["rho_ratio"]))
            check("shock:mach-downstream", w, rel(D.M, sh["M2"]), TOL, dict(base, expected=sh["M2"]))
            exp_phi = U.theta + sgn * sh["beta"]
            err = abs(phi_s - exp_phi)
            C["relations_checked"] = C.get("relations_checked", 0) + 1
            if err <= TOL_ANG:
                stat("shock:angle", err)
            else:
                # reduced oracle for the recorded defect: theta-beta-M solved with the absolute downstream flow angle as
                # deflection and the result used as absolute polar angle (right only when the upstream flow angle is 0)
                # ... (when that absolute angle exceeds the maximum deflection at M1 the equation has no root and the
                # root solve returns a non-root: recognised too)
                try:
                    rhs = 2.0 / math.tan(phi_s) * (U.M ** 2 * math.sin(phi_s) ** 2 - 1.0) / (2.0 + U.M ** 2 * (g + math.cos(2.0 * phi_s)))
                    coded = abs(rhs - math.tan(D.theta)) <= 1e-7 * max(1.0, abs(rhs)) or abs(D.theta) > gas.max_deflection(U.M, g)
                except Exception:
                    coded = False
                cl = "shock:angle:upstream-direction-ignored" if coded and abs(U.theta) > 1e-9 else "shock:angle"
                stat(cl + " (violating cases)", err)
                violation(cl, w, err, TOL_ANG, dict(base, located_polar_angle=phi_s, expected=exp_phi, beta=sh["beta"]))
        else:
            C["fans_checked"] = C.get("fans_checked", 0) + 1
            if not pr < 1.0:
                violation("fan:expansive", w, pr, 1.0, dict(base, note="continuous wave through which the pressure rises"))
                continue
            head = 0.5 * ((t["lo"] + t["lo_hi"]) if sgn < 0 else (t["hi_lo"] + t["hi"]))
            tail = 0.5 * ((t["hi_lo"] + t["hi"]) if sgn < 0 else (t["lo"] + t["lo_hi"]))
            # states to test: the downstream end state and the points inside (both radii)
            items = [("end", D, None)]
            for ri, F in enumerate(Fr):
                for (phi, tag, ref), f in zip(pts, F):
                    if tag == "fan" and ref[0] == ti and np.all(np.isfinite(f)):
                        items.append(("in%d.%d" % (ri, ref[1]), St(f, g), phi))
            worst = {}

            def keep(clause, val, det):
                stat(clause + ("" if val <= (TOL_ANG if "angle" in clause else TOL) else " (violating cases)"), val)
                C["relations_checked"] = C.get("relations_checked", 0) + 1
                if clause not in worst or val > worst[clause][0]:
                    worst[clause] = (val, det)

            for nm, X, phi in items:
                det = dict(base, item=nm, state=[X.p, X.rho, X.M, X.theta], phi=phi)
                keep("fan:isentropic", rel(X.entropy(), U.entropy()), det)
                keep("fan:total-enthalpy", rel(X.h0(), U.h0()), det)
                turn = -sgn * (X.theta - U.theta)
                dnu = gas.nu(X.M, g) - gas.nu(U.M, g)
                err = abs(turn - dnu)
                if err <= TOL_ANG:
                    keep("fan:turning-angle", err, det)
                else:
                    dnu_c = gas.nu_without_inner_sqrt(X.M, g) - gas.nu_without_inner_sqrt(U.M, g)
                    cl = "fan:turning-angle:coded-nu" if abs(turn - dnu_c) <= TOL_ANG else "fan:turning-angle"
                    keep(cl, err, dict(det, turning=turn, nu_difference=dnu, coded_expression_difference=dnu_c))
                if nm == "end":
                    exp_tail = X.theta + sgn * gas.mu(X.M)
                    err = abs(tail - exp_tail)
                    if err <= TOL_ANG:
                        keep("fan:tail-mach-angle", err, det)
                    else:
                        rot = U.theta + sgn * gas.mu(U.M) + (X.theta - U.theta)      # head ray rotated by the turning angle
                        cl = "fan:tail-mach-angle:rotated-head" if abs(tail - rot) <= TOL_ANG else "fan:tail-mach-angle"
                        keep(cl, err, dict(det, located_tail=tail, expected=exp_tail, head_rotated_by_turning=rot))
                else:
                    exp_phi = X.theta + sgn * gas.mu(X.M)
                    err = abs(phi - exp_phi)
                    if err <= TOL_ANG:
                        keep("fan:ray-mach-angle", err, det)
                    else:
                        rot = U.theta + sgn * gas.mu(U.M) + (X.theta - U.theta)
                        cl = "fan:ray-mach-angle:rotated-head" if abs(phi - rot) <= TOL_ANG else "fan:ray-mach-angle"
                        keep(cl, err, dict(det, expected=exp_phi, head_rotated_by_turning=rot))
            keep("fan:head-mach-angle", abs(head - (U.theta + sgn * gas.mu(U.M))), dict(base, located_head=head, expected=U.theta + sgn * gas.mu(U.M)))
            for clause, (val, det) in sorted(worst.items()):
                tol = TOL_ANG if "angle" in clause else TOL
                if not val <= tol:
                    violation(clause, w, val, tol, det)

    # flow angle of the star regions against the reported deflection angle (mutual consistency of the returned quantities)
    if slip is not None and cd_attr == cd_attr:
        for i in (slip, slip + 1):
            if i in (0, k):
                continue
            check("consistency:flow-angle-vs-reported-deflection", {"region": "plateau%d" % i}, abs(state(i).theta - cd_attr), TOL_ANG,
                  {"flow_angle": state(i).theta, "deflection_angle_solution": cd_attr})

    res["evals"] = P.calls
    res["sample"] = {"bottom_state": bottom, "top_state": top, "morphology_attr": morph, "pressure_solution": p_attr,
                     "deflection_angle_solution": cd_attr,
                     "located": [{"kind": t["kind"], "from": t["lo"], "to": t["hi"]} for t in trans],
                     "plateau_pressures": [float(pl[0]) for pl in plateaus], "n_eval_points": len(pts) * len(RADII)}
    res["digest"] = P.dg.hex()
    return res


def postprocess(agg, tier):
    worst = {}
    for r in agg["results"]:
        if not r:
            continue
        for k_, v in r.get("stats", {}).items():
            worst[k_] = max(worst.get(k_, 0.0), float(v))
    return {"worst_residuals": worst, "tolerances": {"relations": TOL, "angles_rad": TOL_ANG, "copied_quantities": TOL_EXACT}}
