"""C20 -- invalid problems are rejected loudly; no finite garbage outside validity; no NaN inside.

Explicit-state exploration of the operation words

    new(violating) | new(boundary) | new(nearest admissible)        for every documented parameter restriction
    new(valid) . call(request outside the time/space domain)         for every documented domain restriction
    new(cfg) . call(in-domain lattice, t)                            cfg = default + K deviations of every hydro family,
                                                                     and the default / geometry variants of all 120 classes

The restriction catalogue (xpmc/x_c20_restrictions.py) is transcribed from help strings, docstrings, package docs and the
constructors' own messages; admissible geometry sets are parsed at run time from each class's 'geometry' help string.
Oracle (the property statement): violating -> ValueError at construction; outside the domain -> raises or NaN, never
numbers without NaN; in-domain -> every numeric field real and finite, and no exception other than ValueError.
"""
import contextlib
import io
import re

import numpy as np

from xpmc import hydro, lattice
from xpmc import x_c05_catalog as cat
from xpmc import x_c20_restrictions as rc
from xpmc import x_c20_families as xf
from xpmc.engine import Digest, jsonable

ID = "C20"
LEVEL = "model_checking"
TECHNIQUE = ("explicit-state exploration of constructor/call words over the documented-restriction catalogue "
             "({violating, boundary, nearest admissible} per restriction; outside-domain requests) and of deviation-bounded "
             "in-domain configurations, on the real solvers")
CLAIM = ("For every documented restriction of every public solver class (catalogue transcribed from help strings, docstrings, package docs and "
         "constructor messages; geometry sets parsed from the help strings at run time; a class missing from the per-class table is a harness "
         "fault) the words new(violating), new(boundary), new(nearest admissible) are executed and, where the constructor stays silent, continued "
         "by a default call to record what the user gets; for every documented time/space domain the word new(valid).call(outside) is executed; "
         "every parameter vector within K deviations of the default of every hydro family (K=2 quick / 3 thorough for the cheap ones, one more for the non-hydro closed forms) and the default and geometry variants of all other "
         "classes are called on an in-domain lattice and every returned numeric field is tested for NaN/inf/complex. Model checking over this "
         "finite word set is the right level: the property quantifies over an enumerable catalogue crossed with a three-letter value alphabet.")
LEVEL_NOTE = ("trusted: the hand transcription of the documentation into xpmc/x_c20_restrictions.py and of in-domain lattices into "
              "xpmc/x_c05_catalog.py / xpmc/hydro*.py, numpy.isfinite; assumed: restrictions the documentation does not state are not demanded; "
              "violating values other than the listed ones behave like them; in-domain absence of NaN is decided only on the lattice points "
              "and parameter vectors enumerated")
BOUND = {"quick": "all catalogue words (depth <= 2); in-domain K=2 deviations of the cheap hydro families (K=1 of the costly ones), K=3 of the "
                  "cheap non-hydro families (heat, Blake, burn-time; K=2 for the costlier ones) + default/geometry variants of all classes",
         "thorough": "quick + in-domain K=3 deviations of the cheap hydro families, K=4 of the cheap non-hydro families (K=3 of the costlier ones)"}
RULE = ("tasks = one per (restriction, class), per class with a geometry help string, per (domain restriction, class), per in-domain "
        "configuration; a case is one operation word; an evaluation is one public solver call; a word is non-trivial when the "
        "constructor/call under test was actually reached (the parameter exists on that class) and, for in-domain words, the call returned "
        ">= 1 record; distinct by (class, word); states = distinct words explored, transitions = operations executed (new, call)")
ASSUMPTIONS = [
    "only documented restrictions are demanded; restrictions documented as a warning only (Cog4/Cog12 gamma < 1, alpha/beta ranges, Blake pressure scale) are counted, not judged",
    "a boundary value must be rejected only where the documentation says strictly (>, <, 'positive', 'open interval')",
    "a ValueError raised from the first call instead of the constructor is reported as a (low-severity) violation with outcome 'late-ValueError' because the statement says 'at construction'",
    "an in-domain request that is refused with a deliberate exception (ValueError, RuntimeError 'failed to converge', exactpack's IterationError) is loud and is counted, not judged; a programming-error exception (TypeError, ZeroDivisionError, IndexError, KeyError, NameError/UnboundLocalError, AttributeError, AssertionError, OverflowError) is a violation",
    "in-domain lattices avoid r = 0 and the exact positions of discontinuities except through the straddling points of xpmc.hydro.sample_points",
]

# the quick tier is what used to be the thorough one (25 s on 12 cores); the thorough tier goes one deviation further
K = {"quick": 2, "thorough": 3}
KX = {"quick": 3, "thorough": 4}        # the extra (non-hydro) closed-form families are cheap: one more deviation


def preimport():
    from xpmc import solvers, hydro_more  # noqa: F401
    solvers.import_all()


def _families():
    from xpmc import hydro_more  # noqa: F401
    return list(hydro.FAMILIES)


def tasks(tier, seed):
    out = [{"kind": "catalogue"}]
    for key, e in cat.TABLE.items():
        out.append({"kind": "geometry", "cls": key})
    for i, r in enumerate(rc.RESTRICTIONS):
        for c in r["classes"]:
            out.append({"kind": "restriction", "rid": i, "cls": "exactpack.solvers." + c})
    for i, d in enumerate(rc.DOMAINS):
        for c in d["classes"]:
            out.append({"kind": "domain", "did": i, "cls": "exactpack.solvers." + c})
    for i, sp in enumerate(rc.SPECIAL_INDOMAIN):
        out.append({"kind": "special", "sid": i})
    for key, e in cat.TABLE.items():
        for ci in range(len(cat.cfgs(e))):
            out.append({"kind": "class", "cls": key, "cfg": ci})
    for f in _families():
        k = K[tier] if f["cost"] == "cheap" else 1
        for dev in lattice.enumerate_checked(f["alphabet"], k):
            out.append({"kind": "family", "family": f["name"], "dev": dev})
    for f in xf.EXTRA:
        k = KX[tier] if f["cost"] == "cheap" else K[tier]
        for dev in lattice.enumerate_checked(f["alphabet"], k):
            out.append({"kind": "xfamily", "family": f["name"], "dev": dev})
    return out


# --------------------------------------------------------------------------------------------------- helpers

def short(key):
    return key.replace("exactpack.solvers.", "")


class Ctx:
    def __init__(self):
        self.res = {"evals": 0, "nontrivial": [], "violations": [], "counters": {}, "sample": None, "states": 0, "transitions": 0}
        self.dg = Digest()
        self.seen = set()

    def count(self, name, k=1):
        c = self.res["counters"]
        c[name] = c.get(name, 0) + k

    def viol(self, solver, cfg, clause, where, value=1.0, tol=0.0, detail=None):
        key = (clause, repr(sorted((k, repr(v)) for k, v in where.items())))
        if key in self.seen:
            return
        self.seen.add(key)
        self.res["violations"].append({"solver": solver, "cfg": jsonable(cfg), "clause": clause, "where": jsonable(where),
                                       "value": value, "tol": tol, "detail": jsonable(detail or {})})

    def done(self):
        self.res["digest"] = self.dg.hex()
        return self.res


CRASH = (TypeError, ZeroDivisionError, IndexError, KeyError, NameError, AttributeError, AssertionError, RecursionError, OverflowError)


def loud(ex):
    """A deliberate, informative failure (ValueError, RuntimeError 'failed to converge', the library's own IterationError, ...)
    as opposed to an unhandled programming-error exception (CRASH: TypeError, ZeroDivisionError, IndexError, KeyError,
    NameError/UnboundLocalError, AttributeError, ...).  For a valid in-domain request only a CRASH is a violation: the
    statement forbids NaN/inf there, and a loud refusal is neither."""
    return not isinstance(ex, CRASH)


def quiet_call(s, x, t):
    with contextlib.redirect_stdout(io.StringIO()):
        return s(x, t)


def field_state(sol, rows=None):
    """Per-record classification of the returned numeric fields: (has_nan, has_inf, has_complex) arrays over the records."""
    n = len(sol)
    nan = np.zeros(n, bool)
    inf = np.zeros(n, bool)
    cpx = np.zeros(n, bool)
    for name in sol.dtype.names:
        a = np.asarray(sol[name])
        if a.dtype.kind == "c":
            cpx |= (a.imag != 0) | True
            nan |= np.isnan(a)
            inf |= np.isinf(a)
        elif a.dtype.kind == "f":
            nan |= np.isnan(a)
            inf |= np.isinf(a)
        elif a.dtype.kind == "O":
            for i, v in enumerate(a.tolist()):
                if isinstance(v, complex):
                    cpx[i] = True
                elif isinstance(v, float) and v != v:
                    nan[i] = True
    return nan, inf, cpx


def digest_sol(dg, sol):
    for n in sol.dtype.names:
        a = np.asarray(sol[n])
        if a.dtype.kind == "O":
            dg.add(n, [str(v) for v in a.tolist()])
        else:
            dg.add(n, a)


def default_call(e, kw, s):
    """The table's valid default request (N = 3 or the smallest mesh)."""
    N = 3 if 3 in e["Ns"] else e["Ns"][0]
    P = np.asarray(e["pts"](N, kw, s), dtype=float)
    return quiet_call(s, cat.native(e, P), e["t"])


def classify_after_silence(e, kw, s):
    """The constructor accepted a value it should have rejected: what does the user get from the default request?"""
    try:
        sol = default_call(e, kw, s)
    except ValueError:
        return "late-ValueError", ""
    except Exception as ex:
        return "silent-then-" + type(ex).__name__, str(ex)[:160]
    nan, inf, cpx = field_state(sol)
    if cpx.any():
        return "silent-complex", ""
    if nan.any() or inf.any():
        return "silent-nonfinite", ""
    return "silent-finite", ""


def cname(key):
    return key.rsplit(".", 1)[1]


# --------------------------------------------------------------------------------------------------- task kinds

def run_task(task):
    kind = task["kind"]
    if kind == "catalogue":
        return run_catalogue()
    if "cls" in task and not cat.exists(cat.TABLE[task["cls"]]):
        return {"evals": 0, "nontrivial": [], "violations": [], "states": 0, "transitions": 0, "sample": None,
                "counters": {"tasks_skipped_class_absent_from_tree": 1}, "digest": Digest().add("absent").hex()}
    if kind == "geometry":
        return run_geometry(task)
    if kind == "restriction":
        return run_restriction(task)
    if kind == "domain":
        return run_domain(task)
    if kind == "special":
        return run_special(task)
    if kind == "class":
        return run_class(task)
    if kind == "xfamily":
        return run_xfamily(task)
    return run_family(task)


def run_catalogue():
    from xpmc.solvers import discover
    d = discover()
    miss = cat.missing(d)
    if miss:
        raise RuntimeError("uncatalogued public solver(s): %s -- add them to xpmc/x_c05_catalog.py and their documented "
                           "restrictions to xpmc/x_c20_restrictions.py" % ", ".join(miss))
    known = set(cat.TABLE)
    bad = sorted({c for r in rc.RESTRICTIONS + rc.DOMAINS for c in r["classes"] if "exactpack.solvers." + c not in known})
    if bad:
        raise RuntimeError("restriction catalogue names classes that are not in the per-class table: %s" % ", ".join(bad))
    return {"evals": 0, "nontrivial": [], "violations": [], "states": 0, "transitions": 0,
            "counters": {"public_classes_discovered": len(d), "parameter_restrictions": len(rc.RESTRICTIONS),
                         "domain_restrictions": len(rc.DOMAINS), "documented_as_warning_only": len(rc.WARNING_ONLY)},
            "sample": {"warning_only": [list(w) for w in rc.WARNING_ONLY]}, "digest": Digest().add(sorted(d)).hex()}


def _new_word(cx, e, key, kw, level, rid, demand, expect_silent_ok=False):
    """Execute new(kw) and judge it.  demand: 'ValueError' | 'no-judgement' | 'constructs'."""
    solver = short(key)
    cx.res["states"] += 1
    cx.res["transitions"] += 1
    try:
        s = cat.build(e, kw)
        ex = None
    except Exception as ex_:
        s, ex = None, ex_
    cx.dg.add(rid, level, repr(sorted(kw.items(), key=str)), type(ex).__name__ if ex is not None else "ok")
    clause = "restriction:%s:%s:%s" % (cname(key), rid, level)
    if demand == "ValueError":
        if isinstance(ex, ValueError):
            cx.count("rejected_with_ValueError")
            return
        if ex is not None:
            cx.viol(solver, kw, clause, {"outcome": "raises-" + type(ex).__name__}, detail={"message": str(ex)[:200]})
            return
        cx.res["transitions"] += 1
        cx.res["evals"] += 1
        outcome, msg = classify_after_silence(e, kw, s)
        cx.dg.add(outcome)
        cx.viol(solver, kw, clause, {"outcome": outcome}, detail={"message": msg})
    elif demand == "constructs":
        if ex is None:
            cx.count("admissible_constructed")
        elif isinstance(ex, ValueError):
            cx.count("admissible_rejected_with_ValueError")         # over-rejection is not the property's business
        else:
            cx.viol(solver, kw, "restriction:%s:%s:admissible" % (cname(key), rid), {"outcome": "raises-" + type(ex).__name__},
                    detail={"message": str(ex)[:200]})
    else:
        cx.count("boundary_not_strict_" + ("accepted" if ex is None else "rejected"))
        if ex is not None and not isinstance(ex, ValueError):
            cx.viol(solver, kw, clause, {"outcome": "raises-" + type(ex).__name__}, detail={"message": str(ex)[:200]})


def run_geometry(task):
    from xpmc.solvers import get_class
    key = task["cls"]
    e = cat.TABLE[key]
    cx = Ctx()
    c = get_class(e["path"])
    params = getattr(c, "parameters", {})
    if "geometry" not in params or e["build"] == "bbnoh" and cname(key) != "NohBlackBoxEos":
        cx.count("classes_without_geometry_parameter")
        return cx.done()
    adm = rc.geometry_set(params["geometry"])
    if not adm:
        cx.count("geometry_help_string_without_values")
        return cx.done()
    base = cat.full_kwargs(e, {}, e["Ns"][0])
    bad = sorted({min(adm) - 1, max(adm) + 1} | {g for g in range(min(adm), max(adm)) if g not in adm})
    for g in bad:
        kw = dict(base)
        kw["geometry"] = g
        _new_word(cx, e, key, kw, "violating", "geometry in {%s}" % ",".join(map(str, adm)), "ValueError")
        cx.res["nontrivial"].append("%s|geometry=%d" % (short(key), g))
    cx.res["sample"] = {"class": short(key), "help": params["geometry"], "admissible": adm, "violating": bad}
    return cx.done()


def run_restriction(task):
    from xpmc.solvers import get_class
    key = task["cls"]
    r = rc.RESTRICTIONS[task["rid"]]
    e = cat.TABLE[key]
    cx = Ctx()
    c = get_class(e["path"])
    params = set(getattr(c, "parameters", {}))
    base = cat.full_kwargs(e, {}, e["Ns"][0])
    base.update(r["base"])
    for level, vals, demand in (("violating", r["violating"], "ValueError"),
                                ("boundary", r["boundary"], "ValueError" if r["strict"] else "no-judgement"),
                                ("admissible", r["admissible"], "constructs")):
        for ov in vals:
            if not set(ov) <= params:
                cx.count("not_applicable_parameter_absent")          # e.g. a geometry wrapper that does not expose the parameter
                continue
            kw = dict(base)
            if e["path"] == "blake.blake.Blake" and set(ov) & set(c.elas_prm_names):
                kw = {k: v for k, v in kw.items() if k not in c.elas_prm_names}
            kw.update(ov)
            _new_word(cx, e, key, kw, level, r["rid"], demand)
            cx.res["nontrivial"].append("%s|%s|%s|%s" % (short(key), r["rid"], level, sorted(ov.items(), key=str)))
    cx.res["sample"] = {"class": short(key), "restriction": r["rid"], "documented": r["doc"], "violating": r["violating"],
                        "boundary": r["boundary"], "strict": r["strict"], "admissible": r["admissible"]}
    return cx.done()


def run_domain(task):
    key = task["cls"]
    d = rc.DOMAINS[task["did"]]
    e = cat.TABLE[key]
    cx = Ctx()
    solver = short(key)
    kw = cat.full_kwargs(e, {}, e["Ns"][0])
    kw.update(d["base"])
    clause = "domain:%s:%s:%s" % (cname(key), d["did"], d["level"])
    cx.res["states"] += 1
    cx.res["transitions"] += 1
    try:
        s = cat.build(e, kw)
    except Exception as ex:
        cx.count("domain_word_valid_configuration_rejected:" + type(ex).__name__)
        cx.dg.add("newexc", type(ex).__name__)
        return cx.done()
    t = e["t"] if d["t"] is None else d["t"]
    if d["pts"] is None:
        P = np.asarray(e["pts"](3 if 3 in e["Ns"] else e["Ns"][0], kw, s), dtype=float)
    else:
        P = np.asarray(d["pts"], dtype=np.int64 if d.get("int_pts") else float)      # int_pts: the same request with integer-typed positions
    where = {"t": t} if d["t"] is not None else {"points": "outside"}
    cx.res["transitions"] += 1
    cx.res["evals"] += 1
    cx.res["nontrivial"].append("%s|%s|%s" % (solver, d["did"], t))
    try:
        sol = quiet_call(s, cat.native(e, P), t)
    except Exception as ex:
        cx.count("outside_domain_raises:" + type(ex).__name__)
        cx.dg.add("raises", type(ex).__name__)
        cx.res["sample"] = {"class": solver, "domain": d["did"], "t": t, "outcome": "raises " + type(ex).__name__}
        return cx.done()
    digest_sol(cx.dg, sol)
    nan, inf, cpx = field_state(sol)
    rows = list(range(len(sol))) if d["outside"] == "all" else [i for i in d["outside"] if i < len(sol)]
    rows = np.array(rows, int)
    if len(rows) == 0 or np.all(nan[rows]):
        cx.count("outside_domain_NaN")
        outcome = "NaN"
    else:
        bad = rows[~nan[rows]]
        if cpx[bad].any():
            outcome = "complex-numbers"
        elif inf[bad].all():
            outcome = "inf-without-NaN"
        else:
            outcome = "finite-numbers"
        first = int(bad[0])
        cx.viol(solver, kw, clause, dict(where, outcome=outcome),
                detail={"record": {n: repr(np.asarray(sol[n])[first].item() if np.asarray(sol[n]).dtype.kind != "O" else np.asarray(sol[n])[first])
                                   for n in sol.dtype.names}, "documented": d["doc"], "n_records_without_NaN": int(len(bad))})
    cx.res["sample"] = {"class": solver, "domain": d["did"], "t": t, "outcome": outcome, "documented": d["doc"]}
    return cx.done()


def judge_indomain(cx, solver, cfg, sol, where, pts=None):
    """Every numeric field of an in-domain request must be real and finite."""
    nan, inf, cpx = field_state(sol)
    digest_sol(cx.dg, sol)
    bad_fields = []
    for name in sol.dtype.names:
        a = np.asarray(sol[name])
        if a.dtype.kind == "c":
            bad_fields.append((name, "complex"))
        elif a.dtype.kind == "f":
            if np.isnan(a).any():
                bad_fields.append((name, "nan"))
            elif np.isinf(a).any():
                bad_fields.append((name, "inf"))
    kinds = sorted({k for _, k in bad_fields})
    for kind in kinds:
        fields = [n for n, k in bad_fields if k == kind]
        a = np.asarray(sol[fields[0]])
        idx = np.where(~np.isfinite(a))[0] if kind != "complex" else np.arange(len(a))
        det = {"fields": fields, "n_records": int(len(idx)), "n_total": int(len(sol))}
        if pts is not None and len(idx):
            det["first_point"] = np.asarray(pts)[int(idx[0])].tolist()
        w = dict(where)
        w["fields"] = fields
        cx.viol(solver, cfg, "indomain:" + kind, w, value=float(len(idx)), detail=det)
    return not kinds


def run_special(task):
    sp = rc.SPECIAL_INDOMAIN[task["sid"]]
    key = "exactpack.solvers." + sp["cls"]
    e = cat.TABLE[key]
    cx = Ctx()
    kw = cat.full_kwargs(e, sp["cfg"], e["Ns"][0])
    cx.res["states"] += 1
    cx.res["transitions"] += 1
    try:
        s = cat.build(e, kw)
    except ValueError:
        cx.count("special_rejected_with_ValueError")
        return cx.done()
    except Exception as ex:
        cx.viol(short(key), kw, "indomain:construct-exception:" + type(ex).__name__, {}, detail={"message": str(ex)[:200]})
        return cx.done()
    cx.res["transitions"] += 1
    cx.res["evals"] += 1
    cx.res["nontrivial"].append("%s|%s" % (short(key), sorted(sp["cfg"].items())))
    try:
        sol = default_call(e, kw, s)
        judge_indomain(cx, short(key), kw, sol, {})
    except Exception as ex:
        cx.dg.add("exc", type(ex).__name__)
        if loud(ex):
            cx.count("special_call_rejected_loudly")
        else:
            cx.viol(short(key), kw, "indomain:exception:" + type(ex).__name__, {}, detail={"message": str(ex)[:200], "documented": sp["doc"]})
    return cx.done()


def run_class(task):
    key = task["cls"]
    e = cat.TABLE[key]
    cfg = cat.cfgs(e)[task["cfg"]]
    cx = Ctx()
    solver = short(key)
    s = None
    for N in [n for n in e["Ns"] if n >= 2][-2:]:
        kw = cat.full_kwargs(e, cfg, N)
        cx.res["states"] += 1
        if s is None or e["cost"] != "slownew":          # slownew: construction is the expensive part -> one object, two calls
            cx.res["transitions"] += 1
            try:
                s = cat.build(e, kw)
            except ValueError:
                cx.count("default_configuration_rejected_with_ValueError")     # C05 reports an unconstructible public class
                cx.dg.add("newexc", "ValueError")
                break
            except Exception as ex:
                cx.viol(solver, kw, "indomain:construct-exception:" + type(ex).__name__, {}, detail={"message": str(ex)[:200]})
                cx.dg.add("newexc", type(ex).__name__)
                break
        P = np.asarray(e["pts"](N, kw, s), dtype=float)
        cx.res["transitions"] += 1
        cx.res["evals"] += 1
        try:
            sol = quiet_call(s, cat.native(e, P), e["t"])
        except Exception as ex:
            cx.dg.add("exc", type(ex).__name__)
            if loud(ex):
                cx.count("indomain_call_rejected_loudly:" + type(ex).__name__)
            else:
                cx.viol(solver, kw, "indomain:exception:" + type(ex).__name__, {}, detail={"message": str(ex)[:200], "t": e["t"], "N": N})
            continue
        if len(sol):
            cx.res["nontrivial"].append("%s|%s|%d" % (solver, sorted(cfg.items(), key=str), N))
        judge_indomain(cx, solver, kw, sol, {}, pts=P if len(sol) == len(P) else None)
        if cx.res["sample"] is None:
            cx.res["sample"] = {"class": solver, "kwargs": repr(kw), "t": e["t"], "N": N, "points": P.tolist()[:4]}
    return cx.done()


def family_points(f, cfg, t, s):
    """In-domain lattice of a hydro family.  Cheap closed-form families: 24 lattice points plus points straddling every
    discontinuity located from the fields; others: the plain lattice (one call)."""
    name = f["name"]
    if name == "Sedov":
        return np.geomspace(0.004, 3.0, 40), 0
    if "points" in f and name not in ("Sedov",):
        pts, _, ncall = f["points"](cfg, t, s)
        return np.asarray(pts, float), ncall
    if f["cost"] != "cheap" or name.startswith("GenEOS"):
        a, b = f["domain"](cfg, t)
        return np.asarray(hydro.base_lattice(a, b, 24), float), 0
    pts, _, ncall = hydro.sample_points(f, cfg, t, s)
    return np.asarray(pts, float), ncall


def run_family(task):
    from xpmc.solvers import Inadmissible
    f = hydro.by_name(task["family"])
    cfg = lattice.full_cfg(f["alphabet"], task["dev"])
    if "resolve" in f:
        cfg_show = f["resolve"](cfg)
    else:
        cfg_show = cfg
    cx = Ctx()
    solver = f["name"]
    cx.res["states"] += 1
    cx.res["transitions"] += 1
    try:
        s = hydro.make(f, cfg)
    except Inadmissible:
        cx.count("inadmissible_vectors")
        cx.dg.add("inadmissible")
        return cx.done()
    except Exception as ex:
        cx.dg.add("cexc", type(ex).__name__)
        cx.viol(solver, cfg_show, "indomain:construct-exception:" + type(ex).__name__, {}, detail={"message": str(ex)[:200]})
        return cx.done()
    for t in f["times"](cfg):
        cx.res["states"] += 1
        cx.res["transitions"] += 1
        try:
            pts, ncall = family_points(f, cfg, t, s)
            cx.res["evals"] += ncall + 1
            sol = quiet_call(s, pts, t)
        except Exception as ex:
            cx.dg.add("exc", type(ex).__name__)
            if loud(ex):
                cx.count("indomain_call_rejected_loudly:%s:%s" % (solver, type(ex).__name__))
            else:
                cx.viol(solver, cfg_show, "indomain:exception:" + type(ex).__name__, {}, detail={"message": str(ex)[:200], "t": t})
            continue
        if len(sol):
            cx.res["nontrivial"].append("%s|%s|%g" % (solver, sorted(task["dev"].items(), key=str), t))
        judge_indomain(cx, solver, cfg_show, sol, {}, pts=pts if len(sol) == len(pts) else None)
        if solver in ORIGIN_FAMILIES:
            # the centre/axis r = 0 lies inside the domain of these problems (it is in the shocked / uniformly collapsing
            # region, where the documented state is finite) and a grid starting at 0 is what the shipped examples use;
            # added after the seeded change S2-C20-3 (0 * inf at exactly r == 0)
            try:
                sol0 = quiet_call(s, np.array([0.0, float(pts[0])]), t)
                cx.res["evals"] += 1
                cx.count("origin_probes")
                judge_indomain(cx, solver, cfg_show, sol0[:1], {"point": "r=0"})
            except Exception as ex:
                cx.dg.add("exc0", type(ex).__name__)
                if not loud(ex):
                    cx.viol(solver, cfg_show, "indomain:exception:" + type(ex).__name__, {"point": "r=0"}, detail={"message": str(ex)[:200], "t": t})
        if cx.res["sample"] is None:
            cx.res["sample"] = {"family": solver, "cfg": cfg_show, "t": t, "n_points": int(len(pts))}
    return cx.done()


ORIGIN_FAMILIES = {"Noh", "Noh2", "Noh2Cog", "BBNoh"}


def run_xfamily(task):
    f = xf.by_name(task["family"])
    cfg = lattice.full_cfg(f["alphabet"], task["dev"])
    cx = Ctx()
    solver = f["name"]
    if f["valid"] is not None and not f["valid"](cfg):
        cx.count("vectors_that_are_no_problem_at_all")
        cx.dg.add("not-a-problem")
        return cx.done()
    cx.res["states"] += 1
    cx.res["transitions"] += 1
    try:
        s, kw = xf.build(f, cfg)
    except ValueError:
        cx.count("inadmissible_vectors")
        cx.dg.add("inadmissible")
        return cx.done()
    except Exception as ex:
        cx.dg.add("cexc", type(ex).__name__)
        cx.viol(solver, cfg, "indomain:construct-exception:" + type(ex).__name__, {}, detail={"message": str(ex)[:200]})
        return cx.done()
    for t in f["times"](cfg):
        cx.res["states"] += 1
        cx.res["transitions"] += 1
        cx.res["evals"] += 1
        P = np.asarray(f["pts"](cfg, t, s), dtype=float)
        A = np.ascontiguousarray(P.T) if f["native"] == "dN" else P
        try:
            sol = quiet_call(s, A, t)
        except Exception as ex:
            cx.dg.add("exc", type(ex).__name__)
            if loud(ex):
                cx.count("indomain_call_rejected_loudly:%s:%s" % (solver, type(ex).__name__))
            else:
                cx.viol(solver, cfg, "indomain:exception:" + type(ex).__name__, {}, detail={"message": str(ex)[:200], "t": t})
            continue
        if len(sol):
            cx.res["nontrivial"].append("%s|%s|%g" % (solver, sorted(task["dev"].items(), key=str), t))
        judge_indomain(cx, solver, cfg, sol, {}, pts=P if len(sol) == len(P) else None)
        if cx.res["sample"] is None:
            cx.res["sample"] = {"family": solver, "cfg": cfg, "t": t, "n_points": int(len(P))}
    return cx.done()


def postprocess(agg, tier):
    return {"restriction_catalogue": {"parameter_restrictions": len(rc.RESTRICTIONS), "domain_restrictions": len(rc.DOMAINS),
                                      "documented_as_warning_only": [list(w) for w in rc.WARNING_ONLY]},
            "classes_in_table": len(cat.TABLE)}
