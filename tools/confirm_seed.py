#!/usr/bin/env python3
"""Confirm a seeded change independently and file it under /verif/seeded/<id>/.

  tools/confirm_seed.py <src dir with patch.diff demo.py notes.md> <seed id> <property> <tests,comma,separated> ["needs" text]

In a scratch worktree of /repo HEAD: demo on clean tree must exit 0; patch must apply; demo on patched tree must exit
non-zero; the listed test files must pass with the patch.  Writes meta.json; copies the three files.
"""
import json
import os
import shutil
import subprocess
import sys

ROOT = os.path.dirname(os.path.dirname(os.path.abspath(__file__)))


def sh(cmd, **kw):
    return subprocess.run(cmd, shell=True, stdout=subprocess.PIPE, stderr=subprocess.STDOUT, text=True, **kw)


def main():
    src, sid, prop, tests = sys.argv[1:5]
    needs = sys.argv[5] if len(sys.argv) > 5 else ""
    dst = os.path.join(ROOT, "seeded", sid)
    os.makedirs(dst, exist_ok=True)
    for f in ("patch.diff", "demo.py", "notes.md"):
        if os.path.exists(os.path.join(src, f)) and os.path.abspath(src) != os.path.abspath(dst):
            shutil.copy(os.path.join(src, f), os.path.join(dst, f))
    wt = "/tmp/confirm_%d" % os.getpid()
    sh("git -C /repo worktree add --detach %s HEAD" % wt)
    env = dict(os.environ, PYTHONPATH=wt, MPLBACKEND="Agg")
    meta = {"id": sid, "property": prop, "needs_to_manifest": needs, "confirmed": {}}
    try:
        r0 = sh("/venv/bin/python %s" % os.path.join(dst, "demo.py"), env=env, cwd=wt)
        meta["confirmed"]["demo_exit_clean"] = r0.returncode
        ra = sh("git -C %s apply %s" % (wt, os.path.join(dst, "patch.diff")))
        meta["confirmed"]["patch_applies"] = ra.returncode == 0
        r1 = sh("/venv/bin/python %s" % os.path.join(dst, "demo.py"), env=env, cwd=wt)
        meta["confirmed"]["demo_exit_patched"] = r1.returncode
        meta["confirmed"]["demo_tail_patched"] = r1.stdout[-300:]
        tfiles = " ".join("exactpack/tests/" + t for t in tests.split(",") if t)
        rt = sh("/venv/bin/python -m pytest -q -p no:cacheprovider --timeout=900 %s 2>&1 | tail -3" % tfiles, env=env, cwd=wt)
        meta["confirmed"]["tests_run"] = tests.split(",")
        meta["confirmed"]["tests_tail"] = rt.stdout.strip().splitlines()[-1] if rt.stdout.strip() else ""
        meta["confirmed"]["repo_head"] = sh("git -C /repo rev-parse --short HEAD").stdout.strip()
    finally:
        sh("git -C /repo worktree remove --force %s" % wt)
    import re
    tail = meta["confirmed"].get("tests_tail", "")
    m = re.search(r"(\d+) failed", tail)
    nfail = int(m.group(1)) if m else 0
    # the baseline's one always-failing test (BASELINE.json always_fail) lives in test_riemann.py
    allowed = 1 if "test_riemann.py" in tests else 0
    meta["confirmed"]["tests_failed"] = nfail
    meta["confirmed"]["tests_failed_allowed_baseline"] = allowed
    ok = (meta["confirmed"].get("demo_exit_clean") == 0 and meta["confirmed"].get("patch_applies")
          and meta["confirmed"].get("demo_exit_patched") not in (0, None) and "passed" in tail and nfail <= allowed and "error" not in tail)
    meta["kept"] = bool(ok)
    old = os.path.join(dst, "meta.json")
    if os.path.exists(old):
        prev = json.load(open(old))
        meta["runs"] = prev.get("runs", [])
    with open(old, "w") as f:
        json.dump(meta, f, indent=1)
    print(sid, "kept" if ok else "REJECTED", json.dumps(meta["confirmed"])[:600])


if __name__ == "__main__":
    main()
