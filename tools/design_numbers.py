#!/usr/bin/env python3
"""Refresh the last column of the table in DESIGN.md section 11.2 from evidence/*.json (quick tier)."""
import json
import os
import re

ROOT = os.path.dirname(os.path.dirname(os.path.abspath(__file__)))


def k(n):
    if n >= 1e6:
        return "%.1f M" % (n / 1e6)
    return ("%.1f k" % (n / 1000)).replace(".0 k", " k") if n >= 1000 else str(n)


new = {}
for i in range(1, 21):
    e = json.load(open(os.path.join(ROOT, "evidence", "C%02d.json" % i)))
    c = e["coverage"]
    assert e["tier"] == "quick", e["property_id"]
    s = "%d tasks, %s calls" % (c["tasks_enumerated"], k(c["evaluations"]))
    if c.get("states"):
        s = "%s states, %s transitions" % (k(c["states"]), k(c["transitions"]))
    new[e["property_id"]] = s + ", %d s" % round(e["wall_s"])
p = os.path.join(ROOT, "DESIGN.md")
out = []
for l in open(p).read().split("\n"):
    m = re.match(r"^\| (C\d\d) \| (.*) \| ([^|]*) \|$", l)
    if m and m.group(1) in new and "mode / level" not in l and " / " in m.group(2).split("|")[0]:
        l = "| %s | %s | %s |" % (m.group(1), m.group(2), new[m.group(1)])
    out.append(l)
open(p, "w").write("\n".join(out))
for kk, v in new.items():
    print(kk, v)
