#!/usr/bin/env python3
"""Regenerate /verif/MANIFEST.json from the table below + the property modules present in props/.
A property whose module is absent is listed under not_applicable with the reason given in PENDING."""
import importlib
import json
import os
import sys

ROOT = os.path.dirname(os.path.dirname(os.path.abspath(__file__)))
sys.path.insert(0, ROOT)

BASELINE = ("cd /repo && env -u EXACTPACK_VERIF /venv/bin/python -m pytest -ra -q -p no:cacheprovider --timeout=900 "
            "--continue-on-collection-errors --junitxml=/tmp/exactpack_baseline.junit.xml")

# per-property claim text: (category, design_ref, text, level_note)
CLAIMS = {}


def claim(pid, category, ref, text, note):
    CLAIMS[pid] = dict(category=category, design_ref=ref, text=text, note=note)


def load_claims():
    for pid in ["C%02d" % i for i in range(1, 21)]:
        path = os.path.join(ROOT, "props", pid + ".py")
        if not os.path.exists(path):
            continue
        src = open(path).read()
        ns = {}
        # the module-level constants are plain literals; evaluate only those (no exactpack import needed)
        import ast
        tree = ast.parse(src)
        for node in tree.body:
            if isinstance(node, ast.Assign) and len(node.targets) == 1 and isinstance(node.targets[0], ast.Name):
                name = node.targets[0].id
                if name in ("ID", "LEVEL", "TECHNIQUE", "CLAIM", "LEVEL_NOTE", "DESIGN_REF"):
                    try:
                        ns[name] = ast.literal_eval(node.value)
                    except Exception:
                        pass
        if "LEVEL" not in ns:
            continue
        claim(pid, ns["LEVEL"], ns.get("DESIGN_REF", "DESIGN.md section 5 " + pid),
              ns.get("CLAIM", "bounded exhaustive exploration of the real code; see DESIGN.md section 5 " + pid),
              ns.get("LEVEL_NOTE", "alphabet, bound and oracle as stated in the evidence file; values outside the alphabet are not explored"))
        CLAIMS[pid]["technique"] = ns.get("TECHNIQUE", "bounded exhaustive enumeration on the implementation")


def main():
    load_claims()
    pending = json.load(open(os.path.join(ROOT, "tools", "pending.json")))
    checks = []
    na = []
    for i in range(1, 21):
        pid = "C%02d" % i
        if pid in CLAIMS and pid in pending.get("ready", []) and pid not in pending.get("withdrawn", {}):
            c = CLAIMS[pid]
            checks.append({
                "property_id": pid,
                "quick_cmd": "./check %s --tier quick" % pid,
                "thorough_cmd": "./check %s --tier thorough" % pid,
                "evidence_file": "/verif/evidence/%s.json" % pid,
                "replay_cmd_template": "./check %s --replay {path}" % pid,
                "engine": "xpmc",
                "level_claimed": {"category": c["category"], "text": c["text"], "design_ref": c["design_ref"]},
                "level_note": c["note"],
                "technique": c["technique"],
            })
        else:
            reason = pending.get("withdrawn", {}).get(pid) or pending.get("pending", {}).get(
                pid, "check not built yet in this revision of /verif (work in progress; the design for it is DESIGN.md section 5)")
            na.append({"property_id": pid, "reason": reason})
    man = {
        "version": 1,
        "setup_cmd": "cd /verif && /venv/bin/python -m xpmc.guderley_cache",
        "hooks": {
            "guard": "EXACTPACK_VERIF",
            "enable": "none needed: exactpack is an editable install of /repo, every seam used (module globals, class attributes, "
                      "function defaults, public constructors/calls) is reachable by import; ./check exports EXACTPACK_VERIF=1 but "
                      "no source line of /repo reads it",
            "baseline_off_cmd": BASELINE,
            "source_commits": [],
            "add_only": True,
        },
        "engines": [{
            "name": "xpmc", "path": "/verif/xpmc",
            "serves_properties": [c["property_id"] for c in checks],
            "kind_free_text": "hand-written explicit-state explorer for the Python implementation: deviation-bounded parameter-lattice "
                              "enumeration (mode L), BFS over constructor/call histories with canonical snapshots of module/class/default "
                              "state (mode H), BFS over symmetry-orbit graphs (mode G); every violation is replayed alone in a fresh interpreter",
        }],
        "checks": checks,
        "notes": "All checks import the working tree of /repo (editable install), so they rebuild from the current sources by construction. "
                 "known_findings.jsonl lists recorded defects (KNOWN-FINDING lines) and repaired ones (fixed: entries, which suppress nothing).",
        "not_applicable": na,
    }
    with open(os.path.join(ROOT, "MANIFEST.json"), "w") as f:
        json.dump(man, f, indent=1)
        f.write("\n")
    print("MANIFEST.json: %d checks, %d not_applicable" % (len(checks), len(na)))


if __name__ == "__main__":
    main()
