#!/usr/bin/env python3
"""Merge proposed findings of a property into known_findings.jsonl after a run with XPMC_FINDINGS_EXTRA.

  tools/merge_findings.py Cxx /tmp/extra_Cxx.log [more logs, e.g. a thorough run]

Entries whose id appears on a KNOWN-FINDING line of any given log are appended as open findings (if not present);
proposed entries that matched nothing are recorded as `fixed:` if FIXMAP names the repairing commit, otherwise listed on
stdout as unmatched (the coordinator decides).
"""
import json
import os
import re
import sys

ROOT = os.path.dirname(os.path.dirname(os.path.abspath(__file__)))
FIXMAP = json.load(open(os.path.join(ROOT, "tools", "fixmap.json")))


def main():
    pid = sys.argv[1]
    logs = sys.argv[2:]
    matched = set()
    for lg in logs:
        for line in open(lg):
            m = re.match(r"KNOWN-FINDING: property=%s (\S+?):" % pid, line)
            if m:
                matched.add(m.group(1))
    kf_path = os.path.join(ROOT, "known_findings.jsonl")
    existing = [json.loads(l) for l in open(kf_path) if l.strip()]
    have = {(e["property"], e["id"]) for e in existing}
    prop_path = os.path.join(ROOT, "findings_proposed", pid + ".jsonl")
    out = []
    for line in open(prop_path):
        if not line.strip():
            continue
        e = json.loads(line)
        key = (e["property"], e["id"])
        if key in have:
            continue
        if e["id"] in matched:
            e["status"] = "open"
            if not e.get("entry", "").startswith("open:"):
                e["entry"] = "open: property=%s %s %s" % (pid, e["id"], e.get("what", ""))
            out.append(e)
            print("OPEN   ", pid, e["id"])
        elif e["id"] in FIXMAP:
            what = e.get("what", "")
            out.append({"entry": "fixed: property=%s %s %s" % (pid, FIXMAP[e["id"]], what), "status": "fixed", "property": pid,
                        "id": e["id"], "commit": FIXMAP[e["id"]], "what": what})
            print("FIXED  ", pid, e["id"], FIXMAP[e["id"]])
        else:
            print("UNMATCHED (not merged)", pid, e["id"])
    with open(kf_path, "a") as f:
        for e in out:
            f.write(json.dumps(e) + "\n")


if __name__ == "__main__":
    main()
