#!/bin/bash
cd "$(dirname "$0")/.."
rm -f /tmp/final_summary.log
for i in $(seq -w 1 20); do id=C$i
  /usr/bin/time -f "%e" -o /tmp/final_$id.time ./check $id --tier quick > /tmp/final_$id.log 2>&1
  echo "$id exit=$? $(cat /tmp/final_$id.time)s viol=$(grep -c '^VIOLATION' /tmp/final_$id.log) known=$(grep -c '^KNOWN-FINDING' /tmp/final_$id.log)" >> /tmp/final_summary.log
done
