#!/bin/bash
# development helper: every thorough tier in sequence (from a `vp run` snapshot); logs to thorough_logs/
# USE_EXTRA=1 also loads findings_proposed/<id>.jsonl (draft findings) through XPMC_FINDINGS_EXTRA
mkdir -p thorough_logs
for i in ${ORDER:-15 16 19 18 13 04 07 20 05 10 11 12 17 02 01 08 09 14 03 06}; do id=C$i
  f=; [ -n "$USE_EXTRA" ] && [ -f findings_proposed/$id.jsonl ] && f=findings_proposed/$id.jsonl
  /usr/bin/time -f "%e" -o thorough_logs/$id.time env XPMC_FINDINGS_EXTRA=$f XPMC_EVIDENCE_DIR=$PWD/thorough_logs/evidence XPMC_NPROC=${XPMC_NPROC:-8} ./check $id --tier thorough > thorough_logs/$id.log 2>&1
  echo "$id exit=$? $(cat thorough_logs/$id.time)s viol=$(grep -c '^VIOLATION' thorough_logs/$id.log) known=$(grep -c '^KNOWN-FINDING' thorough_logs/$id.log)" >> thorough_logs/summary.log
done
