#!/usr/bin/env python3
"""Rows of seeded/SUMMARY.tsv for seeds the final sweep did not reach, from the runs recorded in their meta.json (each run names
the /verif commit it was made with).  Preference: the latest own-property quick run that reported it, else the latest run of a
listed catcher that reported it, else the latest own-property run.  Seventh column: 'sweep' or 'recorded@<verif commit>'."""
import glob
import json
import os
import re

ROOT = os.path.dirname(os.path.dirname(os.path.abspath(__file__)))
path = os.path.join(ROOT, "seeded", "SUMMARY.tsv")
rows = {}
for l in open(path):
    f = l.rstrip("\n").split("\t")
    if len(f) >= 6:
        rows[f[0]] = f[:6] + [f[6] if len(f) > 6 else "sweep"]
for d in sorted(glob.glob(os.path.join(ROOT, "seeded", "S*-C*"))):
    sid = os.path.basename(d)
    if sid in rows:
        continue
    m = json.load(open(os.path.join(d, "meta.json")))
    prop = m["property"]
    best = None
    own_last = None
    for r in m.get("runs", []):
        for chk, v in r["results"].items():
            cl = ""
            for line in v.get("violation_lines", []):
                mm = re.search(r"clause=(\S+)", line)
                if mm:
                    cl = mm.group(1)
                    break
            rec = (chk, r["tier"], v["exit"], cl, r.get("verif_head", "?"))
            if chk == prop and r["tier"] == "quick":
                own_last = rec
            if v["exit"] == 1:
                score = (2 if (chk == prop and r["tier"] == "quick") else 1)
                if best is None or score >= best[0]:
                    best = (score, rec)
    rec = best[1] if best else own_last
    if rec is None:
        continue
    own_exit = own_last[2] if own_last else "-"
    if best and best[0] == 2:
        own_exit = 1
    rows[sid] = [sid, rec[0], rec[1], str(rec[2]), rec[3], str(own_exit), "recorded@" + rec[4]]
with open(path, "w") as f:
    for k in sorted(rows):
        f.write("\t".join(rows[k]) + "\n")
print(len(rows), "rows;", sum(1 for r in rows.values() if r[6] != "sweep"), "from recorded runs")
