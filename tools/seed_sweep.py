#!/usr/bin/env python3
"""Re-run every seeded change (both waves) against the current /verif in worktree mode and write seeded/SUMMARY.tsv.

For each seed the check of its own property runs first (quick tier).  When that does not report it, the checks listed for
the seed in seeded/CATCHERS.json run in order (these are the checks that are *supposed* to see that kind of change: C06 for a
change that only shows after another object was built or another call was made, a thorough tier for one below the quick
tier's resolution or deviation bound).  One row per seed:

  seed <TAB> catching check <TAB> tier <TAB> exit <TAB> clause <TAB> exit of the own-property quick check

  tools/seed_sweep.py [seed-id-glob ...]
"""
import fnmatch
import glob
import json
import os
import re
import subprocess
import sys

ROOT = os.path.dirname(os.path.dirname(os.path.abspath(__file__)))
CATCHERS = json.load(open(os.path.join(ROOT, "seeded", "CATCHERS.json")))


def run(seed_dir, check, tier):
    r = subprocess.run([sys.executable, os.path.join(ROOT, "tools", "seeded.py"), "run", seed_dir, "--checks", check, "--tier", tier,
                        "--nproc", os.environ.get("XPMC_NPROC", "14")], stdout=subprocess.PIPE, stderr=subprocess.STDOUT, text=True)
    line = next((l for l in r.stdout.splitlines() if l.startswith(check + ":")), "")
    m = re.search(r"exit=(\d+)", line)
    c = re.search(r"clause=(\S+)", line)
    return (int(m.group(1)) if m else -1), (c.group(1) if c else "")


def main():
    pats = sys.argv[1:] or ["*"]
    out_path = os.path.join(ROOT, "seeded", "SUMMARY.tsv")
    rows = {}
    if os.path.exists(out_path):
        for l in open(out_path):
            f = l.rstrip("\n").split("\t")
            if len(f) >= 6:
                rows[f[0]] = f
    for d in sorted(glob.glob(os.path.join(ROOT, "seeded", "S*-C*"))):
        sid = os.path.basename(d)
        if not any(fnmatch.fnmatch(sid, p) for p in pats):
            continue
        prop = sid.split("-")[1]
        own, clause = run(d, prop, "quick")
        row = [sid, prop, "quick", str(own), clause, str(own)]
        if own != 1:
            for chk, tier in CATCHERS.get(sid, []):
                ex, cl = run(d, chk, tier)
                row = [sid, chk, tier, str(ex), cl, str(own)]
                if ex == 1:
                    break
        rows[sid] = row
        print("\t".join(row), flush=True)
        with open(out_path, "w") as f:
            for k in sorted(rows):
                f.write("\t".join(rows[k]) + "\n")


if __name__ == "__main__":
    main()
