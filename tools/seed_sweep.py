#!/usr/bin/env python3
"""Re-run every seeded change (both waves) against the current /verif in worktree mode and write seeded/SUMMARY.tsv.

For each seed the check of its own property runs first (quick tier).  When that does not report it, the checks listed for
the seed in seeded/CATCHERS.json run in order (these are the checks that are *supposed* to see that kind of change: C06 for a
change that only shows after another object was built or another call was made, a thorough tier for one below the quick
tier's resolution or deviation bound).  One row per seed:

  seed <TAB> catching check <TAB> tier <TAB> exit <TAB> clause <TAB> exit of the own-property quick check

  tools/seed_sweep.py [-jN] [seed-id-glob ...]      (N seeds at a time; XPMC_NPROC workers each)
"""
import fnmatch
import glob
import json
import os
import re
import subprocess
import sys

ROOT = os.path.dirname(os.path.dirname(os.path.abspath(__file__)))
CATCHERS = json.load(open(os.path.join(ROOT, "seeded", "CATCHERS.json")))


def run(seed_dir, check, tier):
    r = subprocess.run([sys.executable, os.path.join(ROOT, "tools", "seeded.py"), "run", seed_dir, "--checks", check, "--tier", tier,
                        "--nproc", os.environ.get("XPMC_NPROC", "14")], stdout=subprocess.PIPE, stderr=subprocess.STDOUT, text=True)
    line = next((l for l in r.stdout.splitlines() if l.startswith(check + ":")), "")
    m = re.search(r"exit=(\d+)", line)
    c = re.search(r"clause=(\S+)", line)
    return (int(m.group(1)) if m else -1), (c.group(1) if c else "")


def one(d):
    sid = os.path.basename(d)
    prop = sid.split("-")[1]
    own, clause = run(d, prop, "quick")
    row = [sid, prop, "quick", str(own), clause, str(own)]
    if own != 1:
        for chk, tier in CATCHERS.get(sid, []):
            ex, cl = run(d, chk, tier)
            row = [sid, chk, tier, str(ex), cl, str(own)]
            if ex == 1:
                break
    return row


def main():
    pats = [a for a in sys.argv[1:] if not a.startswith("-j")] or ["*"]
    jobs = int(([a[2:] for a in sys.argv[1:] if a.startswith("-j")] or ["1"])[0])
    out_path = os.path.join(ROOT, "seeded", "SUMMARY.tsv")
    rows = {}
    if os.path.exists(out_path):
        for l in open(out_path):
            f = l.rstrip("\n").split("\t")
            if len(f) >= 6:
                rows[f[0]] = f
    import concurrent.futures
    dirs = [d for d in sorted(glob.glob(os.path.join(ROOT, "seeded", "S*-C*")))
            if any(fnmatch.fnmatch(os.path.basename(d), p) for p in pats)]
    with concurrent.futures.ThreadPoolExecutor(max_workers=jobs) as ex:
        for row in ex.map(one, dirs):
            rows[row[0]] = row
            print("\t".join(row), flush=True)
            with open(out_path, "w") as f:
                for k in sorted(rows):
                    f.write("\t".join(rows[k]) + "\n")


if __name__ == "__main__":
    main()
