#!/bin/bash
# re-run every seeded change against its property's check with the current /verif (worktree mode); writes seeded/SUMMARY.tsv
cd /verif
out=seeded/SUMMARY.tsv; : > $out
for d in seeded/S-*; do
  sid=$(basename $d); prop=$(echo $sid | cut -d- -f2)
  tier=quick; case $sid in S-C04-2|S-C12-2) tier=thorough;; esac
  r=$(python3 tools/seeded.py run $d --checks $prop --tier $tier --nproc ${XPMC_NPROC:-14} 2>&1 | grep "^$prop:" | cut -c1-200)
  ex=$(echo "$r" | sed -n 's/.*exit=\([0-9]*\).*/\1/p')
  cl=$(echo "$r" | sed -n 's/.*clause=\([^ ]*\).*/\1/p')
  printf "%s\t%s\t%s\t%s\t%s\n" "$sid" "$prop" "$tier" "$ex" "$cl" >> $out
done
