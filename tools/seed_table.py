#!/usr/bin/env python3
"""Markdown table of all seeded changes from seeded/*/meta.json, seeded/SUMMARY.tsv and seeded/STRENGTHENED.json."""
import glob
import json
import os

ROOT = os.path.dirname(os.path.dirname(os.path.abspath(__file__)))
summ = {}
p = os.path.join(ROOT, "seeded", "SUMMARY.tsv")
if os.path.exists(p):
    for line in open(p):
        f = line.rstrip("\n").split("\t")
        if len(f) >= 5:
            summ[f[0]] = f
notes = json.load(open(os.path.join(ROOT, "seeded", "STRENGTHENED.json")))
print("| seed | needs to manifest | final result | first run | note |")
print("|---|---|---|---|---|")
for d in sorted(glob.glob(os.path.join(ROOT, "seeded", "S*-C*"))):
    m = json.load(open(os.path.join(d, "meta.json")))
    sid = m["id"]
    runs = m.get("runs", [])
    prop = m["property"]
    first = next((r["results"][prop]["exit"] for r in runs if prop in r["results"]), "-")
    s = summ.get(sid)
    final = ("%s %s exit %s (%s)" % (s[1], s[2], s[3], s[4])) if s else "-"
    if s and len(s) >= 6 and s[5] != "1":
        final += " [%s quick: exit %s]" % (prop, s[5])
    others = sorted({c for r in runs for c, v in r["results"].items() if c != prop and v["exit"] == 1})
    if others:
        final += "; also " + ", ".join(others)
    print("| %s | %s | %s | %s | %s |" % (sid, m.get("needs_to_manifest", "")[:150], final, {1: "caught", 0: "missed", 3: "harness fault"}.get(first, first), notes.get(sid, "")))
