#!/usr/bin/env python3
"""Markdown table of all seeded changes from seeded/*/meta.json, seeded/SUMMARY.tsv and seeded/STRENGTHENED.json."""
import glob
import json
import os

ROOT = os.path.dirname(os.path.dirname(os.path.abspath(__file__)))
summ = {}
p = os.path.join(ROOT, "seeded", "SUMMARY.tsv")
if os.path.exists(p):
    for line in open(p):
        f = line.rstrip("\n").split("\t")
        if len(f) >= 5:
            summ[f[0]] = f
notes = json.load(open(os.path.join(ROOT, "seeded", "STRENGTHENED.json")))
print("""# Independently seeded property-breaking changes

Each directory holds `patch.diff` (applies to the /repo HEAD it was written against; `meta.json` names it), `demo.py` (exits 0
on the unchanged tree, non-zero with the patch), `notes.md` (the seeder's own account) and `meta.json` (what the coordinator
confirmed and every run of the checks against the change, with the /verif commit used).  Seeders saw the text of ONE property
and a scratch worktree of /repo; nothing from /verif.  `S-` = wave 1, `S2-` = wave 2, `S3-` = wave 3 (steered towards less
central solvers, two-parameter combinations, special points, object/call interactions, hidden-unit literals), `S4-` = wave 4
(twelve properties; rarely taken branches, numerical-method slips, array handling, sign conventions, wrappers, bookkeeping).

Columns: *final result* = the check that reports the change with the final machinery (`tools/seed_sweep.py`; `recorded@<commit>`
= taken from the run recorded in meta.json with that /verif commit because the final sweep did not reach the seed), in square
brackets the exit code of the seed's own property's quick check when that is not the reporting check; *first run* = outcome
of the own-property quick check the first time it met the change; *note* = what was strengthened after a miss.
`CATCHERS.json` lists, per seed, the sibling checks tried when the own-property check is silent; `STRENGTHENED.json` holds the notes.
""")
print("| seed | needs to manifest | final result | first run | note |")
print("|---|---|---|---|---|")
for d in sorted(glob.glob(os.path.join(ROOT, "seeded", "S*-C*"))):
    m = json.load(open(os.path.join(d, "meta.json")))
    sid = m["id"]
    runs = m.get("runs", [])
    prop = m["property"]
    first = next((r["results"][prop]["exit"] for r in runs if prop in r["results"]), "-")
    s = summ.get(sid)
    final = ("%s %s exit %s (%s)" % (s[1], s[2], s[3], s[4])) if s else "-"
    if s and len(s) >= 6 and s[5] != "1":
        final += " [%s quick: exit %s]" % (prop, s[5])
    if s and len(s) >= 7 and s[6] != "sweep":
        final += " (%s)" % s[6]
    others = sorted({c for r in runs for c, v in r["results"].items() if c != prop and v["exit"] == 1})
    if others:
        final += "; also " + ", ".join(others)
    print("| %s | %s | %s | %s | %s |" % (sid, m.get("needs_to_manifest", "")[:150], final, {1: "caught", 0: "missed", 3: "harness fault"}.get(first, first), notes.get(sid, "")))
