#!/bin/bash
# usage: tools/seedbatch.sh <table file>   (lines: PROP|k|tests|needs)   confirms each seed and runs its property's check
while IFS='|' read -r prop k tests needs; do
  [ -z "$prop" ] && continue
  sid="S-$prop-$k"
  python3 tools/confirm_seed.py /tmp/seed_${prop}_out/$k $sid $prop "$tests" "$needs" 2>&1 | grep -v conda | cut -c1-60
  python3 tools/seeded.py run seeded/$sid --nproc ${XPMC_NPROC:-10} 2>&1 | grep -v conda | cut -c1-260
done < "$1"
