#!/bin/bash
# usage: tools/seedbatch2.sh <table file>   (lines: PROP|k|tests|needs)   wave-4 seeds: /tmp/seed4_<PROP>_out/<k> -> seeded/S4-<PROP>-<k>
while IFS='|' read -r prop k tests needs; do
  [ -z "$prop" ] && continue
  sid="S4-$prop-$k"
  python3 tools/confirm_seed.py /tmp/seed4_${prop}_out/$k $sid $prop "$tests" "$needs" 2>&1 | grep -v conda | cut -c1-60
  python3 tools/seeded.py run seeded/$sid --nproc ${XPMC_NPROC:-12} 2>&1 | grep -v conda | cut -c1-260
done < "$1"
