#!/usr/bin/env python3
"""Run registered checks against a seeded property-breaking change.

  tools/seeded.py run <seed dir> [--checks C03,C06] [--mode repo|worktree] [--tier quick]

mode repo      : git -C /repo apply patch.diff ; run checks ; git -C /repo checkout -- .   (the procedure of the brief;
                 only when nothing else is using /repo)
mode worktree  : scratch worktree under /tmp + PYTHONPATH shadowing of the editable install (safe while other work uses /repo)
Appends the outcome to <seed dir>/meta.json under "runs".
"""
import argparse
import json
import os
import subprocess
import sys
import time

ROOT = os.path.dirname(os.path.dirname(os.path.abspath(__file__)))


def sh(cmd, **kw):
    return subprocess.run(cmd, shell=True, stdout=subprocess.PIPE, stderr=subprocess.STDOUT, text=True, **kw)


def main():
    ap = argparse.ArgumentParser()
    ap.add_argument("cmd", choices=["run"])
    ap.add_argument("seed")
    ap.add_argument("--checks")
    ap.add_argument("--mode", default="worktree", choices=["repo", "worktree"])
    ap.add_argument("--tier", default="quick")
    ap.add_argument("--nproc", default=os.environ.get("XPMC_NPROC", "16"))
    a = ap.parse_args()
    seed = os.path.abspath(a.seed)
    patch = os.path.join(seed, "patch.diff")
    meta_path = os.path.join(seed, "meta.json")
    meta = json.load(open(meta_path)) if os.path.exists(meta_path) else {}
    checks = (a.checks.split(",") if a.checks else [meta.get("property")])
    env = dict(os.environ, XPMC_NPROC=str(a.nproc), XPMC_EVIDENCE_DIR="/tmp/seeded_evidence_%d" % os.getpid())
    wt = None
    if a.mode == "repo":
        st = sh("git -C /repo status --porcelain --untracked-files=no").stdout.strip()
        if st:
            sys.exit("/repo has uncommitted changes; refusing")
        r = sh("git -C /repo apply %s" % patch)
        if r.returncode:
            sys.exit("patch does not apply: " + r.stdout)
    else:
        wt = "/tmp/seedrun_%d" % os.getpid()
        for attempt in range(6):      # concurrent sweeps: git serialises worktree registration with a lock file
            if sh("git -C /repo worktree add --detach %s HEAD" % wt).returncode == 0:
                break
            time.sleep(1.0 + attempt)
        r = sh("git -C %s apply %s" % (wt, patch))
        if r.returncode:
            sh("git -C /repo worktree remove --force %s" % wt)
            sys.exit("patch does not apply: " + r.stdout)
        env["PYTHONPATH"] = wt
    results = {}
    try:
        for c in checks:
            t0 = time.time()
            r = sh("./check %s --tier %s" % (c, a.tier), cwd=ROOT, env=env)
            lines = [l for l in r.stdout.splitlines() if l.startswith("VIOLATION") or l.startswith("  solver=")]
            results[c] = {"exit": r.returncode, "wall_s": round(time.time() - t0, 1), "violation_lines": lines[:8]}
            print("%s: exit=%d (%.0fs) %s" % (c, r.returncode, time.time() - t0, lines[:2]))
    finally:
        if a.mode == "repo":
            sh("git -C /repo checkout -- .")
        else:
            sh("git -C /repo worktree remove --force %s" % wt)
        sh("rm -rf /tmp/seeded_evidence_%d" % os.getpid())
        # evidence files were rewritten by runs against a modified tree: they are not evidence for the real tree
    meta.setdefault("runs", []).append({"mode": a.mode, "tier": a.tier, "repo_head": sh("git -C /repo rev-parse --short HEAD").stdout.strip(),
                                        "verif_head": sh("git -C %s rev-parse --short HEAD" % ROOT).stdout.strip(), "results": results})
    with open(meta_path, "w") as f:
        json.dump(meta, f, indent=1)


if __name__ == "__main__":
    main()
