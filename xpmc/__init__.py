"""xpmc -- bounded exhaustive exploration (explicit-state model checking) of the ExactPack
implementation.  See /verif/DESIGN.md.  Modes: L (deviation-bounded parameter lattices),
H (operation histories with canonical snapshots), G (symmetry-orbit graphs)."""
