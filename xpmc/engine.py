"""Task pool and aggregation for all exploration modes.

A property module `props/Cxx.py` provides

    ID, LEVEL, RULE, ASSUMPTIONS, TECHNIQUE
    tasks(tier, seed)    -> list of JSON-serialisable task dicts (the complete enumeration; no sampling)
    run_task(task)       -> dict(evals=int, nontrivial=[hashable keys], violations=[...], digest=str,
                                 counters={name: int}, sample=obj, states=int, transitions=int)
    postprocess(results, tier) -> optional dict merged into coverage (cross-task invariants)

Every task is deterministic and self-contained, so a violation is replayed by re-running its task in a
fresh interpreter (xpmc.replay).  Workers are forked from a parent that has only imported the package.
"""
import hashlib
import json
import multiprocessing as mp
import os
import signal
import sys
import time
import traceback

import numpy as np

NPROC = int(os.environ.get("XPMC_NPROC", "16"))
TASK_TIMEOUT = float(os.environ.get("XPMC_TASK_TIMEOUT", "900"))


class Digest:
    """Order-sensitive hash of everything a task observed (arrays, floats, strings)."""

    def __init__(self):
        self.h = hashlib.sha1()

    def add(self, *objs):
        for o in objs:
            if isinstance(o, np.ndarray):
                if o.dtype.names:
                    for n in o.dtype.names:
                        self.add(n, np.asarray(o[n]))
                else:
                    self.h.update(str(o.dtype).encode())
                    self.h.update(str(o.shape).encode())
                    self.h.update(np.ascontiguousarray(o).tobytes())
            elif isinstance(o, (float, np.floating)):
                self.h.update(np.float64(o).tobytes())
            elif isinstance(o, (list, tuple)):
                self.h.update(b"[")
                for x in o:
                    self.add(x)
                self.h.update(b"]")
            elif isinstance(o, dict):
                for k in sorted(o, key=str):
                    self.add(str(k), o[k])
            else:
                self.h.update(repr(o).encode())
        return self

    def hex(self):
        return self.h.hexdigest()


def jsonable(o):
    if isinstance(o, dict):
        return {str(k): jsonable(v) for k, v in o.items()}
    if isinstance(o, (list, tuple, set, frozenset)):
        return [jsonable(v) for v in o]
    if isinstance(o, np.ndarray):
        return jsonable(o.tolist())
    if isinstance(o, (np.floating, float)):
        f = float(o)
        if f != f:
            return "nan"
        if f in (float("inf"), float("-inf")):
            return "inf" if f > 0 else "-inf"
        return f
    if isinstance(o, (np.integer,)):
        return int(o)
    if isinstance(o, (np.bool_,)):
        return bool(o)
    if isinstance(o, complex):
        return [o.real, o.imag]
    if o is None or isinstance(o, (int, str, bool)):
        return o
    return repr(o)


def _quiet():
    """Send solver chatter to /dev/null (fd level, so Fortran/C prints vanish too)."""
    devnull = os.open(os.devnull, os.O_WRONLY)
    os.dup2(devnull, 1)
    os.dup2(devnull, 2)
    sys.stdout = open(os.devnull, "w")
    sys.stderr = open(os.devnull, "w")
    np.seterr(all="ignore")


def _worker(modname, conn):
    import importlib
    import warnings
    warnings.filterwarnings("ignore")
    _quiet()
    mod = importlib.import_module(modname)
    while True:
        try:
            msg = conn.recv()
        except EOFError:
            return
        if msg is None:
            return
        idx, task = msg
        t0 = time.time()
        try:
            np.seterr(all="ignore")
            res = mod.run_task(task)
            res.setdefault("evals", 0)
            res.setdefault("nontrivial", [])
            res.setdefault("violations", [])
            res.setdefault("counters", {})
            res["wall"] = time.time() - t0
            conn.send((idx, "ok", res))
        except BaseException:
            conn.send((idx, "error", traceback.format_exc()))


class Pool:
    def __init__(self, modname, nproc=NPROC):
        self.modname = modname
        self.ctx = mp.get_context("fork")
        self.nproc = nproc
        self.workers = []

    def _spawn(self):
        parent, child = self.ctx.Pipe()
        p = self.ctx.Process(target=_worker, args=(self.modname, child), daemon=True)
        p.start()
        child.close()
        return {"proc": p, "conn": parent, "busy": None, "t0": 0.0}

    def map(self, tasks, progress=None, timeout=TASK_TIMEOUT):
        """Run all tasks; returns list of (status, payload) in task order."""
        n = len(tasks)
        results = [None] * n
        self.prefix = {}
        if n == 0:
            return results
        self.workers = [self._spawn() for _ in range(min(self.nproc, n))]
        nxt = 0
        done = 0
        last = time.time()
        while done < n:
            for w in self.workers:
                if w["busy"] is None and nxt < n:
                    w["conn"].send((nxt, tasks[nxt]))
                    w["busy"] = nxt
                    # the tasks this worker process ran before this one: the incidental *history* of the execution
                    self.prefix[nxt] = list(w.setdefault("ran", []))
                    w["ran"].append(nxt)
                    w["t0"] = time.time()
                    nxt += 1
            ready = mp.connection.wait([w["conn"] for w in self.workers if w["busy"] is not None], timeout=1.0)
            for w in self.workers:
                if w["busy"] is None:
                    continue
                if w["conn"] in ready:
                    try:
                        idx, status, payload = w["conn"].recv()
                    except (EOFError, ConnectionResetError):
                        idx, status, payload = w["busy"], "crash", "worker died (exit %s)" % w["proc"].exitcode
                        self._replace(w)
                    results[idx] = (status, payload)
                    w["busy"] = None
                    done += 1
                elif time.time() - w["t0"] > timeout:
                    idx = w["busy"]
                    results[idx] = ("timeout", "task exceeded %.0f s" % timeout)
                    self._replace(w)
                    done += 1
            if progress and time.time() - last > 20:
                last = time.time()
                progress(done, n)
        for w in self.workers:
            try:
                w["conn"].send(None)
            except Exception:
                pass
        for w in self.workers:
            w["proc"].join(timeout=2)
            if w["proc"].is_alive():
                w["proc"].kill()
        self.workers = []
        return results

    def _replace(self, w):
        try:
            os.kill(w["proc"].pid, signal.SIGKILL)
        except Exception:
            pass
        w["proc"].join(timeout=2)
        new = self._spawn()
        new["ran"] = []
        w.update(new)


def vkey(v):
    """Stable identity of a violation inside its task: clause + where."""
    return hashlib.sha1(json.dumps([v.get("clause"), jsonable(v.get("where"))], sort_keys=True).encode()).hexdigest()[:16]


def explore(mod, tier, seed, log=print):
    """Enumerate and run every task of a property module.  Returns an aggregate dict."""
    t0 = time.time()
    tasks = mod.tasks(tier, seed)
    for i, t in enumerate(tasks):
        json.dumps(t)  # tasks must be serialisable (they are the replay artefact)
    log("[%s] tier=%s tasks=%d nproc=%d" % (mod.ID, tier, len(tasks), NPROC))
    if hasattr(mod, "preimport"):
        mod.preimport()
    pool = Pool(mod.__name__)
    timeout = TASK_TIMEOUT if tier == "quick" else max(TASK_TIMEOUT, 7200.0)
    raw = pool.map(tasks, progress=lambda d, n: log("[%s] %d/%d tasks (%.0f s)" % (mod.ID, d, n, time.time() - t0)), timeout=timeout)
    prefix = dict(pool.prefix)
    # determinism self-check: seed-chosen 2 % (at least 3) of the tasks are re-executed in other workers
    import random
    rng = random.Random(seed)
    ok_idx = [i for i, r in enumerate(raw) if r[0] == "ok" and r[1].get("digest")]
    cheap = [i for i in ok_idx if raw[i][1]["wall"] < 30.0]
    k = min(len(cheap), max(3, len(cheap) // 50))
    redo = sorted(rng.sample(cheap, k)) if cheap else []
    raw2 = Pool(mod.__name__).map([tasks[i] for i in redo])
    nondet = []
    for i, r in zip(redo, raw2):
        if r[0] != "ok" or r[1].get("digest") != raw[i][1].get("digest"):
            nondet.append(i)
    agg = {
        "tasks": len(tasks), "evals": 0, "nontrivial": set(), "violations": [], "counters": {},
        "samples": [], "errors": [], "timeouts": 0, "states": 0, "transitions": 0,
        "determinism_replays": len(redo), "nondeterministic_tasks": nondet, "results": [],
    }
    for i, (status, payload) in enumerate(raw):
        if status == "ok":
            r = payload
            agg["evals"] += int(r["evals"])
            for key in r["nontrivial"]:
                agg["nontrivial"].add(key if isinstance(key, (str, int, float, tuple)) else json.dumps(jsonable(key), sort_keys=True))
            for v in r["violations"]:
                v = dict(v)
                v["task_index"] = i
                v["task"] = tasks[i]
                v["prefix_idx"] = list(prefix.get(i, []))
                v["vkey"] = vkey(v)
                agg["violations"].append(v)
            for cname, cval in r["counters"].items():
                agg["counters"][cname] = agg["counters"].get(cname, 0) + cval
            agg["states"] += int(r.get("states", 0))
            agg["transitions"] += int(r.get("transitions", 0))
            if r.get("sample") is not None and len(agg["samples"]) < 6:
                agg["samples"].append(jsonable(r["sample"]))
            agg["results"].append(r)
        elif status == "timeout":
            agg["timeouts"] += 1
            agg["results"].append(None)
        else:
            agg["errors"].append({"task": tasks[i], "status": status, "detail": payload})
            agg["results"].append(None)
    agg["wall"] = time.time() - t0
    agg["task_list"] = tasks
    agg["prefix"] = prefix
    return agg
