"""Evidence writer: /verif/evidence/<id>.json, rewritten on every run from the engine's counters."""
import json
import os
import shutil
import subprocess

from . import engine

ROOT = os.path.dirname(os.path.dirname(os.path.abspath(__file__)))
SCHEMA = "/root/.vp/EVIDENCE.schema.json"
SCHEMA_COPY = os.path.join(ROOT, "xpmc", "EVIDENCE.schema.json")


def write(mod, pid, tier, seed, agg, extra, known, unlisted, confirmed, wall):
    # XPMC_EVIDENCE_DIR (development only): runs against a deliberately modified tree must not overwrite the evidence of
    # the real tree; registered commands never set it
    evdir = os.environ.get("XPMC_EVIDENCE_DIR") or os.path.join(ROOT, "evidence")
    os.makedirs(evdir, exist_ok=True)
    capped = bool(agg["timeouts"] or agg["errors"] or extra.get("capped"))
    cov = {
        "evaluations": int(agg["evals"]),
        "distinct_nontrivial": len(agg["nontrivial"]),
        "rule": mod.RULE,
        "samples": agg["samples"][:6] or [{"note": "no task returned a sample"}],
        "tasks_enumerated": agg["tasks"],
        "exhaustive": not capped,
        "determinism_replays": agg["determinism_replays"],
        "nondeterministic_tasks": len(agg["nondeterministic_tasks"]),
        "timeouts": agg["timeouts"],
        "harness_errors": len(agg["errors"]),
        "counters": {k: agg["counters"][k] for k in sorted(agg["counters"])},
        "violations_known_findings": {k: len(v) for k, v in sorted(known.items())},
        "violations_unlisted": len(unlisted),
        "violations_confirmed_in_fresh_interpreter": confirmed,
        "bound": getattr(mod, "BOUND", {}).get(tier) if isinstance(getattr(mod, "BOUND", None), dict) else None,
        "technique": getattr(mod, "TECHNIQUE", ""),
    }
    if mod.LEVEL == "model_checking" or agg["states"]:
        cov["states"] = int(agg["states"])
        cov["transitions"] = int(agg["transitions"])
        cov["traces_validated_against_impl"] = int(extra.pop("traces_validated_against_impl", agg["determinism_replays"]))
    for k, v in extra.items():
        cov[k] = engine.jsonable(v)
    ev = {
        "property_id": pid,
        "tier": tier,
        "seed": int(seed),
        "level": mod.LEVEL,
        "coverage": cov,
        "assumptions": list(mod.ASSUMPTIONS),
        "wall_s": round(float(wall), 2),
        "violations": len(unlisted),
    }
    path = os.path.join(evdir, pid + ".json")
    tmp = path + ".tmp"
    with open(tmp, "w") as f:
        json.dump(ev, f, indent=1, sort_keys=True)
        f.write("\n")
    os.replace(tmp, path)
    return path


_VALIDATE = r"""
import json, sys, jsonschema
schema = json.load(open(sys.argv[1])); ev = json.load(open(sys.argv[2]))
jsonschema.Draft202012Validator(schema).validate(ev)
"""


def validate(path):
    schema = SCHEMA if os.path.exists(SCHEMA) else SCHEMA_COPY
    vt = shutil.which("python3-vt")
    if not vt or not os.path.exists(schema):
        return True, "validator unavailable (skipped)"
    p = subprocess.run([vt, "-c", _VALIDATE, schema, path], stdout=subprocess.PIPE, stderr=subprocess.STDOUT, text=True)
    if p.returncode != 0:
        return False, p.stdout[-600:]
    return True, "ok"
