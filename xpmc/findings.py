"""Known findings: genuine defects of the pinned tree that were recorded rather than repaired.

/verif/known_findings.jsonl is committed and read-only at run time.  Each line is a JSON object

  {"entry": "open: property=C03 ...", "status": "open", "property": "C03", "id": "...",
   "match": {"solver": "Noh*", "clause": "eos:*", "cfg": {"gamma": {"ne": 1.6666666666666667}},
             "where": {...}, "max_value": 1.0},
   "what": "...", "evidence": "how it was shown against the real code"}

or, for a repaired defect (suppresses nothing):

  {"entry": "fixed: property=C03 <commit> <what failed>", "status": "fixed", ...}

A violation is covered by an open finding only if every predicate in `match` holds for it, so a different
violation of the same property is still reported.
"""
import fnmatch
import json
import math
import os

PATH = os.path.join(os.path.dirname(os.path.dirname(os.path.abspath(__file__))), "known_findings.jsonl")


def load(path=PATH):
    """The committed file; XPMC_FINDINGS_EXTRA (development only, never set by registered commands) may name
    further ':'-separated files of proposed entries so a draft predicate can be tried before it is committed."""
    out = []
    paths = [path] + [p for p in os.environ.get("XPMC_FINDINGS_EXTRA", "").split(":") if p]
    for pth in paths:
        if not os.path.exists(pth):
            continue
        with open(pth) as f:
            for line in f:
                line = line.strip()
                if not line or line.startswith("#"):
                    continue
                out.append(json.loads(line))
    return out


def _num(x):
    if isinstance(x, str):
        try:
            return float(x)
        except ValueError:
            return x
    return x


def _cond(val, cond):
    if not isinstance(cond, dict):
        cond = {"eq": cond}
    val = _num(val)
    for op, ref in cond.items():
        ref = _num(ref)
        if op == "eq":
            ok = _eq(val, ref)
        elif op == "ne":
            ok = not _eq(val, ref)
        elif op == "in":
            ok = any(_eq(val, _num(r)) for r in ref)
        elif op == "nin":
            ok = not any(_eq(val, _num(r)) for r in ref)
        elif op == "glob":
            ok = isinstance(val, str) and fnmatch.fnmatchcase(val, ref)
        elif op == "exists":
            ok = (val is not None) == bool(ref)
        elif val is None or isinstance(val, str) or isinstance(ref, str):
            ok = False
        elif op == "lt":
            ok = val < ref
        elif op == "le":
            ok = val <= ref
        elif op == "gt":
            ok = val > ref
        elif op == "ge":
            ok = val >= ref
        else:
            raise ValueError("unknown predicate operator %r" % op)
        if not ok:
            return False
    return True


def _eq(a, b):
    if isinstance(a, (int, float)) and isinstance(b, (int, float)) and not isinstance(a, bool) and not isinstance(b, bool):
        return math.isclose(a, b, rel_tol=1e-12, abs_tol=0.0) or a == b
    if isinstance(a, (list, tuple)) and isinstance(b, (list, tuple)):
        return len(a) == len(b) and all(_eq(_num(x), _num(y)) for x, y in zip(a, b))
    return a == b


def _pat(val, pats):
    if isinstance(pats, str):
        pats = [pats]
    return any(fnmatch.fnmatchcase(str(val), p) for p in pats)


def matches(finding, v):
    if finding.get("status") != "open":
        return False
    if finding.get("property") != v.get("property"):
        return False
    m = finding.get("match", {})
    if "solver" in m and not _pat(v.get("solver", ""), m["solver"]):
        return False
    if "clause" in m and not _pat(v.get("clause", ""), m["clause"]):
        return False
    for section in ("cfg", "where"):
        for key, cond in m.get(section, {}).items():
            d = v.get(section) or {}
            if not _cond(d.get(key), cond):
                return False
    if "max_value" in m:
        val = v.get("value")
        try:
            if val is None or not (abs(float(val)) <= m["max_value"]):
                return False
        except (TypeError, ValueError):
            return False
    return True


def classify(violations, findings):
    """Split violations into (known: {finding id: [v...]}, unlisted: [v...])."""
    known = {}
    unlisted = []
    for v in violations:
        for f in findings:
            if matches(f, v):
                known.setdefault(f["id"], []).append(v)
                break
        else:
            unlisted.append(v)
    return known, unlisted
