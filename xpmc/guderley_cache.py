"""Memo for Guderley's similarity exponent eexp(n, gamma) (DESIGN.md 7.2).

eexp is a pure function of its two arguments and of the text of guderley/eexp.py (it calls only numpy/scipy and
functions defined in that file) and costs ~3 min per call.  The memo key contains sha256(eexp.py) and the
numpy/scipy versions, so any edit of that file forces recomputation from the working tree: the cache can never
mask a change to the code it stands for.  Entries live in /verif/cache/eexp.json.
"""
import fcntl
import hashlib
import json
import os

ROOT = os.path.dirname(os.path.dirname(os.path.abspath(__file__)))
PATH = os.path.join(ROOT, "cache", "eexp.json")
_INSTALLED = False
STATS = {"hits": 0, "misses": 0}


def _source_key():
    import numpy
    import scipy
    import exactpack.solvers.guderley.eexp as E
    with open(E.__file__, "rb") as f:
        h = hashlib.sha256(f.read()).hexdigest()
    return "%s|numpy%s|scipy%s" % (h, numpy.__version__, scipy.__version__)


def _load():
    if not os.path.exists(PATH):
        return {}
    with open(PATH) as f:
        try:
            return json.load(f)
        except ValueError:
            return {}


def _store(key, val):
    os.makedirs(os.path.dirname(PATH), exist_ok=True)
    lock = PATH + ".lock"
    with open(lock, "w") as lf:
        fcntl.flock(lf, fcntl.LOCK_EX)
        d = _load()
        d[key] = val
        tmp = PATH + ".tmp.%d" % os.getpid()
        with open(tmp, "w") as f:
            json.dump(d, f, indent=1, sort_keys=True)
        os.replace(tmp, PATH)


def key_for(n, gamma):
    return "%s|n=%d|gamma=%r" % (_source_key(), int(n), float(gamma))


def install():
    """Wrap ramsey.eexp (the name the driver calls) with the memo.  Idempotent."""
    global _INSTALLED
    if _INSTALLED:
        return
    import exactpack.solvers.guderley.ramsey as R
    real = R.eexp

    def memo_eexp(n, gamma):
        k = key_for(n, gamma)
        d = _load()
        if k in d:
            STATS["hits"] += 1
            return float(d[k])
        STATS["misses"] += 1
        v = float(real(n, gamma))
        _store(k, v)
        return v
    memo_eexp.__wrapped__ = real
    R.eexp = memo_eexp
    _INSTALLED = True


def uninstall():
    global _INSTALLED
    import exactpack.solvers.guderley.ramsey as R
    if hasattr(R.eexp, "__wrapped__"):
        R.eexp = R.eexp.__wrapped__
    _INSTALLED = False


PAIRS = [(3, 1.4), (2, 1.4), (3, 5.0 / 3.0), (3, 3.0), (2, 3.0)]


def precompute(pairs=PAIRS, nproc=5):
    """Fill missing entries in parallel (used by MANIFEST.setup_cmd)."""
    import multiprocessing as mp
    missing = [p for p in pairs if key_for(*p) not in _load()]
    if not missing:
        return 0
    ctx = mp.get_context("fork")
    with ctx.Pool(min(nproc, len(missing))) as pool:
        pool.map(_compute, missing)
    return len(missing)


def _compute(p):
    import os
    import sys
    sys.stdout = open(os.devnull, "w")
    import exactpack.solvers.guderley.eexp as E
    v = float(E.eexp(p[0], p[1]))
    _store(key_for(*p), v)
    return v


if __name__ == "__main__":
    n = precompute()
    print("eexp cache: computed %d missing entr%s" % (n, "y" if n == 1 else "ies"))
