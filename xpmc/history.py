"""Mode H: explicit-state breadth-first search over operation histories of the real implementation.

Every explored state is a *live process*: the root is forked from a worker that has imported the package and done
nothing else (the zygote); applying operation `op` in state S forks S's process, runs `op` in the fork, and the fork
then *is* the successor state (kept alive while it is on the frontier, so live solver objects, module globals and
C-level state are copied by the kernel rather than re-created).  States are de-duplicated on the canonical snapshot
(xpmc.snapshot) and the search runs to closure or to the depth cap, which is reported.

Reference observations (the same call made first in a fresh interpreter) are computed by `python -m xpmc.history
--ref` in a genuinely spawned interpreter that imports only what the operations need.
"""
import importlib
import json
import os
import shutil
import signal
import subprocess
import sys
import tempfile
import time
from multiprocessing.connection import Client, Listener

from . import snapshot

ROOT = os.path.dirname(os.path.dirname(os.path.abspath(__file__)))


def _state_loop(address, my_id, opsmod, live, parent_cells):
    """Body of a state process.  Never returns."""
    signal.signal(signal.SIGCHLD, signal.SIG_IGN)
    conn = Client(address, family="AF_UNIX")
    conn.send(("hello", my_id, os.getpid()))
    while True:
        try:
            msg = conn.recv()
        except (EOFError, OSError):
            os._exit(0)
        if msg[0] == "exit":
            os._exit(0)
        if msg[0] == "do":
            _, op, new_id = msg
            pid = os.fork()
            if pid != 0:
                continue
            # ---- in the fork: this process becomes state new_id
            try:
                conn.close()
            except Exception:
                pass
            conn = Client(address, family="AF_UNIX")
            my_id = new_id
            t0 = time.time()
            try:
                obs = opsmod.apply_op(live, op)
            except BaseException as e:   # apply_op catches solver exceptions itself; this is a harness error
                import traceback
                obs = {"kind": "harness-exc", "detail": traceback.format_exc()[-1500:]}
            cells = snapshot.cells(live)
            changed = snapshot.diff(parent_cells, cells)
            conn.send(("result", my_id, os.getpid(), obs, snapshot.digest(cells), changed, time.time() - t0))
            parent_cells = cells


class Explorer:
    """Coordinator of one state-space search.  `opsmod` is an imported module providing
    apply_op(live, op) -> JSON-able observation  and  enabled(ops_done, alphabet) -> list of ops."""

    def __init__(self, opsmod):
        self.opsmod = opsmod
        self.dir = tempfile.mkdtemp(prefix="xpmc_h_")
        self.address = os.path.join(self.dir, "s")
        self.listener = Listener(self.address, family="AF_UNIX", backlog=64)
        self.next_id = 0
        self.conns = {}
        self.pids = {}

    def _accept(self):
        c = self.listener.accept()
        msg = c.recv()
        return c, msg

    def start_root(self):
        sid = self.next_id
        self.next_id += 1
        pid = os.fork()
        if pid == 0:
            try:
                self.listener.close()
            except Exception:
                pass
            user_like_warning_state()
            cells = snapshot.cells({})
            # the root reports its own snapshot as a 'result' so the coordinator learns the initial digest
            signal.signal(signal.SIGCHLD, signal.SIG_IGN)
            conn = Client(self.address, family="AF_UNIX")
            conn.send(("result", sid, os.getpid(), {"kind": "root"}, snapshot.digest(cells), [], 0.0))
            # continue as an ordinary state process on the same connection
            self._root_loop(conn, sid, cells)
            os._exit(0)
        c, msg = self._accept()
        assert msg[0] == "result" and msg[1] == sid
        self.conns[sid] = c
        self.pids[sid] = msg[2]
        self._root_pid = pid
        return sid, msg[4], len(snapshot.cells({})) if False else None

    def _root_loop(self, conn, my_id, parent_cells):
        live = {}
        address = self.address
        opsmod = self.opsmod
        while True:
            try:
                msg = conn.recv()
            except (EOFError, OSError):
                os._exit(0)
            if msg[0] == "exit":
                os._exit(0)
            if msg[0] == "do":
                _, op, new_id = msg
                pid = os.fork()
                if pid != 0:
                    continue
                try:
                    conn.close()
                except Exception:
                    pass
                conn = Client(address, family="AF_UNIX")
                t0 = time.time()
                try:
                    obs = opsmod.apply_op(live, op)
                except BaseException:
                    import traceback
                    obs = {"kind": "harness-exc", "detail": traceback.format_exc()[-1500:]}
                cells = snapshot.cells(live)
                changed = snapshot.diff(parent_cells, cells)
                conn.send(("result", new_id, os.getpid(), obs, snapshot.digest(cells), changed, time.time() - t0))
                parent_cells = cells
                my_id = new_id

    def do(self, sid, op):
        """Apply op in state sid.  Returns (new_sid, obs, digest, changed_cells, wall)."""
        nid = self.next_id
        self.next_id += 1
        self.conns[sid].send(("do", op, nid))
        c, msg = self._accept()
        assert msg[0] == "result" and msg[1] == nid, msg[:2]
        self.conns[nid] = c
        self.pids[nid] = msg[2]
        return nid, msg[3], msg[4], msg[5], msg[6]

    def drop(self, sid):
        c = self.conns.pop(sid, None)
        if c is not None:
            try:
                c.send(("exit",))
            except Exception:
                pass
            try:
                c.close()
            except Exception:
                pass
        self.pids.pop(sid, None)

    def close(self):
        for sid in list(self.conns):
            self.drop(sid)
        try:
            self.listener.close()
        except Exception:
            pass
        try:
            os.waitpid(self._root_pid, 0)
        except Exception:
            pass
        shutil.rmtree(self.dir, ignore_errors=True)


def user_like_warning_state():
    """Histories run under the interpreter's DEFAULT warning machinery (numpy errstate 'warn', Python's default filters), as
    a user's script would: a library call that installs an 'error' filter or changes numpy's error state then changes what
    later calls do, which is what C06 must see.  (The engine's workers silence numpy for the lattice checks; output is
    discarded at file-descriptor level either way.)"""
    import warnings
    import numpy as np
    np.seterr(divide="warn", over="warn", under="ignore", invalid="warn")
    warnings.resetwarnings()
    warnings.simplefilter("default")


def bfs(opsmod, alphabet, depth_cap, on_transition, log=None):
    """Breadth-first search to closure (or depth_cap) over histories of `alphabet`.

    on_transition(history_ops, op, obs, changed_cells) is called for every transition (the oracle lives there).
    Returns dict(states, transitions, max_depth, closed, outcomes_per_op, changed_cells, wall).
    """
    ex = Explorer(opsmod)
    t0 = time.time()
    try:
        root, dig0, _ = ex.start_root()
        states = {dig0: {"sid": root, "hist": [], "depth": 0}}
        frontier = [dig0]
        transitions = 0
        max_depth = 0
        capped = False
        outcomes = {}
        changed_all = {}
        while frontier:
            nxt = []
            for dig in frontier:
                st = states[dig]
                if st["depth"] >= depth_cap:
                    capped = True
                    ex.drop(st["sid"])
                    continue
                for op in opsmod.enabled(st["hist"], alphabet):
                    nid, obs, ndig, changed, wall = ex.do(st["sid"], op)
                    transitions += 1
                    on_transition(st["hist"], op, obs, changed)
                    key = json.dumps(op, sort_keys=True)
                    outcomes.setdefault(key, set()).add(json.dumps(obs.get("digest", obs.get("kind")), sort_keys=True))
                    for cpath in changed:
                        changed_all[cpath] = changed_all.get(cpath, 0) + 1
                    if ndig in states:
                        ex.drop(nid)
                    else:
                        states[ndig] = {"sid": nid, "hist": st["hist"] + [op], "depth": st["depth"] + 1}
                        max_depth = max(max_depth, st["depth"] + 1)
                        nxt.append(ndig)
                ex.drop(st["sid"])
            frontier = nxt
        return {"states": len(states), "transitions": transitions, "max_depth": max_depth, "closed": not capped,
                "outcomes_per_op": {k: len(v) for k, v in outcomes.items()}, "changed_cells": changed_all,
                "wall": time.time() - t0,
                "state_histories": [s["hist"] for s in states.values()]}
    finally:
        ex.close()


def run_in_fork(opsmod, ops):
    """Run a whole history in ONE child forked from the (pristine) caller; returns the list of observations and the
    cells changed by each operation.  Used for the cross-family pair histories and the batch checks."""
    r, w = os.pipe()
    pid = os.fork()
    if pid == 0:
        os.close(r)
        out = []
        try:
            live = {}
            user_like_warning_state()
            prev = snapshot.cells(live)
            for op in ops:
                obs = opsmod.apply_op(live, op)
                cur = snapshot.cells(live)
                out.append({"obs": obs, "changed": snapshot.diff(prev, cur), "digest": snapshot.digest(cur)})
                prev = cur
        except BaseException:
            import traceback
            out.append({"obs": {"kind": "harness-exc", "detail": traceback.format_exc()[-1500:]}, "changed": [], "digest": ""})
        with os.fdopen(w, "w") as f:
            json.dump(out, f)
        os._exit(0)
    os.close(w)
    with os.fdopen(r) as f:
        data = f.read()
    os.waitpid(pid, 0)
    return json.loads(data)


def reference(opsmod_name, ops, timeout=1800):
    """Observations of `ops` executed, in order, in a genuinely spawned fresh interpreter."""
    env = dict(os.environ)
    p = subprocess.run([sys.executable, "-u", "-m", "xpmc.history", "--ref", opsmod_name], input=json.dumps(ops),
                       cwd=ROOT, stdout=subprocess.PIPE, stderr=subprocess.PIPE, text=True, timeout=timeout, env=env)
    lines = [l for l in p.stdout.splitlines() if l.startswith("XPMC-REF ")]
    if p.returncode != 0 or not lines:
        raise RuntimeError("reference interpreter failed: rc=%s\n%s\n%s" % (p.returncode, p.stdout[-800:], p.stderr[-1500:]))
    return json.loads(lines[-1][len("XPMC-REF "):])


def _ref_main(argv):
    opsmod = importlib.import_module(argv[0])
    ops = json.loads(sys.stdin.read())
    import contextlib
    import io
    user_like_warning_state()
    live = {}
    out = []
    with contextlib.redirect_stdout(io.StringIO()), contextlib.redirect_stderr(io.StringIO()):
        for op in ops:
            out.append(opsmod.apply_op(live, op))
    print("XPMC-REF " + json.dumps(out))


if __name__ == "__main__":
    sys.path.insert(0, ROOT)
    if len(sys.argv) > 2 and sys.argv[1] == "--ref":
        _ref_main(sys.argv[2:])
