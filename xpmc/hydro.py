"""Catalogue of the hydrodynamic solver families: constructor alphabets (default first, then one value
per shortcut visible in the code / non-unit values that make a wrong power visible), time lattices inside the
validity interval and spatial domains.  No expected output values live here.

Each family is a dict:
  name      short name used in evidence / findings
  path      class path under exactpack.solvers
  alphabet  ordered {param: [default, alt, ...]}  (lattice.DEFAULT = leave to the class default)
  times     f(cfg) -> list of times
  domain    f(cfg, t) -> (a, b) spatial interval on which the solution is defined and the lattice is laid
  eos       tag understood by the property modules ('gamma', 'cog', 'riemann', ...)
  gamma     f(cfg) -> adiabatic index the documentation assigns
  geom      f(cfg) -> geometry 1/2/3
  cost      'cheap' | 'medium' | 'heavy'
"""
import math

G53 = 5.0 / 3.0


def _k(cfg, default=3):
    return cfg.get("geometry", default) - 1


def fam(name, path, alphabet, times, domain, eos, gamma=None, geom=None, cost="cheap", **kw):
    d = dict(name=name, path=path, alphabet=alphabet, times=times, domain=domain, eos=eos,
             gamma=gamma or (lambda cfg: cfg.get("gamma")), geom=geom or (lambda cfg: cfg.get("geometry", 1)), cost=cost)
    d.update(kw)
    return d


FAMILIES = []

# ------------------------------------------------------------------------------ Noh
FAMILIES.append(fam(
    "Noh", "noh.noh1.Noh",
    # u0 = -0.25 is a slow inflow: the pre-shock compression (1 + |u0| t / r_s)^k then matters for admissibility (S2-C17-2)
    {"geometry": [3, 1, 2], "gamma": [G53, 1.4, 1.2, 3.0], "u0": [-1.0, -0.5, -3.0, -0.25], "rho0": [1.0, 0.5, 2.5]},
    times=lambda c: [0.3, 0.6, 1.3],
    domain=lambda c, t: (0.02 * abs(c["u0"]) * t * (c["gamma"] - 1) / 2, 3.0 * abs(c["u0"]) * t * (c["gamma"] - 1) / 2 + 0.5),
    eos="gamma", njumps=1))

# ------------------------------------------------------------------------------ Noh2
for nm, path in (("Noh2", "noh2.noh2.Noh2"), ("Noh2Cog", "noh2.noh2_cog.Noh2Cog")):
    FAMILIES.append(fam(
        nm, path,
        {"geometry": [3, 1, 2], "gamma": [G53, 1.4, 3.0], "rho0": [1.0, 2.5], "e0": [1.0, 0.3]},
        times=lambda c: [0.1, 0.5, 0.9],
        domain=lambda c, t: (0.05, 2.0),
        eos="gamma" if nm == "Noh2" else "cog", njumps=0,
        Gamma=(lambda c: 1.0)))

# ------------------------------------------------------------------------------ Coggeshall
# gamma the documentation assigns to each solution
_cog_gamma_k3 = lambda c: (_k(c) + 3.0) / (_k(c) + 1.0)
_std_t = lambda c: [0.4, 1.1, 2.3]
_std_r = lambda c, t: (0.3, 3.0)
_tau_t = lambda c: [0.2 * c["tau"], 0.5 * c["tau"], 0.8 * c["tau"]]
GAMMAS = [1.4, G53, 1.2, 3.0]
GEO = [3, 1, 2]


def _cog(n, alphabet, times=_std_t, domain=_std_r, gamma=None, geom=None, **kw):
    FAMILIES.append(fam("Cog%d" % n, "cog.cog%d.Cog%d" % (n, n), alphabet, times, domain, "cog",
                        gamma=gamma, geom=geom or (lambda c: c.get("geometry", 3)), **kw))


_cog(1, {"geometry": GEO, "gamma": GAMMAS, "rho0": [1.8, 0.5], "temp0": [1.4, 0.3], "b": [1.2, 0.6, 2.0, 0.0], "Gamma": [40.0, 1.0]})
_cog(2, {"geometry": GEO, "gamma": GAMMAS, "rho0": [1.8, 0.5], "b": [1.2, 0.6, 2.0], "Gamma": [40.0, 1.0]})
_cog(3, {"geometry": GEO, "rho0": [1.8, 0.5], "b": [1.2, 0.6], "v": [0.5, 0.2, 1.5], "Gamma": [40.0, 1.0]},
     gamma=lambda c: (_k(c) - 1.0) / (_k(c) + 1.0))
_cog(4, {"geometry": GEO, "gamma": [1.4, 0.5, 0.7, G53], "rho0": [1.4, 0.5], "u0": [2.3, 0.7], "Gamma": [40.0, 1.0]})
_cog(5, {"rho0": [1.8, 0.5], "u0": [2.3, 0.7], "Gamma": [40.0, 1.0]}, gamma=lambda c: 0.5, geom=lambda c: 3)
_cog(6, {"geometry": GEO, "rho0": [1.8, 0.5], "tau": [1.25, 2.0], "b": [1.2, 0.6, 2.0], "Gamma": [40.0, 1.0]},
     times=_tau_t, gamma=_cog_gamma_k3)
_cog(7, {"geometry": GEO, "tau": [1.25, 2.0], "b": [1.2, 0.6, 0.0], "R0": [2.0, 4.0], "Ri": [0.1, 0.2], "Gamma": [40.0, 1.0]},
     times=_tau_t, gamma=_cog_gamma_k3,
     domain=lambda c, t: (1.05 * c["Ri"] * math.sqrt(c["tau"] ** 2 - t ** 2) / c["tau"],
                          0.98 * c["R0"] * math.sqrt(c["tau"] ** 2 - t ** 2) / c["tau"]))
_cog(8, {"geometry": GEO, "gamma": GAMMAS, "alpha": [2.0, -1.0, -1.5, -2.0], "beta": [1.0, 2.0, 3.0], "rho0": [1.8, 0.5],
         "temp0": [1.4, 0.3], "Gamma": [40.0, 1.0]})
_cog(9, {"geometry": GEO, "gamma": GAMMAS, "alpha": [2.0, -1.0, -1.5, -2.0], "beta": [1.0, 2.0, 3.0], "rho0": [1.8, 0.5],
         "Gamma": [40.0, 1.0]})
_cog(10, {"geometry": [3, 2], "gamma": GAMMAS, "beta": [1.0, 2.0, 3.0], "lambda0": [0.1, 1.0], "rho0": [1.8, 0.5],
          "temp0": [1.4, 0.3], "Gamma": [40.0, 1.0]})
_cog(11, {"geometry": GEO, "gamma": GAMMAS, "beta": [1.0, 2.0, 3.0], "rho0": [1.8, 0.5], "temp0": [1.4, 0.3],
          "Gamma": [40.0, 1.0]})
_cog(12, {"geometry": GEO, "gamma": [1.4, 0.5, 0.7, G53], "beta": [1.0, 2.0, 3.0], "rho0": [1.8, 0.5], "u0": [2.3, 0.7],
          "Gamma": [40.0, 1.0]})
_cog(13, {"geometry": GEO, "gamma": GAMMAS, "rho0": [1.8, 0.5], "alpha": [2.0, -1.0, -1.5, -2.0], "beta": [1.0, 2.0, 3.0],
          "lambda0": [0.1, 1.0], "Gamma": [40.0, 1.0]})
_cog(14, {"geometry": GEO, "gamma": GAMMAS, "rho0": [1.8, 0.5], "alpha": [2.0, -1.0, -1.5, -2.0], "beta": [1.0, 2.0, 3.0],
          "lambda0": [0.1, 1.0], "Gamma": [40.0, 1.0]})
_cog(16, {"geometry": [3, 2], "gamma": GAMMAS, "u0": [2.3, 0.7], "b": [1.2, 0.6, 2.5], "lambda0": [0.1, 1.0], "Gamma": [40.0, 1.0]})
_cog(17, {"geometry": GEO, "gamma": GAMMAS, "alpha": [2.0, -1.0, -1.5, -2.0], "beta": [1.0, 2.0, 3.0], "lambda0": [0.1, 1.0],
          "Gamma": [40.0, 1.0]})
_cog(18, {"geometry": GEO, "alpha": [2.0, -1.0, -1.5, -2.0], "beta": [1.0, 2.0, 3.0], "rho0": [1.8, 0.5], "tau": [1.25, 2.0],
          "Gamma": [40.0, 1.0]}, times=_tau_t, gamma=_cog_gamma_k3)
_cog(19, {"geometry": GEO, "gamma": GAMMAS, "rho0": [1.8, 0.5], "u0": [-2.3, -0.7], "Gamma": [40.0, 1.0]},
     times=lambda c: [0.3, 0.6, 1.3],
     domain=lambda c, t: (0.02 * abs(c["u0"]) * t * (c["gamma"] - 1) / 2, 3.0 * abs(c["u0"]) * t * (c["gamma"] - 1) / 2 + 0.5),
     njumps=1)
_cog(20, {"geometry": GEO, "gamma": GAMMAS, "rho0": [1.8, 0.5], "u0": [2.3, 0.7, -2.3], "a": [0.3, -0.4, 0.1], "Gamma": [40.0, 1.0]},
     times=lambda c: [0.3, 0.6, 1.3], domain=lambda c, t: (0.05, 6.0), njumps=1)
_cog(21, {"rho0": [1.8, 0.5], "temp0": [2.9, 0.7], "Gamma": [400.0, 40.0, 1.0]}, gamma=lambda c: 5.0, geom=lambda c: 3,
     times=lambda c: [0.3, 0.6, 1.3], domain=lambda c, t: (0.05, 6.0), njumps=1)


def by_name(name):
    for f in FAMILIES:
        if f["name"] == name:
            return f
    raise KeyError(name)


# ----------------------------------------------------------------------------------------------
# construction and point lattices
# ----------------------------------------------------------------------------------------------

def make(f, cfg):
    """Construct the family's solver for a full cfg (a family may supply its own builder, e.g. to attach
    an EOS object for black-box Noh)."""
    from .solvers import construct
    if "build" in f:
        return f["build"](cfg)
    return construct(f["path"], {k: v for k, v in cfg.items() if not k.startswith("_")})


def numeric_names(sol, ndim=1):
    return [n for n in sol.dtype.names[ndim:] if sol[n].dtype.kind in "fiu"]


def field_matrix(f, s, t):
    """x-array -> (nfields, npts) matrix of all numeric fields (for jump location)."""
    import numpy as np
    from .solvers import call

    def F(x):
        sol = call(s, np.asarray(x, dtype=float), t)
        return np.array([np.asarray(sol[n], dtype=float) for n in numeric_names(sol)])
    return F


def base_lattice(a, b, n):
    import numpy as np
    if a > 0 and b / a > 20:
        return np.geomspace(a, b, n)
    h = (b - a) / n
    return a + (np.arange(n) + 0.5) * h


def sample_points(f, cfg, t, s, n=24, _want_jumps=False):
    """Deterministic point lattice on the family's domain plus points straddling each discontinuity that
    is located *from the returned fields*.  Returns (points, number of located jumps, solver calls used)."""
    import numpy as np
    from . import oracle
    if "points" in f:
        return f["points"](cfg, t, s)
    a, b = f["domain"](cfg, t)
    pts = list(base_lattice(a, b, n))
    ncall = 0
    jumps = []
    if f.get("njumps", 0) != 0:
        calls = [0]
        F0 = field_matrix(f, s, t)

        def F(x):
            calls[0] += 1
            return F0(x)
        kw = {}
        if "cell" in f:       # class C: stop refining at the internal cell that smears the jump
            kw = {"tol": 2.0 * f["cell"](cfg, t, s) / (b - a), "accept": 0.1}
        jumps = oracle.locate_jumps(F, a, b, n=f.get("scan", 257), geometric=(a > 0 and b / a > 20),
                                    max_jumps=f.get("njumps", 8), **kw)
        ncall = calls[0]
        L = b - a
        if "cell" in f:       # class-C solver: a discontinuity is smeared over one internal cell (documented resolution)
            offs = [m * f["cell"](cfg, t, s) for m in (2.0, 4.0, 8.0)]
        else:
            offs = [d * L for d in (1e-9, 1e-6, 1e-3)]
        for j in jumps:
            for d in offs:
                for x in (j["lo"] - d, j["hi"] + d):
                    if a <= x <= b:
                        pts.append(x)
        if "cell" in f:       # drop lattice points that fall within two cells of a located jump
            w = 2.0 * f["cell"](cfg, t, s)
            pts = [x for x in pts if all(not (j["lo"] - w < x < j["hi"] + w) for j in jumps)]
    pts = np.array(sorted(pts))
    if _want_jumps:
        return pts, jumps, ncall
    return pts, len(jumps), ncall
