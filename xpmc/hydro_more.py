"""Remaining hydrodynamic families (registered into hydro.FAMILIES on import): Sedov, 1D Riemann (ideal-gas and
general-EOS incl. JWL), EHEP, Mader, SDRZ, EP piston, black-box Noh, RMTV, radiative shocks, Guderley.
Alphabets/domains only -- no expected values."""
import math

import numpy as np

from . import hydro
from .hydro import fam, FAMILIES, G53, base_lattice
from .solvers import construct, call, get_class

_REGISTERED = False

# ------------------------------------------------------------------------------ Sedov


def sedov_omega(tag, j, g):
    """Symbolic density exponents -> numbers, chosen on each side of every code-visible branch."""
    ws = (3.0 * j - 2.0 + g * (2.0 - j)) / (g + 1.0)          # singular: v2 == vstar
    w2 = (2.0 * (g - 1.0) + j) / g                             # denom2 == 0
    w3 = j * (2.0 - g)                                         # denom3 == 0
    if isinstance(tag, (int, float)):
        return float(tag)
    return {"0.4j": 0.4 * j, "singular": ws, "vacuum": min(0.5 * (ws + j), ws + 0.3), "standard_hi": 0.8 * ws,
            "omega2+": w2 + 2e-3, "omega3-": w3 - 2e-3}[tag]


def sedov_resolve(cfg):
    c = dict(cfg)
    c["omega"] = sedov_omega(c["omega"], c["geometry"], c["gamma"])
    return c


def sedov_build(cfg):
    c = sedov_resolve(cfg)
    if not (0 <= c["omega"] < c["geometry"]):
        raise hydro_inadmissible("omega tag outside [0, geometry)")
    return construct("sedov.sedov.Sedov", c)


def hydro_inadmissible(msg):
    from .solvers import Inadmissible
    return Inadmissible(msg)


def sedov_shock_radius(s, t):
    """Shock radius read from the fields (largest relative density jump), not from the solver's report."""
    from . import oracle
    # bracket from a coarse scan on a generous window; the window is found by doubling
    rmax = 1.0
    for _ in range(60):
        sol = call(s, np.array([0.5 * rmax, rmax]), t)
        if sol["velocity"][1] == 0.0 and sol["pressure"][1] == 0.0:
            break
        rmax *= 2.0
    return rmax


def sedov_points(cfg, t, s):
    """24 lattice points inside the shock + 6 outside + straddling points; a fixed sentinel maximum keeps the
    solver's internal 3001-point grid identical for every batch of this (cfg, t)."""
    from . import oracle
    rmax = sedov_shock_radius(s, t)           # some radius beyond the shock
    ncall = 8

    def F(x):
        x = np.append(np.asarray(x, float), rmax)
        sol = call(s, x, t)
        return np.array([np.asarray(sol[n], float)[:-1] for n in ("density", "pressure", "velocity")])
    jumps = oracle.locate_jumps(F, 1e-3 * rmax, rmax, n=513, max_jumps=2, tol=1e-9)
    ncall += 40
    shock = max(jumps, key=lambda j: j["x"])["x"] if jumps else 0.5 * rmax
    pts = list(base_lattice(0.0, shock, 24)) + list(base_lattice(shock, 1.3 * shock, 6))
    for j in jumps:
        for d in (2e-3, 1e-2):
            pts += [j["x"] * (1 - d), j["x"] * (1 + d)]
    pts = np.array(sorted(pts + [1.5 * shock]))
    return pts, len(jumps), ncall


# ------------------------------------------------------------------------------ Riemann

RIEMANN_BASE = {"pl": 1.0, "rl": 1.0, "ul": 0.0, "gl": 1.4, "pr": 0.1, "rr": 0.125, "ur": 0.0, "gr": 1.4}

# state lattice built to force every branch of the pattern classifier, with and without a velocity
# difference, plus unequal gammas (C04 re-uses it at K=2).
RIEMANN_ALPHABET = {
    "rl": [1.0, 0.125, 3.0], "pl": [1.0, 0.1, 10.0], "ul": [0.0, 0.3, -0.3, 1.5, -1.5], "gl": [1.4, G53, 2.0],
    "rr": [0.125, 1.0, 3.0], "pr": [0.1, 1.0, 10.0], "ur": [0.0, 0.3, -0.3, 1.5, -1.5], "gr": [1.4, G53, 2.0],
    "xd0": [0.5, 0.3, 0.0],
}

# the tabulated problems of riemann/__init__.py (states only; no expected values)
RIEMANN_TABLE = {
    "sod": dict(rl=1.0, ul=0.0, pl=1.0, gl=1.4, rr=0.125, ur=0.0, pr=0.1, gr=1.4, xd0=0.5, t=0.25),
    "einfeldt": dict(rl=1.0, ul=-2.0, pl=0.4, gl=1.4, rr=1.0, ur=2.0, pr=0.4, gr=1.4, xd0=0.5, t=0.15),
    "stationary_contact": dict(rl=1.0, ul=-19.59745, pl=1000.0, gl=1.4, rr=1.0, ur=-19.59745, pr=0.01, gr=1.4, xd0=0.8, t=0.012),
    "slow_shock": dict(rl=3.857143, ul=-0.810631, pl=10.33333, gl=1.4, rr=1.0, ur=-3.44, pr=1.0, gr=1.4, xd0=0.5, t=1.0),
    "shock_contact_shock": dict(rl=1.0, ul=0.5, pl=1.0, gl=1.4, rr=1.25, ur=-0.5, pr=1.0, gr=1.4, xd0=0.5, t=0.3),
    "leblanc": dict(rl=1.0, ul=0.0, pl=2.0 / 3.0 * 1e-1, gl=G53, rr=1e-2, ur=0.0, pr=2.0 / 3.0 * 1e-10, gr=G53, xd0=0.3, t=0.5),
    "lax": dict(rl=0.445, ul=0.698, pl=3.528, gl=1.4, rr=0.5, ur=0.0, pr=0.571, gr=1.4, xd0=0.5, t=0.15),
    "two_gamma": dict(rl=1.0, ul=0.0, pl=2.0, gl=2.0, rr=0.01, ur=0.0, pr=1.0, gr=1.4, xd0=0.3, t=0.2),
    # three pattern roots that the package's table lacks (states only; added after the seeded change S-C02-2): two states that
    # differ ONLY in velocity -- colliding (shock-contact-shock) and receding (double rarefaction) -- and a moving
    # shock-contact-rarefaction with a velocity difference
    "collision_equal_states": dict(rl=1.0, ul=1.0, pl=1.0, gl=1.4, rr=1.0, ur=-1.0, pr=1.0, gr=1.4, xd0=0.5, t=0.2),
    "recession_equal_states": dict(rl=1.0, ul=-0.5, pl=1.0, gl=1.4, rr=1.0, ur=0.5, pr=1.0, gr=1.4, xd0=0.5, t=0.2),
    "moving_scr": dict(rl=0.125, ul=0.4, pl=0.1, gl=1.4, rr=1.0, ur=0.9, pr=1.0, gr=1.4, xd0=0.5, t=0.2),
    # a double rarefaction that is NOT mirror symmetric (the package's only double rarefaction, Einfeldt, is; seeded change S-C17-1)
    "recession_unequal_states": dict(rl=1.0, ul=-1.0, pl=1.0, gl=1.4, rr=0.5, ur=1.0, pr=1.0, gr=1.4, xd0=0.5, t=0.2),
}
JWL_TABLE = {
    "shyue": dict(rl=1.7, ul=0.0, pl=10.0, gl=1.25, rr=1.0, ur=0.0, pr=0.5, gr=1.25, xmin=0.0, xd0=50.0, xmax=100.0, t=12.0,
                  A=8.545, B=0.205, R1=4.6, R2=1.35, r0=1.84, e0=0.0, problem="JWL"),
    "lee": dict(rl=0.9525, ul=0.0, pl=1.0, gl=1.8938, rr=3.81, ur=0.0, pr=2.0, gr=1.8938, xmin=0.0, xd0=50.0, xmax=100.0, t=20.0,
                A=632.1, B=-0.04472, R1=11.3, R2=1.13, r0=1.905, e0=0.0, problem="JWL"),
}


def _wave_fn(p, pK, rK, gK):
    """Textbook pressure function f_K(p) of the exact Riemann solver (Toro): shock branch for p > p_K, rarefaction otherwise."""
    aK = math.sqrt(gK * pK / rK)
    if p > pK:
        return (p - pK) * math.sqrt((2.0 / ((gK + 1.0) * rK)) / (p + (gK - 1.0) / (gK + 1.0) * pK))
    return 2.0 * aK / (gK - 1.0) * ((p / pK) ** ((gK - 1.0) / (2.0 * gK)) - 1.0)


def _boundary_problems():
    """States that straddle each boundary of the wave-pattern classification: the velocity difference at which the star
    pressure equals p_left (the left wave switches between rarefaction and shock) or p_right (the right wave switches),
    computed from the textbook wave functions, +- 5 % of the sound-speed scale -- 'one input on each side of every
    code-visible branch', for equal and unequal gammas (added after the seeded change S2-C07-1, a classification threshold
    that used the wrong side's gamma: the fixed velocity lattice {0, +-0.3, +-1.5} never came near the boundary)."""
    out = {}
    for (pr, rr) in ((0.1, 0.125), (0.1, 1.0)):
        for (gl, gr) in ((1.4, 1.4), (1.4, G53), (2.0, 1.4), (3.0, 1.2)):
            for ul in (0.0, 0.4):
                pl, rl = 1.0, 1.0
                al, ar = math.sqrt(gl * pl / rl), math.sqrt(gr * pr / rr)
                bnds = {"pstar=pl": -_wave_fn(pl, pr, rr, gr), "pstar=pr": -_wave_fn(pr, pl, rl, gl)}
                for bname, du in bnds.items():
                    for side, eps in (("below", -0.05), ("above", 0.05)):
                        nm = "bnd|%s|%s|pr%g|rr%g|gl%.3g|gr%.3g|ul%g" % (bname, side, pr, rr, gl, gr, ul)
                        out[nm] = dict(rl=rl, ul=ul, pl=pl, gl=gl, rr=rr, ur=ul + du + eps * (al + ar), pr=pr, gr=gr, xd0=0.5, t=0.1)
    return out


BND_TABLE = _boundary_problems()


def riemann_mirror(c):
    """Mirror image of a Riemann problem about the window centre (used for alphabets and by C09)."""
    m = dict(c)
    xmin, xmax = c.get("xmin", 0.0), c.get("xmax", 1.0)
    m.update(rl=c["rr"], pl=c["pr"], ul=-c["ur"], gl=c["gr"], rr=c["rl"], pr=c["pl"], ur=-c["ul"], gr=c["gl"],
             xd0=xmin + xmax - c["xd0"])
    return m


def riemann_window(c, t):
    """A window that certainly contains all waves: the fastest possible signal is |u| + 3 c_max + strong-shock bound."""
    cl = math.sqrt(c["gl"] * c["pl"] / c["rl"])
    cr = math.sqrt(c["gr"] * c["pr"] / c["rr"])
    pm = max(c["pl"], c["pr"])
    rm = min(c["rl"], c["rr"])
    vmax = max(abs(c["ul"]), abs(c["ur"])) + 2.0 * max(cl, cr) / (min(c["gl"], c["gr"]) - 1.0) + math.sqrt(8.0 * pm / rm)
    return c["xd0"] - vmax * t, c["xd0"] + vmax * t


def _riemann_cfg(cfg):
    c = dict(RIEMANN_BASE)
    c.update({k: v for k, v in cfg.items() if not k.startswith("_")})
    prob = c.pop("problem_name", None)
    if prob:
        tab = dict(RIEMANN_TABLE.get(prob) or BND_TABLE.get(prob) or JWL_TABLE[prob])
        tab.pop("t")
        c.update(tab)
    if c.pop("mirror", False):
        c = riemann_mirror(c)
    return c


def riemann_build(path, extra):
    def build(cfg):
        c = _riemann_cfg(cfg)
        c.update(extra)
        return construct(path, c)
    return build


def riemann_times(cfg):
    prob = cfg.get("problem_name")
    if prob:
        t = (RIEMANN_TABLE.get(prob) or BND_TABLE.get(prob) or JWL_TABLE[prob])["t"]
        return [0.5 * t, t]
    return [0.05, 0.2]


def riemann_domain(cfg, t):
    c = _riemann_cfg(cfg)
    if c.get("problem") == "JWL":
        return c["xmin"] + 1.0, c["xmax"] - 1.0
    a, b = riemann_window(c, t)
    return a, b


def riemann_gamma_sides(cfg):
    c = _riemann_cfg(cfg)
    return c["gl"], c["gr"]


# ------------------------------------------------------------------------------ black-box Noh

def eos_object(tag):
    from exactpack.solvers.nohblackboxeos.equations_of_state import eos_library as E
    kind = tag[0]
    if kind == "ideal":
        return E.ideal_gas_eos(gamma=tag[1])
    if kind == "stiff":
        return E.stiffened_gas_eos(gamma=tag[1], c_s=tag[2], rho_inf=tag[3])
    if kind == "noble_abel":
        return E.noble_abel_eos(gamma=tag[1], b=tag[2])
    if kind == "carnahan":
        return E.carnahan_starling_eos(gamma=tag[1], b=tag[2])
    if kind == "aluminum":
        return E.aluminum_eos()
    raise KeyError(tag)


BBNOH_EOS = [["ideal", G53], ["ideal", 1.4], ["stiff", G53, math.sqrt(G53), 1.0], ["noble_abel", G53, 0.01],
             ["noble_abel", 1.4, 0.1], ["carnahan", G53, 0.01], ["aluminum"]]
# physically reasonable starting guesses [rho, e or P, D]: the shipped example's, and two near the strong-shock
# ideal-gas values; the class default [1.5, .5, .5] is explored too (see DESIGN.md C06/C16)
BBNOH_GUESS = [[5.0, 1.0, 1.0], "default", [3.0, 0.5, 0.4], [8.0, 0.7, 0.3]]


def bbnoh_build(cfg):
    cls = {1: "PlanarNohBlackBox", 2: "CylindricalNohBlackBox", 3: "SphericalNohBlackBox"}[cfg["geometry"]]
    c = get_class("nohblackboxeos.blackboxnoh." + cls)
    eos = eos_object(cfg["eos"])
    ic = {"density": cfg.get("density", 1), "velocity": cfg.get("velocity", -1), "pressure": cfg.get("pressure", 0)}
    import contextlib
    import io
    with contextlib.redirect_stdout(io.StringIO()):
        try:
            if (ic["density"], ic["velocity"], ic["pressure"]) == (1, -1, 0) and cfg.get("decoys", True):
                # the standard Noh state is the wrappers' DEFAULT argument: use it as such, and construct the wrappers of the
                # two other geometries (also with their defaults) before the solver under test is first evaluated -- the jump
                # solve must still be for THIS wrapper's geometry (seeded changes S-C06-1 / S-C16-3 / S-C02-3: one dict shared
                # by the three default arguments)
                s = c(eos)
                for other in ("PlanarNohBlackBox", "CylindricalNohBlackBox", "SphericalNohBlackBox"):
                    if other != cls:
                        get_class("nohblackboxeos.blackboxnoh." + other)(eos_object(cfg["eos"]))
            else:
                s = c(eos, ic)
        except ValueError as e:
            raise hydro_inadmissible(str(e))
        if cfg.get("guess", "default") != "default":
            s.set_new_solver_initial_guess(list(cfg["guess"]))
    s._xp_eos = eos
    return s


# ------------------------------------------------------------------------------ registration

def _register():
    global _REGISTERED
    if _REGISTERED:
        return
    _REGISTERED = True
    FAMILIES.append(fam(
        "Sedov", "sedov.sedov.Sedov",
        {"geometry": [3, 1, 2], "gamma": [1.4, 1.2, G53, 3.0], "rho0": [1.0, 2.5], "eblast": [0.851072, 3.0],
         "omega": [0.0, "0.4j", "singular", "vacuum", "standard_hi", "omega3-", "omega2+"]},
        times=lambda c: [0.3, 1.0, 2.2], domain=None, eos="gamma", build=sedov_build, points=sedov_points,
        resolve=sedov_resolve, cost="medium", tol=1e-9, njumps=2))
    for nm, path, extra, cost in (
            ("IGEOS", "riemann.ep_riemann.IGEOS_Solver", {}, "cheap"),
            ("GenEOS", "riemann.ep_riemann.GenEOS_Solver", {"num_int_pts": 501, "num_x_pts": 2001}, "medium")):
        alpha = dict(RIEMANN_ALPHABET)
        FAMILIES.append(fam(
            nm, path, alpha, times=riemann_times, domain=riemann_domain, eos="riemann", build=riemann_build(path, extra),
            cost=cost, njumps=6, scan=1025, gamma=lambda c: None, **({"cell": geneos_cell, "tol": 3e-3} if nm == "GenEOS" else {})))
        probs = [None] + list(RIEMANN_TABLE) + (list(JWL_TABLE) if nm == "GenEOS" else [])
        FAMILIES.append(fam(
            nm + "_table", path, {"problem_name": probs[1:], "mirror": [False, True]},
            times=riemann_times, domain=riemann_domain, eos="riemann", build=riemann_build(path, extra),
            cost=cost, njumps=6, scan=1025, gamma=lambda c: None, maxK=2, quickK=2,
            **({"cell": geneos_cell, "tol": 3e-3} if nm == "GenEOS" else {})))
    # ideal-gas solver only (4 ms per call): the states that straddle the pattern-classification boundaries
    _p = "riemann.ep_riemann.IGEOS_Solver"
    FAMILIES.append(fam(
        "IGEOS_bnd", _p, {"problem_name": list(BND_TABLE), "mirror": [False, True]},
        times=riemann_times, domain=riemann_domain, eos="riemann", build=riemann_build(_p, {}),
        cost="cheap", njumps=6, scan=1025, gamma=lambda c: None, maxK=2, quickK=2))
    FAMILIES.append(fam(
        "EHEP", "ehep.ehep.EscapeOfHEProducts",
        {"D": [0.85, 0.6], "rho_0": [1.6, 2.0], "up": [0.05, 0.0, 0.12], "xtilde": [1.0, 2.5], "gamma": [3.0]},
        times=lambda c: [0.5 * c["xtilde"] / c["D"], 1.5 * c["xtilde"] / c["D"], 2.6 * c["xtilde"] / c["D"], 5.0 * c["xtilde"] / c["D"]],
        domain=lambda c, t: (c["up"] * t + 1e-6, min(9.9, 1.2 * max(c["xtilde"], (2 * c["up"] + c["D"] / 2) * t))),
        eos="gamma", njumps=3, gamma=lambda c: 3.0))
    FAMILIES.append(fam(
        "Mader", "mader.timmes.Mader",
        {"p_cj": [3.0e11, 1.0e11], "d_cj": [8.0e5, 5.0e5], "gamma": [3.0, 2.0, 2.5, 3.5], "u_piston": [0.0, 2.0e4, 5.0e4, -2.0e4]},
        # the last, very early time makes small positive time NUMBERS reachable under a change of the time unit (seeded
        # change S2-C08-2: an absolute tolerance in the t = 0 guard)
        times=lambda c: [2.0e-6, 4.0e-6, 6.25e-6, 5.0e-8],
        domain=lambda c, t: (0.0, c["d_cj"] * t), eos="mader", njumps=0, tol=1e-4, quickK=2, maxK=2,      # gamma != 3 AND u_piston != 0 (S3-C03-3)
        points=lambda c, t, s: (np.linspace(0.0, c["d_cj"] * t, 401)[:-1] + 0.5 * c["d_cj"] * t / 400, 0, 0)))
    FAMILIES.append(fam(
        "SDRZ", "sdrz.sdrz.SteadyDetonationReactionZone",
        {"D": [0.85, 0.6], "rho_0": [1.6, 2.0], "gamma": [3.0, 2.0]},
        times=lambda c: [0.3, 1.0, 2.0], domain=lambda c, t: (0.02 * c["D"] * t, 0.999 * c["D"] * t),
        eos="sdrz", njumps=0, tol=1e-3))
    FAMILIES.append(fam(
        "EPpiston", "ep_piston.ep_piston.EPpiston",
        {"model": ["hyperIfin", "hypo", "hyperFin"], "up": [0.01, 0.005, 0.03], "Y": [0.0026, 0.0052], "G": [0.286, 0.5],
         "rho0": [2.79, 8.9], "c0": [0.533, 0.4], "s0": [1.34, 1.5], "gamma": [2.0, 1.5]},
        times=lambda c: [0.5, 1.0], domain=lambda c, t: (0.0, 1.0), eos="mie_gruneisen", njumps=2,
        points=lambda c, t, s: (np.sort(np.append(base_lattice(0.0, 1.05 * s.wv_el * t, 24), [2.0 * s.wv_el * t + 1.0])), 0, 0)))
    FAMILIES.append(fam(
        "BBNoh", "nohblackboxeos.blackboxnoh.NohBlackBoxEos",
        {"geometry": [3, 1, 2], "eos": BBNOH_EOS, "guess": BBNOH_GUESS},
        times=lambda c: [0.3, 0.6], domain=lambda c, t: (0.01 * t, 1.5 * t), eos="object", build=bbnoh_build, njumps=1,
        maxK=3, tol=1e-9))
    FAMILIES.append(fam(
        "RMTV", "rmtv.rmtv.Rmtv",
        {"bigamma": [1.0, 3.0], "chi0": [1.0, 2.0], "rf": [0.9, 2.0], "g0": [1.0, 0.5]},
        times=lambda c: [1.0], domain=lambda c, t: (0.02 * c["rf"], 1.15 * c["rf"]), eos="rmtv", njumps=2, cost="medium",
        gamma=lambda c: 1.25, tol=1e-9))
    rs_alpha = {"M0": [1.2, 1.05, 2.0, 3.0, 5.0], "gamma": [G53, 1.4], "Cv": [1.4472799784454e12, 2.8945599568908e12],
                "Tref": [100.0, 50.0], "rho0": [1.0, 3.0], "sigA": [577.35, 1732.05], "sigS": [0.0, 230.94],
                "expDensity_abs": [0.0, 1.0], "expTemp_abs": [0.0, -3.5]}
    FAMILIES.append(fam("ED_Solver", "radshocks.nED_radshocks.ED_Solver", dict(rs_alpha),
                        times=lambda c: [0.0, 1e-9, 3e-9], domain=None, eos="radshock", cost="medium", tol=2e-2,
                        points=radshock_points, njumps=1))
    nalpha = dict(rs_alpha)
    nalpha["problem"] = ["nED", "LM_nED", "FLD_LP", "FLD_1", "FLD_2"]
    FAMILIES.append(fam("nED_Solver", "radshocks.nED_radshocks.nED_Solver", nalpha,
                        times=lambda c: [0.0, 1e-9, 3e-9], domain=None, eos="radshock", cost="medium", tol=2e-2,
                        points=radshock_points, njumps=1))
    FAMILIES.append(fam("ie_Solver", "radshocks.nED_radshocks.ie_Solver",
                        {"M0": [1.4, 1.2, 2.0], "gamma": [G53, 1.4], "Tref": [100.0, 50.0], "rho0": [1.0, 3.0]},
                        times=lambda c: [0.0, 1e-9], domain=None, eos="radshock", cost="medium", tol=2e-2,
                        points=radshock_points, njumps=1))
    FAMILIES.append(fam("Guderley", "guderley.guderley.Guderley",
                        {"_pair": [[3, 1.4], [2, 1.4], [3, G53], [3, 3.0], [2, 3.0]], "rho0": [1.0, 2.5]},
                        times=lambda c: [0.3, 0.6, 0.9, 1.2], domain=lambda c, t: (0.05, 2.0), eos="gamma", cost="heavy",
                        build=guderley_build, gamma=lambda c: c["_pair"][1], geom=lambda c: c["_pair"][0], njumps=1,
                        tol=1e-9, maxK=2, quickK=1, scan=129))


def geneos_cell(cfg, t, s):
    """Internal grid cell of the general-EOS solver: (padded window) / num_x_pts; read from the public attribute x."""
    if not hasattr(s, "x"):       # the grid exists only after a call
        call(s, np.array([cfg.get("xd0", 0.5)]), t)
    x = np.asarray(s.x, float)
    return float(np.max(np.diff(x)))


def guderley_build(cfg):
    from . import guderley_cache
    guderley_cache.install()
    g, gam = cfg["_pair"]
    return construct("guderley.guderley.Guderley", {"geometry": g, "gamma": gam, "rho0": cfg["rho0"]})


def radshock_points(cfg, t, s):
    """Profile lattice in the moving frame: 40 points across the internal profile's extent (public attribute x)."""
    x = -np.flip(np.asarray(s.x, float))
    c0 = math.sqrt(cfg["gamma"] * (cfg["gamma"] - 1.0) * cfg["Cv"] * cfg["Tref"]) if "Cv" in cfg else None
    # the profile is dense near the shock; take every k-th internal abscissa mid-point so that lattice points fall
    # between the solver's own nodes (this exercises the interpolation, not just the nodes)
    mids = 0.5 * (x[1:] + x[:-1])
    idx = np.unique(np.linspace(0, len(mids) - 1, 48).astype(int))
    shift = s.sound * s.M0 * t          # the solver's own displacement: EOS relations are frame independent
    return mids[idx] + shift, 0, 0


_register()
