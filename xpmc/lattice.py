"""Deviation-bounded enumeration of parameter vectors (mode L).

An *alphabet* is an ordered mapping  parameter -> [default, alt1, alt2, ...].  The default vector
is the execution with no deviation; each non-default value is one deviation.  `vectors(alphabet, K)`
yields, simplest first, every vector with at most K deviations, as a dict holding only the deviating
parameters.  `count(alphabet, K)` is the closed-form size of that set; callers assert equality so that a
silently truncated loop can never be called exhaustive.
"""
import itertools
import math


def vectors(alphabet, K):
    names = list(alphabet)
    K = min(K, len(names))
    for k in range(K + 1):
        for subset in itertools.combinations(names, k):
            alts = [alphabet[n][1:] for n in subset]
            for combo in itertools.product(*alts):
                yield dict(zip(subset, combo))


def count(alphabet, K):
    names = list(alphabet)
    K = min(K, len(names))
    n_alt = [len(alphabet[n]) - 1 for n in names]
    total = 0
    for k in range(K + 1):
        for subset in itertools.combinations(range(len(names)), k):
            total += math.prod(n_alt[i] for i in subset)
    return total


def enumerate_checked(alphabet, K):
    out = list(vectors(alphabet, K))
    exp = count(alphabet, K)
    if len(out) != exp:
        raise RuntimeError("lattice enumeration truncated: %d != %d" % (len(out), exp))
    return out


def full_cfg(alphabet, dev, drop_default=True):
    """Constructor kwargs for a deviation dict.  Parameters whose default is the sentinel DEFAULT are
    left to the class default unless deviated."""
    cfg = {}
    for n, vals in alphabet.items():
        v = dev.get(n, vals[0])
        if v is DEFAULT:
            continue
        cfg[n] = v
    return cfg


class _Default:
    def __repr__(self):
        return "DEFAULT"


DEFAULT = _Default()


def geomspace(a, b, n):
    if n == 1:
        return [math.sqrt(a * b)]
    r = (b / a) ** (1.0 / (n - 1))
    return [a * r ** i for i in range(n)]


def linspace_open(a, b, n):
    """n points strictly inside (a, b), uniformly spaced (cell centres)."""
    h = (b - a) / n
    return [a + (i + 0.5) * h for i in range(n)]
