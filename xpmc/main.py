"""./check <ID> [--tier quick|thorough] [--replay FILE]"""
import argparse
import hashlib
import importlib
import json
import os
import subprocess
import sys
import time

from . import engine, findings

ROOT = os.path.dirname(os.path.dirname(os.path.abspath(__file__)))
MAX_CONFIRM = 6       # unlisted violation groups re-executed in a fresh interpreter before being reported
MAX_REPLAY_FILES = 40


def log(*a):
    print(*a, flush=True)


def write_replay(pid, v, with_prefix=False, tasks=None):
    d = os.path.join(ROOT, "replays", pid)
    os.makedirs(d, exist_ok=True)
    case = {
        "prefix_tasks": [tasks[j] for j in (v.get("prefix_idx") or [])] if (with_prefix and tasks) else [],
        "property": pid, "solver": v.get("solver"), "cfg": engine.jsonable(v.get("cfg")),
        "clause": v.get("clause"), "where": engine.jsonable(v.get("where")),
        "value": engine.jsonable(v.get("value")), "tol": engine.jsonable(v.get("tol")),
        "detail": engine.jsonable(v.get("detail")), "vkey": v["vkey"], "task": v["task"],
    }
    h = hashlib.sha1(json.dumps([case["task"], case["vkey"], len(case["prefix_tasks"])], sort_keys=True).encode()).hexdigest()[:12]
    path = os.path.join(d, h + ".json")
    with open(path, "w") as f:
        json.dump(case, f, indent=1, sort_keys=True)
    return path


def fresh_digest(pid, task):
    """Observation digest of one task executed alone in a fresh interpreter (None on failure)."""
    code = ("import sys, json; sys.path.insert(0, %r); import importlib, numpy as np; np.seterr(all='ignore'); "
            "m = importlib.import_module('props.%s'); "
            "getattr(m, 'preimport', lambda: None)(); "
            "r = m.run_task(json.loads(sys.stdin.read())); print('XPMC-DIGEST ' + str(r.get('digest')))" % (ROOT, pid))
    try:
        p = subprocess.run([sys.executable, "-c", code], input=json.dumps(task), cwd=ROOT, stdout=subprocess.PIPE,
                           stderr=subprocess.DEVNULL, text=True, timeout=3600)
    except Exception:
        return None
    for line in p.stdout.splitlines():
        if line.startswith("XPMC-DIGEST "):
            return line.split(" ", 1)[1]
    return None


def fresh_replay(path):
    """Re-execute one recorded case alone in a fresh interpreter.  Returns 1 (reproduced), 0 (not), 3."""
    p = subprocess.run([sys.executable, "-u", "-m", "xpmc.replay", path], cwd=ROOT,
                       stdout=subprocess.PIPE, stderr=subprocess.STDOUT, text=True, timeout=3600)
    return p.returncode, p.stdout


def main(argv=None):
    ap = argparse.ArgumentParser()
    ap.add_argument("id")
    ap.add_argument("--tier", default=os.environ.get("VERIF_TIER", "quick"), choices=["quick", "thorough"])
    ap.add_argument("--replay")
    ap.add_argument("--list-tasks", action="store_true")
    a = ap.parse_args(argv)
    pid = a.id.upper()
    sys.path.insert(0, ROOT)
    if a.replay:
        from . import replay
        return replay.main([a.replay])
    seed = int(os.environ.get("VERIF_SEED", "0") or 0)
    mod = importlib.import_module("props." + pid)
    if a.list_tasks:
        for t in mod.tasks(a.tier, seed):
            print(json.dumps(t))
        return 0
    t0 = time.time()
    agg = engine.explore(mod, a.tier, seed, log=log)
    agg_tasks = agg["task_list"]
    extra = {}
    if hasattr(mod, "postprocess"):
        extra = mod.postprocess(agg, a.tier) or {}
        for v in extra.pop("violations", []):
            v.setdefault("task_index", -1)
            v.setdefault("task", v.get("task"))
            v["vkey"] = engine.vkey(v)
            agg["violations"].append(v)
    for v in agg["violations"]:
        v["property"] = pid
    fl = findings.load()
    known, unlisted = findings.classify(agg["violations"], fl)
    status = 0
    harness_fault = []
    if agg["errors"]:
        harness_fault.append("%d task(s) raised inside the harness" % len(agg["errors"]))
        for e in agg["errors"][:3]:
            log("HARNESS-ERROR task=%s\n%s" % (json.dumps(e["task"])[:300], e["detail"][-1500:]))
    if agg["nondeterministic_tasks"]:
        # a task that observes different values when re-executed in another worker is either harness nondeterminism or an
        # implementation whose output depends on what ran before it in the process (C06's business).  Decide: run it alone in
        # two fresh interpreters; identical observations there mean the difference came from the history.
        hist_dep, truly = [], []
        for i in agg["nondeterministic_tasks"][:4]:
            d1, d2 = fresh_digest(pid, agg_tasks[i]), fresh_digest(pid, agg_tasks[i])
            (hist_dep if (d1 is not None and d1 == d2) else truly).append(i)
        if hist_dep:
            log("HISTORY-DEPENDENCE-OBSERVED: %d task(s) observe different values depending on the tasks executed before them in the "
                "same process (deterministic when run alone); value dependence on history is property C06; e.g. task %s" % (
                    len(hist_dep), json.dumps(agg_tasks[hist_dep[0]])[:200]))
            extra_hist = len(hist_dep)
        if truly:
            harness_fault.append("%d task(s) gave different observations when re-executed alone" % len(truly))
    for fid, vs in sorted(known.items()):
        f = [x for x in fl if x["id"] == fid][0]
        log("KNOWN-FINDING: property=%s %s: %s (%d case(s) this run)" % (pid, fid, f.get("what", ""), len(vs)))
    # group unlisted violations, simplest (earliest task) first; confirm one per group in a fresh interpreter
    groups = {}
    for v in sorted(unlisted, key=lambda v: (v["task_index"], v["vkey"])):
        groups.setdefault((v.get("solver"), v.get("clause")), []).append(v)
    confirmed = 0
    nfiles = 0
    replay_paths = []
    for gi, (gk, vs) in enumerate(sorted(groups.items(), key=lambda kv: kv[1][0]["task_index"])):
        v = vs[0]
        if nfiles >= MAX_REPLAY_FILES:
            break
        path = write_replay(pid, v)
        nfiles += 1
        replay_paths.append(path)
        if gi < MAX_CONFIRM and v["task_index"] >= 0:
            rc, out = fresh_replay(path)
            if rc == 1:
                confirmed += 1
            elif rc == 0:
                # not reproducible alone: is it reproducible after the tasks its worker had run before (a history)?
                path2 = write_replay(pid, v, with_prefix=True, tasks=agg_tasks) if v.get("prefix_idx") else None
                rc2, out2 = fresh_replay(path2) if path2 else (0, "")
                if rc2 == 1:
                    confirmed += 1
                    path = path2
                    log("HISTORY-DEPENDENT: the violation below does not occur when its task runs alone in a fresh interpreter but "
                        "reproduces after the %d task(s) its worker had executed before (recorded in the replay file)" % len(v["prefix_idx"]))
                else:
                    harness_fault.append("candidate did not reproduce in a fresh interpreter: %s" % path)
                    log("HARNESS-NONDETERMINISM %s\n%s" % (path, out[-800:]))
                    continue
            else:
                harness_fault.append("replay harness failed on %s" % path)
                log(out[-1500:])
                continue
        log("VIOLATION property=%s replay=%s" % (pid, path))
        log("  solver=%s clause=%s cases=%d value=%s tol=%s cfg=%s where=%s" % (
            v.get("solver"), v.get("clause"), len(vs), engine.jsonable(v.get("value")), engine.jsonable(v.get("tol")),
            json.dumps(engine.jsonable(v.get("cfg")))[:300], json.dumps(engine.jsonable(v.get("where")))[:300]))
        status = 1
    from . import evidence
    evpath = evidence.write(mod, pid, a.tier, seed, agg, extra, known, unlisted, confirmed, time.time() - t0)
    ok, msg = evidence.validate(evpath)
    if not ok:
        harness_fault.append("evidence file does not validate: %s" % msg)
    log("[%s] tier=%s tasks=%d evaluations=%d distinct_nontrivial=%d states=%d transitions=%d "
        "violations=%d (known=%d unlisted=%d groups=%d) determinism_replays=%d timeouts=%d wall=%.1fs" % (
            pid, a.tier, agg["tasks"], agg["evals"], len(agg["nontrivial"]), agg["states"], agg["transitions"],
            len(agg["violations"]), sum(len(x) for x in known.values()), len(unlisted), len(groups),
            agg["determinism_replays"], agg["timeouts"], time.time() - t0))
    if os.environ.get("XPMC_PROFILE"):
        walls = sorted(((r["wall"], i) for i, r in enumerate(agg["results"]) if r), reverse=True)
        fam = {}
        for w, i in walls:
            k = str(agg_tasks[i].get("family", agg_tasks[i].get("kind", "")))
            fam[k] = fam.get(k, 0.0) + w
        log("[%s] cpu by family: %s" % (pid, json.dumps({k: round(v, 1) for k, v in sorted(fam.items(), key=lambda kv: -kv[1])[:15]})))
        for w, i in walls[:5]:
            log("[%s] slow task %.1fs %s" % (pid, w, json.dumps(agg_tasks[i])[:200]))
    if agg["counters"]:
        log("[%s] counters: %s" % (pid, json.dumps(agg["counters"], sort_keys=True)))
    if status == 1:
        return 1
    if harness_fault:
        for h in harness_fault:
            log("HARNESS-FAULT: " + h)
        return 3
    return 0


if __name__ == "__main__":
    sys.exit(main())
