"""Oracle building blocks, written from the textbook/documented forms -- nothing imported from the code under test.

Conventions (DESIGN.md section 4):
* every equality is |a-b| <= rtol*max(|a|,|b|) + atol*S with S a characteristic scale of the field;
* residuals of balance laws are normalised  |sum terms| / sum |terms|  (dimensionless, in [0,1]);
* finite differences are taken at three step sizes and the *minimum* residual is reported (a correct
  solution makes the residual small at the best step; a wrong one stays large at all of them).
"""
import math

import numpy as np


def mismatch(a, b, scale=None, floor=0.0):
    """Elementwise |a-b| / (max(|a|,|b|) + floor*S).  NaN==NaN counts as equal, NaN vs number as 1."""
    a = np.asarray(a, dtype=float)
    b = np.asarray(b, dtype=float)
    if scale is None:
        fin = np.concatenate([np.abs(a[np.isfinite(a)]).ravel(), np.abs(b[np.isfinite(b)]).ravel()])
        scale = fin.max() if fin.size else 1.0
    den = np.maximum(np.abs(a), np.abs(b)) + floor * scale
    with np.errstate(all="ignore"):
        d = np.abs(a - b) / np.where(den > 0, den, 1.0)
    d = np.where((a == b), 0.0, d)
    both_nan = np.isnan(a) & np.isnan(b)
    one_nan = np.isnan(a) ^ np.isnan(b)
    d = np.where(both_nan, 0.0, d)
    d = np.where(one_nan, 1.0, d)
    d = np.where(np.isnan(d), 1.0, d)
    return d


def relres(*terms):
    """Normalised residual |sum| / sum|.|  of the terms of a balance law (elementwise)."""
    terms = [np.asarray(t, dtype=float) for t in terms]
    s = sum(terms)
    n = sum(np.abs(t) for t in terms)
    with np.errstate(all="ignore"):
        r = np.abs(s) / np.where(n > 0, n, 1.0)
    r = np.where(n > 0, r, 0.0)
    return np.where(np.isnan(r), 1.0, r)


def nontrivial_terms(*terms, frac=1e-6):
    """True where at least two terms exceed frac * the largest (the balance is not a constant state)."""
    A = np.abs(np.array([np.asarray(t, dtype=float) for t in terms]))
    big = A.max(axis=0)
    with np.errstate(all="ignore"):
        cnt = (A > frac * big).sum(axis=0)
    return (cnt >= 2) & (big > 0)


# ----------------------------------------------------------------------------------------------
# finite differences of a vector function f(x) sampled through the public solver
# ----------------------------------------------------------------------------------------------

def d1_central4(f, x, h):
    """4th-order central first derivative; f maps an array of abscissae to an array (or tuple of arrays)."""
    fm2, fm1, fp1, fp2 = f(x - 2 * h), f(x - h), f(x + h), f(x + 2 * h)
    return _lin((1, fm2), (-8, fm1), (8, fp1), (-1, fp2), div=12 * h)


def d1_central2(f, x, h):
    fm1, fp1 = f(x - h), f(x + h)
    return _lin((-1, fm1), (1, fp1), div=2 * h)


def d2_central2(f, x, h):
    fm1, f0, fp1 = f(x - h), f(x), f(x + h)
    return _lin((1, fm1), (-2, f0), (1, fp1), div=h * h)


def d2_central4(f, x, h):
    fm2, fm1, f0, fp1, fp2 = f(x - 2 * h), f(x - h), f(x), f(x + h), f(x + 2 * h)
    return _lin((-1, fm2), (16, fm1), (-30, f0), (16, fp1), (-1, fp2), div=12 * h * h)


def d1_forward2(f, x, h):
    f0, f1, f2 = f(x), f(x + h), f(x + 2 * h)
    return _lin((-3, f0), (4, f1), (-1, f2), div=2 * h)


def d1_backward2(f, x, h):
    f0, f1, f2 = f(x), f(x - h), f(x - 2 * h)
    return _lin((3, f0), (-4, f1), (1, f2), div=2 * h)


def _lin(*pairs, div):
    first = pairs[0][1]
    if isinstance(first, (tuple, list)):
        n = len(first)
        return tuple(sum(c * np.asarray(v[i], dtype=float) for c, v in pairs) / div for i in range(n))
    if isinstance(first, dict):
        return {k: sum(c * np.asarray(v[k], dtype=float) for c, v in pairs) / div for k in first}
    return sum(c * np.asarray(v, dtype=float) for c, v in pairs) / div


# ----------------------------------------------------------------------------------------------
# locating discontinuities from the returned fields (not from the solver's own report)
# ----------------------------------------------------------------------------------------------

def locate_jumps(f, a, b, n=257, min_rel=1e-3, rounds=60, geometric=False, max_jumps=8, tol=1e-13, accept=0.3):
    """Find discontinuities of the scalar/vector function f on [a, b].

    f(x_array) -> array (npts,) or (nfields, npts).  A cell is a candidate if the *relative* jump of any
    field, |df|/(|f_i|+|f_{i+1}|+tiny), exceeds min_rel and exceeds 8x the median cell jump (so smooth steep
    regions are not candidates).  Each candidate is then bisected: a genuine discontinuity keeps its jump as
    the bracket shrinks, a steep smooth region does not.  For solvers that smear a jump over one internal cell (class C)
    pass tol = 2*cell/(b-a) and accept=0.1 so refinement stops at the cell.  Returns a list of dicts
    {x, left (fields at x-), right (fields at x+), rel (relative jump), width}.
    """
    xs = np.geomspace(a, b, n) if geometric else np.linspace(a, b, n)
    F = np.atleast_2d(np.asarray(f(xs), dtype=float))
    scale = np.nanmax(np.abs(F), axis=1, keepdims=True)
    scale = np.where(scale > 0, scale, 1.0)
    with np.errstate(all="ignore"):
        rel = np.abs(np.diff(F, axis=1)) / (np.abs(F[:, :-1]) + np.abs(F[:, 1:]) + 1e-12 * scale)
    rel = np.nan_to_num(rel, nan=1.0)
    cell = rel.max(axis=0)
    med = np.median(cell)
    cand = np.where((cell > min_rel) & (cell > 8 * med))[0]
    # merge adjacent candidate cells, keep the strongest of each run
    runs = []
    for i in cand:
        if runs and i == runs[-1][-1] + 1:
            runs[-1].append(i)
        else:
            runs.append([i])
    out = []
    for run in runs:
        i = max(run, key=lambda j: cell[j])
        lo, hi = xs[i], xs[i + 1]
        flo, fhi = F[:, i], F[:, i + 1]
        j0 = _reljump(flo, fhi, scale[:, 0])
        for _ in range(rounds):
            if hi - lo <= tol * max(abs(lo), abs(hi), (b - a)):
                break
            # look at 8 sub-cells, descend into the one with the largest relative jump
            sub = np.linspace(lo, hi, 9)
            Fs = np.atleast_2d(np.asarray(f(sub), dtype=float))
            with np.errstate(all="ignore"):
                r = np.abs(np.diff(Fs, axis=1)) / (np.abs(Fs[:, :-1]) + np.abs(Fs[:, 1:]) + 1e-12 * scale)
            r = np.nan_to_num(r, nan=1.0).max(axis=0)
            k = int(np.argmax(r))
            lo, hi = sub[k], sub[k + 1]
            flo, fhi = Fs[:, k], Fs[:, k + 1]
        j1 = _reljump(flo, fhi, scale[:, 0])
        # a genuine jump keeps (most of) its size; a smooth steep region collapses with the bracket
        if j1 > accept * j0 and j1 > min_rel * accept:
            out.append({"x": 0.5 * (lo + hi), "lo": lo, "hi": hi, "left": flo, "right": fhi, "rel": float(j1),
                        "width": hi - lo})
    out.sort(key=lambda d: -d["rel"])
    out = out[:max_jumps]
    out.sort(key=lambda d: d["x"])
    return out


def _reljump(fl, fr, scale):
    with np.errstate(all="ignore"):
        r = np.abs(fr - fl) / (np.abs(fl) + np.abs(fr) + 1e-12 * scale)
    return float(np.nan_to_num(r, nan=1.0).max())


# ----------------------------------------------------------------------------------------------
# quadrature
# ----------------------------------------------------------------------------------------------

_GL = {}


def gauss_legendre(f, a, b, n=20):
    """Integral of vector function f over [a,b] with n-point Gauss-Legendre; f(x_array)->(nfields,npts) or (npts,)."""
    if n not in _GL:
        _GL[n] = np.polynomial.legendre.leggauss(n)
    x, w = _GL[n]
    xm, xr = 0.5 * (a + b), 0.5 * (b - a)
    F = np.asarray(f(xm + xr * x), dtype=float)
    return (F * w).sum(axis=-1) * xr


def piecewise_gl(f, breaks, n=20, panels=4):
    """Composite Gauss-Legendre between consecutive break points (each interval split into `panels`)."""
    total = 0.0
    for a, b in zip(breaks[:-1], breaks[1:]):
        if b <= a:
            continue
        edges = np.linspace(a, b, panels + 1)
        for c, d in zip(edges[:-1], edges[1:]):
            total = total + gauss_legendre(f, c, d, n)
    return total


# ----------------------------------------------------------------------------------------------
# gas dynamics, textbook forms
# ----------------------------------------------------------------------------------------------

def rankine_hugoniot(rho1, u1, p1, e1, rho2, u2, p2, e2, s):
    """Normalised residuals of the three jump conditions for states 1|2 and discontinuity speed s."""
    w1, w2 = u1 - s, u2 - s
    m1, m2 = rho1 * w1, rho2 * w2
    mass = relres(m1, -m2)
    mom = relres(m1 * w1, p1, -m2 * w2, -p2)
    en = relres(m1 * (e1 + 0.5 * w1 * w1), p1 * w1, -m2 * (e2 + 0.5 * w2 * w2), -p2 * w2)
    return float(mass), float(mom), float(en)
