"""Mode G: breadth-first exploration of the orbit of a problem instance under the generators of a symmetry group.

A node is a dict describing a problem instance (configuration, points, time ... whatever the property needs) together
with the group element `g` that maps the root to it (kept by the caller inside the node, e.g. accumulated scale
factors).  `bfs` applies every generator to every node up to word length `depth`, merging nodes whose canonical form
(parameters rounded to 12 significant digits) coincide, so commuting words meet and the check at a merged node compares
'the state reached from the root' with 'the state reached from elsewhere'.
"""
import collections
import json
import math


def round_sig(x, n=12):
    if isinstance(x, bool) or x is None or isinstance(x, (str, int)):
        return x
    if isinstance(x, float):
        if x == 0 or not math.isfinite(x):
            return x
        return float("%.*g" % (n, x))
    if isinstance(x, (list, tuple)):
        return [round_sig(v, n) for v in x]
    if isinstance(x, dict):
        return {k: round_sig(v, n) for k, v in sorted(x.items())}
    return x


def canon(node):
    return json.dumps(round_sig(node), sort_keys=True)


def bfs(root, generators, depth):
    """generators: list of (name, fn) with fn(node) -> new node (or None when not applicable).
    Returns (nodes, transitions) where nodes is an ordered dict canon -> {"node":..., "word": [...], "merged": n}
    and transitions the number of generator applications performed."""
    nodes = collections.OrderedDict()
    nodes[canon(root)] = {"node": root, "word": [], "merged": 0}
    frontier = collections.deque([canon(root)])
    transitions = 0
    while frontier:
        k = frontier.popleft()
        cur = nodes[k]
        if len(cur["word"]) >= depth:
            continue
        for name, fn in generators:
            nxt = fn(cur["node"])
            if nxt is None:
                continue
            transitions += 1
            kk = canon(nxt)
            if kk in nodes:
                nodes[kk]["merged"] += 1
                continue
            nodes[kk] = {"node": nxt, "word": cur["word"] + [name], "merged": 0}
            frontier.append(kk)
    return nodes, transitions
