"""Re-execute one recorded violation alone:  python -m xpmc.replay <file>   (exit 1 = reproduced, 0 = not).

The recorded artefact is the (deterministic, self-contained) task that produced the violation plus the
identity of the violation inside it (clause + where).  `python -m xpmc.replay --as-test <file>` prints a plain
pytest function that does the same without the explorer.
"""
import importlib
import json
import os
import sys

ROOT = os.path.dirname(os.path.dirname(os.path.abspath(__file__)))


def run_case(case):
    sys.path.insert(0, ROOT)
    from . import engine
    import numpy as np
    np.seterr(all="ignore")
    mod = importlib.import_module("props." + case["property"])
    if hasattr(mod, "preimport"):
        mod.preimport()
    # a violation that reproduces only after the tasks its worker ran earlier is history-dependent: the recorded prefix is
    # executed first (in order, results discarded) when the artefact carries one
    for pt in case.get("prefix_tasks") or []:
        try:
            mod.run_task(pt)
        except Exception:
            pass
    res = mod.run_task(case["task"])
    hits = []
    for v in res.get("violations", []):
        if engine.vkey(v) == case["vkey"]:
            hits.append(v)
    return hits, res


AS_TEST = '''\
import json, sys
sys.path.insert(0, %(root)r)
def test_replay_%(name)s():
    """%(prop)s %(solver)s clause=%(clause)s (recorded value %(value)s, tolerance %(tol)s)"""
    from xpmc import replay
    case = json.load(open(%(path)r))
    hits, _ = replay.run_case(case)
    assert not hits, hits
'''


def main(argv=None):
    argv = list(sys.argv[1:] if argv is None else argv)
    as_test = False
    if argv and argv[0] == "--as-test":
        as_test = True
        argv = argv[1:]
    path = argv[0]
    with open(path) as f:
        case = json.load(f)
    if as_test:
        print(AS_TEST % dict(root=ROOT, name=os.path.basename(path).split(".")[0], prop=case["property"],
                             solver=case.get("solver"), clause=case.get("clause"), value=case.get("value"),
                             tol=case.get("tol"), path=os.path.abspath(path)))
        return 0
    import contextlib
    import io
    buf = io.StringIO()
    with contextlib.redirect_stdout(buf):
        hits, res = run_case(case)
    if hits:
        v = hits[0]
        from . import engine
        print("REPRODUCED property=%s solver=%s clause=%s value=%s tol=%s where=%s" % (
            case["property"], v.get("solver"), v.get("clause"), engine.jsonable(v.get("value")),
            engine.jsonable(v.get("tol")), json.dumps(engine.jsonable(v.get("where")))[:400]))
        print("VIOLATION property=%s replay=%s" % (case["property"], path))
        return 1
    print("not reproduced: task ran with %d violation(s), none with key %s" % (len(res.get("violations", [])), case["vkey"]))
    return 0


if __name__ == "__main__":
    sys.exit(main())
