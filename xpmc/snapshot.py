"""Canonical snapshot of the interpreter state that exactpack code can see between operations (mode H).

Cells are *discovered*, not listed: every non-callable global of every imported exactpack.* module, every
non-callable attribute of every class defined there, the __defaults__/__kwdefaults__ of every function and method
(this is where shared mutable default arguments live), module-valued and function-valued globals by qualified name
(so a `global fnctn` table switch is visible), numpy's error state, and the __dict__ of each live solver object.
A change that hoists a local scratch variable to module or class scope therefore *adds a cell* and is explored
without touching this file.

Two histories with equal snapshots can have different futures only through state the snapshot does not see
(C-level state inside numpy/scipy, the OS); the differential oracle of C06 does not rely on state equality, merging
only prunes the search.
"""
import hashlib
import sys
import types

import numpy as np

MAXDEPTH = 7


def _h(b):
    return hashlib.sha1(b).hexdigest()[:16]


def canon(v, depth=0, seen=None):
    """A hashable, order-independent description of a Python value."""
    if seen is None:
        seen = set()
    if v is None or isinstance(v, (bool, int, str, bytes)):
        return v
    if isinstance(v, float):
        return repr(v)
    if isinstance(v, complex):
        return ("complex", repr(v.real), repr(v.imag))
    if isinstance(v, np.generic):
        return ("npscalar", str(v.dtype), repr(v.item()) if v.dtype.kind != "V" else _h(v.tobytes()))
    if isinstance(v, np.ndarray):
        if v.dtype.kind == "O":
            return ("objarray", v.shape, tuple(canon(x, depth + 1, seen) for x in v.ravel()[:64]))
        return ("ndarray", str(v.dtype), v.shape, _h(np.ascontiguousarray(v).tobytes()))
    if isinstance(v, types.ModuleType):
        return ("module", v.__name__)
    if isinstance(v, (types.FunctionType, types.BuiltinFunctionType, types.MethodType, type)):
        return ("callable", getattr(v, "__module__", "?"), getattr(v, "__qualname__", repr(v)))
    if id(v) in seen or depth > MAXDEPTH:
        return ("ref", type(v).__name__)
    seen = seen | {id(v)}
    if isinstance(v, (list, tuple)):
        return (type(v).__name__,) + tuple(canon(x, depth + 1, seen) for x in v)
    if isinstance(v, (set, frozenset)):
        return ("set",) + tuple(sorted((repr(canon(x, depth + 1, seen)) for x in v)))
    if isinstance(v, dict):
        return ("dict",) + tuple(sorted(((repr(canon(k, depth + 1, seen)), canon(x, depth + 1, seen)) for k, x in v.items()),
                                        key=lambda kv: kv[0]))
    d = getattr(v, "__dict__", None)
    if isinstance(d, dict):
        return ("obj", type(v).__module__, type(v).__qualname__, canon(d, depth + 1, seen))
    slots = getattr(type(v), "__slots__", None)
    if slots:
        return ("obj", type(v).__qualname__, tuple((s, canon(getattr(v, s, None), depth + 1, seen)) for s in slots))
    return ("opaque", type(v).__module__, type(v).__qualname__)


def _func_cells(prefix, fn, cells):
    if fn.__defaults__:
        cells[prefix + ".__defaults__"] = canon(fn.__defaults__)
    if fn.__kwdefaults__:
        cells[prefix + ".__kwdefaults__"] = canon(fn.__kwdefaults__)


def cells(live=None, prefix="exactpack"):
    """dict: cell path -> canonical value, for all imported exactpack modules plus the live objects given
    as {slot: object}."""
    out = {}
    for mname in sorted(sys.modules):
        if not (mname == prefix or mname.startswith(prefix + ".")):
            continue
        mod = sys.modules[mname]
        if mod is None or ".tests" in mname:
            continue
        for name, val in sorted(vars(mod).items()):
            if name.startswith("__") and name.endswith("__"):
                continue
            path = mname + ":" + name
            if isinstance(val, types.FunctionType):
                if val.__module__ == mname:
                    _func_cells(path, val, out)
                else:
                    out[path] = canon(val)       # imported/rebound function: identity matters
            elif isinstance(val, type):
                if val.__module__ != mname:
                    out[path] = canon(val)
                    continue
                for an, av in sorted(vars(val).items()):
                    if an.startswith("__") and an.endswith("__"):
                        continue
                    ap = path + "." + an
                    if isinstance(av, (staticmethod, classmethod)):
                        av = av.__func__
                    if isinstance(av, types.FunctionType):
                        _func_cells(ap, av, out)
                    elif isinstance(av, property):
                        continue
                    else:
                        out[ap] = canon(av)
            else:
                out[path] = canon(val)
    out["numpy:geterr"] = canon(np.geterr())
    # interpreter-wide switches a library call may leave behind: the warnings filter list (an 'error' filter turns another
    # solver's RuntimeWarning into an exception) and numpy's print options
    import warnings
    out["warnings:filters"] = canon([(f[0], str(f[1]), getattr(f[2], "__name__", str(f[2])), str(f[3]), f[4]) for f in warnings.filters])
    po = np.get_printoptions()
    out["numpy:printoptions"] = canon({k: (v if not callable(v) else "callable") for k, v in po.items() if k != "formatter"})
    for slot, obj in sorted((live or {}).items()):
        if str(slot).startswith("_buf:"):      # the harness's own request buffers are not interpreter state of the library
            continue
        d = getattr(obj, "__dict__", {})
        for an, av in sorted(d.items()):
            out["live:%s.%s" % (slot, an)] = canon(av)
    return out


def digest(cellmap):
    h = hashlib.sha1()
    for k in sorted(cellmap):
        h.update(k.encode())
        h.update(repr(cellmap[k]).encode())
    return h.hexdigest()


def diff(a, b):
    """Paths whose canonical value differs between two cell maps (added, removed or changed)."""
    return sorted(k for k in set(a) | set(b) if a.get(k, "<absent>") != b.get(k, "<absent>"))
