"""Access to the implementation under test: class discovery, construction, calls.

Nothing here encodes expected output values.  All imports of exactpack go through this module so that the
working tree of /repo (editable install) is what is exercised.
"""
import importlib
import io
import contextlib
import pkgutil

import numpy as np

_CLASS_CACHE = {}


def get_class(path):
    """'exactpack.solvers.noh.noh1.Noh' or the short form 'noh.noh1.Noh'."""
    if path in _CLASS_CACHE:
        return _CLASS_CACHE[path]
    full = path if path.startswith("exactpack.") else "exactpack.solvers." + path
    modname, clsname = full.rsplit(".", 1)
    mod = importlib.import_module(modname)
    c = getattr(mod, clsname)
    _CLASS_CACHE[path] = c
    return c


def import_all():
    import exactpack.solvers as S
    mods = []
    for m in pkgutil.walk_packages(S.__path__, "exactpack.solvers."):
        mods.append(importlib.import_module(m.name))
    return mods


def discover():
    """Every public ExactSolver subclass defined under exactpack.solvers, sorted by qualified name."""
    from exactpack.base import ExactSolver
    import_all()
    seen = {}

    def walk(c):
        for s in c.__subclasses__():
            if s.__module__.startswith("exactpack.solvers"):
                seen[s.__module__ + "." + s.__name__] = s
            walk(s)
    walk(ExactSolver)
    return dict(sorted(seen.items()))


class Inadmissible(Exception):
    """The constructor rejected the parameter vector with ValueError (documented behaviour)."""


def construct(path, cfg):
    c = get_class(path)
    buf = io.StringIO()
    with contextlib.redirect_stdout(buf):
        try:
            return c(**cfg)
        except ValueError as e:
            raise Inadmissible(str(e))


def call(solver, pts, t):
    buf = io.StringIO()
    with contextlib.redirect_stdout(buf):
        return solver(pts, t)


def field(sol, name):
    return np.asarray(sol[name], dtype=float)
