"""C01 helper: locating non-smooth loci from returned fields, smooth segments, 5-point stencils with noise bookkeeping.

Nothing here knows a solver formula.  Everything is computed from arrays returned by the public solver call.

* `detect(xs, M)`       flags the cells of a scan that hold a discontinuity (relative jump far above the one-sided
                        local medians) or a kink (change of slope far above the one-sided local medians of the second
                        difference); returns merged zones.
* `segments(...)`       complement of the zones (hull over the three scan times) inside the domain.
* `Stencil`             4th-order central first/second differences in r and first differences in t on one 5-point
                        stencil per direction; every derivative carries a bound on its rounding noise
                        (eta * max|q| * sum|weights| / step), so that a balance-law residual can be normalised by
                        sum|terms| + noise/tol (constant states then give residual << tol instead of 0/0).
"""
import numpy as np
from numpy.lib.stride_tricks import sliding_window_view


def _side_medians(A, win, skip):
    """One-sided running medians of each row of A (nf x m): for index i the median of A[i-skip-win : i-skip] (left)
    and of A[i+skip+1 : i+skip+1+win] (right).  Where a side has fewer than 3 entries it is returned as NaN."""
    nf, m = A.shape
    pad = win + skip + 1
    P = np.full((nf, m + 2 * pad), np.nan)
    P[:, pad:pad + m] = A
    W = sliding_window_view(P, win, axis=1)          # nf x (m+2pad-win+1) x win
    import warnings
    with np.errstate(all="ignore"), warnings.catch_warnings():
        warnings.simplefilter("ignore")
        cnt = np.isfinite(W).sum(axis=-1)
        med = np.nanmedian(W, axis=-1)
    med = np.where(cnt >= 3, med, np.nan)
    idx = np.arange(m)
    left = med[:, idx + pad - skip - win]             # window ending at i-skip-1
    right = med[:, idx + pad + skip + 1]              # window starting at i+skip+1
    return left, right


def detect(xs, M, win=12, kfac=12.0, kinks=True, jump_floor=1e-10, kink_floor=1e-7, merge_gap=2):
    """Zones of non-smoothness of the scan M (nf x n) on abscissae xs.

    Returns a list of dicts {lo, hi, i0, i1, jump (largest relative jump in the zone), kink (largest normalised
    slope change), kind}.  `kind` is 'jump' when the relative jump exceeds 100x what the slopes on either side
    explain, else 'kink', or 'nonfinite'."""
    xs = np.asarray(xs, float)
    M = np.atleast_2d(np.asarray(M, float))
    n = len(xs)
    dx = np.diff(xs)
    L = xs[-1] - xs[0]
    fin = np.isfinite(M).all(axis=0)
    Mz = np.where(np.isfinite(M), M, 0.0)
    scale = np.abs(Mz).max(axis=1)
    scale = np.where(scale > 0, scale, 1.0)[:, None]
    bad = ~(fin[:-1] & fin[1:])
    nonfin = bad.copy()
    dM = np.diff(Mz, axis=1)
    aM = np.abs(dM)
    with np.errstate(all="ignore"):
        rel = aM / (np.abs(Mz[:, :-1]) + np.abs(Mz[:, 1:]) + 1e-12 * scale)
    # a jump is an increment far above the increments of the cells on BOTH sides (one-sided running medians); a side
    # with fewer than 3 cells (domain edge) cannot certify anything: no flag there (segments are trimmed at the edges)
    ml, mr = _side_medians(aM, win, 2)
    ref = np.where(np.isnan(ml) | np.isnan(mr), np.inf, np.fmax(ml, mr))
    jflag = (aM > jump_floor * scale) & (aM > kfac * ref)
    jcell = jflag.any(axis=0)
    bad |= jcell
    kstrength = np.zeros(n - 1)
    if kinks and n >= 8:
        s = dM / dx
        ds = np.abs(np.diff(s, axis=1))                  # node j=1..n-2  <-> column j-1
        kl, kr = _side_medians(ds, win, 2)
        kref = np.where(np.isnan(kl) | np.isnan(kr), np.inf, np.fmax(kl, kr))
        floor = kink_floor * scale / L
        kflag = (ds > floor) & (ds > kfac * kref)
        knode = kflag.any(axis=0)
        with np.errstate(all="ignore"):
            kval = (ds * L / scale).max(axis=0)
        for c in np.where(knode)[0]:                     # node j=c+1 touches cells c and c+1
            bad[c] = True
            bad[c + 1] = True
            kstrength[c] = max(kstrength[c], kval[c])
            kstrength[c + 1] = max(kstrength[c + 1], kval[c])
    jstrength = np.where(jcell, rel.max(axis=0), 0.0)
    zones = []
    idx = np.where(bad)[0]
    if idx.size:
        runs = [[idx[0], idx[0]]]
        for i in idx[1:]:
            if i - runs[-1][1] <= merge_gap + 1:
                runs[-1][1] = i
            else:
                runs.append([i, i])
        for i0, i1 in runs:
            sl = slice(i0, i1 + 1)
            z = {"lo": float(xs[i0]), "hi": float(xs[i1 + 1]), "i0": int(i0), "i1": int(i1),
                 "jump": float(jstrength[sl].max()), "kink": float(kstrength[sl].max()),
                 "kind": "nonfinite" if nonfin[sl].any() else ("jump" if jstrength[sl].max() > 0 else "kink")}
            zones.append(z)
    return zones


def strongest(zones, cap):
    """Keep at most `cap` zones (jumps by size first, then kinks by slope change); returns (kept sorted by lo, dropped)."""
    if len(zones) <= cap:
        return zones, []
    order = sorted(range(len(zones)), key=lambda i: (zones[i]["kind"] != "nonfinite", -zones[i]["jump"], -zones[i]["kink"]))
    keep = sorted(order[:cap])
    return [zones[i] for i in keep], [zones[i] for i in order[cap:]]


def hull(zone_lists, ref, match_tol, min_pad):
    """Zones found at the scan times -> hulls (lo, hi) covering each locus over the whole time stencil.

    Zones of the other times are matched to the nearest zone of the reference time (index `ref`) within `match_tol`;
    a matched group gives the span of its members.  A zone without a partner (a locus that appears/disappears or a weak
    kink that is flagged at one time only) is kept as its own hull, widened by the largest displacement seen among the
    matched groups (at least min_pad; match_tol if nothing matched).  Returns (hulls, n_unmatched)."""
    Z0 = zone_lists[ref]
    groups = [[z] for z in Z0]
    loose = []
    for k, Z in enumerate(zone_lists):
        if k == ref:
            continue
        taken = set()
        for z in Z:
            c = 0.5 * (z["lo"] + z["hi"])
            best, bd = None, None
            for i, z0 in enumerate(Z0):
                d = abs(c - 0.5 * (z0["lo"] + z0["hi"]))
                if d <= match_tol and (bd is None or d < bd) and (k, i) not in taken:
                    best, bd = i, d
            if best is None:
                loose.append(z)
            else:
                taken.add((k, best))
                groups[best].append(z)
    disp = 0.0
    out = []
    unmatched = len(loose)
    for g in groups:
        if len(g) < len(zone_lists):
            unmatched += 1
        lo, hi = min(z["lo"] for z in g), max(z["hi"] for z in g)
        if len(g) > 1:
            disp = max(disp, max(abs(z["lo"] - g[0]["lo"]) for z in g), max(abs(z["hi"] - g[0]["hi"]) for z in g))
        out.append([lo, hi, len(g) < len(zone_lists)])
    for z in loose:
        out.append([z["lo"], z["hi"], True])
    anymatched = any(len(g) > 1 for g in groups)
    widen = max(min_pad, disp) if anymatched else max(min_pad, match_tol)
    out = [(lo - widen, hi + widen) if lone else (lo, hi) for lo, hi, lone in out]
    out.sort()
    merged = []
    for lo, hi in out:
        if merged and lo <= merged[-1][1]:
            merged[-1] = (merged[-1][0], max(hi, merged[-1][1]))
        else:
            merged.append((lo, hi))
    return merged, unmatched


def segments(a, b, hulls, pad, edge=0.0):
    """Smooth intervals of [a+edge, b-edge] outside the hulls, each end moved inwards by `pad` next to a hull."""
    segs = []
    a, b = a + edge, b - edge
    lo = a
    for h0, h1 in hulls:
        if h0 - pad > lo:
            segs.append((lo, h0 - pad))
        lo = max(lo, h1 + pad)
    if b > lo:
        segs.append((lo, b))
    return segs


def lattice(A, B, n, geometric):
    if geometric and A > 0 and B / A > 1.5:
        r = (B / A) ** (1.0 / n)
        return A * r ** (np.arange(n) + 0.5)
    h = (B - A) / n
    return A + (np.arange(n) + 0.5) * h


W1 = {-2: 1.0, -1: -8.0, 1: 8.0, 2: -1.0}            # /12h      sum|w|/12 = 1.5
W2 = {-2: -1.0, -1: 16.0, 0: -30.0, 1: 16.0, 2: -1.0}  # /12h^2    sum|w|/12 = 64/12


class Stencil:
    """Fields on a 5-point stencil in r (step h, array) and in t (step k, scalar) around n points.

    fr[j], ft[j] (j = -2,-1,1,2) and fc are dicts name -> array(n).  A *quantity* is a function of such a dict.
    Every derivative is returned as (value, noise bound)."""

    def __init__(self, fc, fr, ft, h, k, eta, tfactor=1.0):
        self.fc, self.fr, self.ft, self.h, self.k, self.eta, self.tfactor = fc, fr, ft, np.asarray(h, float), float(k), eta, tfactor

    def val(self, q):
        return np.asarray(q(self.fc), float)

    def _amax(self, vals):
        return np.max(np.abs(np.array(vals)), axis=0)

    def dr(self, q):
        v = {j: np.asarray(q(self.fr[j]), float) for j in W1}
        d = sum(W1[j] * v[j] for j in W1) / (12.0 * self.h)
        return d, 1.5 * self.eta * self._amax(list(v.values())) / self.h

    def d2r(self, q):
        v = {j: np.asarray(q(self.fr[j]), float) for j in W1}
        v[0] = self.val(q)
        d = sum(W2[j] * v[j] for j in W2) / (12.0 * self.h ** 2)
        return d, (64.0 / 12.0) * self.eta * self._amax(list(v.values())) / self.h ** 2

    def dt(self, q):
        v = {j: np.asarray(q(self.ft[j]), float) for j in W1}
        d = sum(W1[j] * v[j] for j in W1) / (12.0 * self.k)
        return self.tfactor * d, abs(self.tfactor) * 1.5 * self.eta * self._amax(list(v.values())) / self.k

    def finite(self, names):
        ok = np.ones(len(self.h), bool)
        for d in [self.fc] + list(self.fr.values()) + list(self.ft.values()):
            for n in names:
                ok &= np.isfinite(d[n])
        return ok


def lin(coef, dn):
    """coef * derivative  -> (value, noise)."""
    d, nz = dn
    coef = np.asarray(coef, float)
    return coef * d, np.abs(coef) * nz


def prod(coef, dn1, dn2):
    d1, n1 = dn1
    d2, n2 = dn2
    coef = np.asarray(coef, float)
    return coef * d1 * d2, np.abs(coef) * (np.abs(d1) * n2 + np.abs(d2) * n1)


def plain(v):
    v = np.asarray(v, float)
    return v, np.zeros_like(v)


def balance(terms, tol, norm=None):
    """Normalised residual of a balance law from (value, noise) terms:
         |sum v| / (sum |v| + sum noise / tol)
    and the non-triviality mask (>= 2 terms above 1e-6 of the largest and sum|v| above 10x the noise floor).
    `norm`: optional list of arrays, the terms of the same law after expanding products (primitive form); when given,
    they replace sum|v| in the denominator (a conservation-form law has two terms which both vanish at a sonic point
    of a self-similar fan, the expanded terms do not)."""
    V = np.array([t[0] for t in terms])
    N = np.array([t[1] for t in terms])
    s = np.abs(V.sum(axis=0))
    a = np.abs(V).sum(axis=0)
    if norm is not None:
        V = np.array([np.asarray(v, float) for v in norm])
        a = np.maximum(a, np.abs(V).sum(axis=0))
    floor = N.sum(axis=0) / tol
    with np.errstate(all="ignore"):
        res = s / np.where(a + floor > 0, a + floor, 1.0)
    res = np.where(a + floor > 0, res, 0.0)
    res = np.where(np.isnan(res), 1.0, res)
    big = np.abs(V).max(axis=0)
    with np.errstate(all="ignore"):
        cnt = (np.abs(V) > 1e-6 * big).sum(axis=0)
    nontriv = (cnt >= 2) & (big > 0) & (a > 10.0 * floor)
    return res, nontriv
