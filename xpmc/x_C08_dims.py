"""C08 helper: (M, L, T, Theta) exponent tables for parameters, coordinates and fields of every solver whose
documentation does not require particular units, the documented relations under which the tables must be
dimensionally homogeneous (start-up self-check: a typo here is a harness error, never a VIOLATION), root alphabets and
point lattices.  No expected output values live here.

A dimension is a 4-tuple of exponents (M, L, T, Theta).  A *relation* is (label, [term, term, ...]) with each term a
dict {symbol: power}; symbols are constructor parameters, 'x' (a position), 't' (the time argument) and '@field' (a
returned field).  All terms of a relation must have the same dimension under the table.
"""
import math

import numpy as np

from . import hydro, hydro_more, lattice, oracle
from .solvers import construct, call

G53 = 5.0 / 3.0
DIMS = ("M", "L", "T", "Th")

NONE = (0.0, 0.0, 0.0, 0.0)
MASS = (1.0, 0.0, 0.0, 0.0)
LEN = (0.0, 1.0, 0.0, 0.0)
TIME = (0.0, 0.0, 1.0, 0.0)
TEMP = (0.0, 0.0, 0.0, 1.0)
RHO = (1.0, -3.0, 0.0, 0.0)
VEL = (0.0, 1.0, -1.0, 0.0)
PRES = (1.0, -1.0, -2.0, 0.0)
SIE = (0.0, 2.0, -2.0, 0.0)
DIFFUS = (0.0, 2.0, -1.0, 0.0)          # thermal diffusivity, DSD curvature coefficient
GASCONST = (0.0, 2.0, -2.0, -1.0)       # Gamma in P = Gamma rho T; specific heat


def dim(*pairs):
    """dim((RHO, 1), (LEN, -b), ...) -> exponent tuple of the product."""
    out = [0.0, 0.0, 0.0, 0.0]
    for d, p in pairs:
        for i in range(4):
            out[i] += d[i] * p
    return tuple(out)


def factor(scale, d):
    """Numerical factor of a quantity of dimension d under the unit change `scale` = {'M':..,'L':..,'T':..,'Th':..}."""
    f = 1.0
    for i, n in enumerate(DIMS):
        if d[i] != 0.0:
            f *= float(scale.get(n, 1.0)) ** d[i]
    return f


# standard field dimensions (ExactPack's standardized variable names + the solver-specific ones documented in each solver)
FIELD_DIMS = {
    "position": LEN, "radius": LEN, "position_x": LEN, "position_y": LEN, "position_z": LEN,
    "density": RHO, "velocity": VEL, "pressure": PRES, "specific_internal_energy": SIE, "sound_speed": VEL,
    "temperature": TEMP, "burntime": TIME, "xdet": LEN,
    "curr_posn": LEN, "displacement": LEN, "strain_rr": NONE, "strain_qq": NONE, "strain_vol": NONE,
    "stress_rr": PRES, "stress_qq": PRES, "stress_dev_rr": PRES, "stress_dev_qq": PRES, "stress_diff": PRES,
    "deviatoric stress": PRES,
}

# ----------------------------------------------------------------------------------------------------------------
# documented relations shared by the gas-dynamics solvers (package docstrings: Euler equations + gamma-law EOS)
# ----------------------------------------------------------------------------------------------------------------


def rel_euler(names):
    r = []
    if {"density", "velocity"} <= names:
        r.append(("pde:mass  d rho/dt ~ d(rho u)/dx", [{"@density": 1, "t": -1}, {"@density": 1, "@velocity": 1, "x": -1}]))
    if {"density", "velocity", "pressure"} <= names:
        r.append(("pde:momentum  du/dt ~ u du/dx ~ (1/rho) dp/dx",
                  [{"@velocity": 1, "t": -1}, {"@velocity": 2, "x": -1}, {"@pressure": 1, "@density": -1, "x": -1}]))
    if {"density", "pressure", "specific_internal_energy"} <= names:
        r.append(("eos:p ~ rho e", [{"@pressure": 1}, {"@density": 1, "@specific_internal_energy": 1}]))
    if {"density", "pressure", "sound_speed"} <= names:
        r.append(("eos:c^2 ~ p/rho", [{"@sound_speed": 2}, {"@pressure": 1, "@density": -1}]))
    if {"density", "pressure", "temperature"} <= names:
        r.append(("eos:p ~ Gamma rho T", [{"@pressure": 1}, {"Gamma": 1, "@density": 1, "@temperature": 1}]))
    return r


GAS_FIELDS = {"density", "velocity", "pressure", "specific_internal_energy"}
COG_FIELDS = GAS_FIELDS | {"temperature"}

# ----------------------------------------------------------------------------------------------------------------
# family table
# ----------------------------------------------------------------------------------------------------------------
FAMS = {}


def reg(name, **kw):
    """kw: hydro (name of the xpmc.hydro family supplying path/alphabet/times/domain) or path+alphabet+times+domain;
    pdims(cfg) -> {param: dim}; fields -> set of field names returned; relations(cfg) -> list; gens -> active dimensions;
    tol; fdims(cfg) -> overrides of FIELD_DIMS; layout '1d' | 'xy'; resolve(cfg) -> constructor kwargs."""
    d = dict(name=name, gens=("M", "L", "T"), tol=1e-11, layout="1d", cls="A")     # closed forms: measured worst <= 1e-14 (props/C08.py TOL_NOTE)
    if "hydro" in kw:
        h = hydro.by_name(kw["hydro"])
        d.update(path=h["path"], alphabet=h["alphabet"], times=h["times"], domain=h["domain"], njumps=h.get("njumps", 0),
                 scan=h.get("scan", 257), hyd=h)
    d.update(kw)
    FAMS[name] = d
    return d


def k_of(c, default=3):
    return c.get("geometry", default) - 1


# ---- Noh -------------------------------------------------------------------------------------------------------
reg("Noh", hydro="Noh", fields=GAS_FIELDS,
    pdims=lambda c: {"u0": VEL, "rho0": RHO},
    relations=lambda c: rel_euler(GAS_FIELDS) + [
        ("doc:r_shock = (gamma-1)/2 u0 t", [{"x": 1}, {"u0": 1, "t": 1}]),
        ("doc:rho = ((gamma+1)/(gamma-1))^k rho0", [{"@density": 1}, {"rho0": 1}]),
        ("doc:e = u0^2/2", [{"@specific_internal_energy": 1}, {"u0": 2}]),
        ("doc:P ~ rho0 u0^2", [{"@pressure": 1}, {"rho0": 1, "u0": 2}]),
        ("doc:rho = rho0 (1 + u0 t/x)^(k-1)", [{}, {"u0": 1, "t": 1, "x": -1}])])

# ---- Noh2: the documentation fixes u(r,0) = -r and 0 <= t < 1, i.e. the time is measured in collapse times; only the mass
# and length units are free (the thermodynamic energy scale e0 then carries L^2 per collapse-time^2).
reg("Noh2", hydro="Noh2", fields=GAS_FIELDS, gens=("M", "L"),
    pdims=lambda c: {"rho0": RHO, "e0": SIE},
    relations=lambda c: [r for r in rel_euler(GAS_FIELDS) if r[0].startswith("eos")] + [
        ("doc:rho = rho0 (1-t)^-delta", [{"@density": 1}, {"rho0": 1}]),
        ("doc:e = e0 (1-t)^(-delta(gamma-1))", [{"@specific_internal_energy": 1}, {"e0": 1}]),
        ("doc:u = -r/(1-t), t in collapse times", [{"@velocity": 1}, {"x": 1, "t": -1}]),
        ("doc:1-t", [{}, {"t": 1}])])

# ---- Sedov -----------------------------------------------------------------------------------------------------


def _sedov_res(c):
    return hydro_more.sedov_resolve(c)


# the 'singular' tag of the shared alphabet resolves to the exactly singular exponent, which the constructor cannot digest (ZeroDivisionError, C20's
# business); 2.33334 is within the solver's |v2 - v*| <= 1e-4 window of the singular value 7/3 for the default geometry 3, gamma 1.4, so the
# singular branch is explored too
_sedov_alpha = dict(hydro.by_name("Sedov")["alphabet"])
_sedov_alpha["omega"] = list(_sedov_alpha["omega"]) + [2.33334]
reg("Sedov", hydro="Sedov", alphabet=_sedov_alpha, fields=GAS_FIELDS | {"sound_speed"}, cls="C", tol=1e-9, floor=1e-1,
    resolve=_sedov_res,
    pdims=lambda c: {"rho0": dim((RHO, 1), (LEN, _sedov_res(c)["omega"])),
                     "eblast": dim((MASS, 1), (LEN, c["geometry"] - 1.0), (TIME, -2))},
    relations=lambda c: rel_euler(GAS_FIELDS | {"sound_speed"}) + [
        ("doc:rho(r,0) = rho0 r^-omega", [{"@density": 1}, {"rho0": 1, "x": -_sedov_res(c)["omega"]}]),
        ("doc:r2^(j+2-omega) = E/(alpha rho0) t^2", [{"x": c["geometry"] + 2.0 - _sedov_res(c)["omega"]}, {"eblast": 1, "rho0": -1, "t": 2}]),
        ("doc:E = integral (rho u^2/2 + p/(gamma-1)) r^(j-1) dr", [{"eblast": 1}, {"@pressure": 1, "x": c["geometry"]}])])

# ---- Riemann (ideal gas and general EOS / JWL) -------------------------------------------------------------------


def _riem_res(extra):
    def f(c):
        k = hydro_more._riemann_cfg(c)
        k.update(extra)
        k.setdefault("xmin", 0.0)       # class defaults, passed explicitly so that they can be re-expressed in other units
        k.setdefault("xmax", 1.0)
        return k
    return f


def _riem_pdims(c):
    d = {"xmin": LEN, "xd0": LEN, "xmax": LEN, "rl": RHO, "rr": RHO, "pl": PRES, "pr": PRES, "ul": VEL, "ur": VEL}
    k = hydro_more._riemann_cfg(c)
    if k.get("problem") == "JWL":
        d.update({"A": PRES, "B": PRES, "r0": RHO, "e0": SIE})
    return d


def _riem_rel(c):
    r = rel_euler(GAS_FIELDS) + [
        ("doc:states", [{"@density": 1}, {"rl": 1}, {"rr": 1}]),
        ("doc:pressures", [{"@pressure": 1}, {"pl": 1}, {"pr": 1}]),
        ("doc:velocities", [{"@velocity": 1}, {"ul": 1}, {"ur": 1}, {"x": 1, "t": -1}]),
        ("doc:Xregs = xd0 + t Vregs", [{"x": 1}, {"xd0": 1}, {"xmin": 1}, {"xmax": 1}, {"ul": 1, "t": 1}]),
        ("doc:a^2 = gamma p/rho", [{"ul": 2}, {"pl": 1, "rl": -1}])]
    if hydro_more._riemann_cfg(c).get("problem") == "JWL":
        r += [("doc:JWL p = (gamma-1) rho e + A(1-(gamma-1)rho/(R1 r0)) exp(-R1 r0/rho) + ...", [{"@pressure": 1}, {"A": 1}, {"B": 1}]),
              ("doc:JWL R1 r0/rho", [{}, {"r0": 1, "@density": -1}]),
              ("doc:JWL e0", [{"e0": 1}, {"@specific_internal_energy": 1}])]
    return r


for _nm, _extra, _tol, _cls in (("IGEOS", {}, 1e-10, "B"), ("GenEOS", {"num_int_pts": 501, "num_x_pts": 2001}, 1e-8, "C")):
    for _suffix in ("", "_table"):
        reg(_nm + _suffix, hydro=_nm + _suffix, fields=GAS_FIELDS, cls=_cls, tol=_tol, resolve=_riem_res(_extra), floor=1e-3 if _nm == "IGEOS" else 1e-1,
            pdims=_riem_pdims, relations=_riem_rel, abs_xtol=True)

# ---- Coggeshall solutions without hard-wired radiation constants -------------------------------------------------


def _cog(n, pdims, relations, **kw):
    reg("Cog%d" % n, hydro="Cog%d" % n, fields=COG_FIELDS, gens=kw.pop("gens", ("M", "L", "T", "Th")),
        pdims=pdims, relations=lambda c, _r=relations: rel_euler(COG_FIELDS) + _r(c), **kw)


_cog(1, lambda c: {"rho0": dim((RHO, 1), (LEN, -c["b"]), (TIME, c["b"] + k_of(c) + 1)),
                   "temp0": dim((TEMP, 1), (LEN, c["b"]), (TIME, -(c["b"] - (c["gamma"] - 1) * (k_of(c) + 1)))), "Gamma": GASCONST},
     lambda c: [("doc:rho = rho0 r^b t^(-b-k-1)", [{"@density": 1}, {"rho0": 1, "x": c["b"], "t": -c["b"] - k_of(c) - 1}]),
                ("doc:u = r/t", [{"@velocity": 1}, {"x": 1, "t": -1}]),
                ("doc:T = T0 r^-b t^(b-(gamma-1)(k+1))", [{"@temperature": 1}, {"temp0": 1, "x": -c["b"], "t": c["b"] - (c["gamma"] - 1) * (k_of(c) + 1)}])])
_cog(2, lambda c: {"rho0": dim((RHO, 1), (LEN, -c["b"]), (TIME, 2 * (c["b"] + k_of(c) + 1) / (2 + (c["gamma"] - 1) * (k_of(c) + 1)))), "Gamma": GASCONST},
     lambda c: [("doc:rho = rho0 r^b t^(-2(b+k+1)/[2+(gamma-1)(k+1)])",
                 [{"@density": 1}, {"rho0": 1, "x": c["b"], "t": -2 * (c["b"] + k_of(c) + 1) / (2 + (c["gamma"] - 1) * (k_of(c) + 1))}]),
                ("doc:u ~ r/t", [{"@velocity": 1}, {"x": 1, "t": -1}]),
                ("doc:T ~ (r/t)^2/Gamma", [{"@temperature": 1}, {"Gamma": -1, "x": 2, "t": -2}])])
# Cog3: exp(b t) makes b an inverse time and (k - v - 1) makes v a pure number, whatever the parameter blurbs say; the density
# exponent follows from the mass equation (r^(v-k-1); the docstring's b-k-1 cannot be meant since b carries 1/time)
_cog(3, lambda c: {"rho0": dim((RHO, 1), (LEN, -(c["v"] - k_of(c) - 1))), "b": dim((TIME, -1)), "Gamma": GASCONST},
     lambda c: [("doc:exp(b t)", [{}, {"b": 1, "t": 1}]),
                ("doc:rho = rho0 r^(v-k-1) e^(bt)", [{"@density": 1}, {"rho0": 1, "x": c["v"] - k_of(c) - 1}]),
                ("doc:u = -(b/v) r", [{"@velocity": 1}, {"b": 1, "x": 1}]),
                ("doc:T = b^2 r^2/(v^2 Gamma (k-v-1))", [{"@temperature": 1}, {"b": 2, "x": 2, "Gamma": -1}])])


def _cog4_p(c):
    k, g = k_of(c), c["gamma"]
    return {"rho0": dim((RHO, 1), (LEN, 2 * k / (g + 1))), "u0": dim((VEL, 1), (LEN, k * (g - 1) / (g + 1))), "Gamma": GASCONST}


def _cog4_r(c):
    k, g = k_of(c), c["gamma"]
    return [("doc:rho = rho0 r^(-2k/(gamma+1))", [{"@density": 1}, {"rho0": 1, "x": -2 * k / (g + 1)}]),
            ("doc:u = u0 r^(-k(gamma-1)/(gamma+1))", [{"@velocity": 1}, {"u0": 1, "x": -k * (g - 1) / (g + 1)}]),
            ("doc:T ~ u0^2/Gamma r^(-2k(gamma-1)/(gamma+1))", [{"@temperature": 1}, {"u0": 2, "Gamma": -1, "x": -2 * k * (g - 1) / (g + 1)}])]


_cog(4, _cog4_p, _cog4_r)
_cog(5, lambda c: {"rho0": dim((RHO, 1), (LEN, 2)), "u0": dim((VEL, 1), (TIME, -1)), "Gamma": GASCONST},
     lambda c: [("doc:rho = rho0 r^-2", [{"@density": 1}, {"rho0": 1, "x": -2}]),
                ("doc:u = u0 t", [{"@velocity": 1}, {"u0": 1, "t": 1}]),
                ("doc:T = u0 r/Gamma", [{"@temperature": 1}, {"u0": 1, "x": 1, "Gamma": -1}])])
_cog(6, lambda c: {"rho0": dim((RHO, 1), (LEN, -c["b"]), (TIME, k_of(c) + 1 + c["b"])), "tau": TIME, "Gamma": GASCONST},
     lambda c: [("doc:tau^2 - t^2", [{"tau": 1}, {"t": 1}]),
                ("doc:rho = rho0 r^b/(tau^2-t^2)^((k+1+b)/2)", [{"@density": 1}, {"rho0": 1, "x": c["b"], "t": -(k_of(c) + 1 + c["b"])}]),
                ("doc:u = -r t/(tau^2-t^2)", [{"@velocity": 1}, {"x": 1, "t": -1}]),
                ("doc:T = tau^2 r^2/(Gamma (b+2)(tau^2-t^2)^2)", [{"@temperature": 1}, {"tau": 2, "x": 2, "Gamma": -1, "t": -4}])])


def _cog7_rho(c):
    """Dimension the *documented* Cog7 density formula has: it contains no density coefficient, i.e. the density is
    returned in units fixed by R0, Ri, tau (for k=2 it is normalised to 1 at r=R0, t=0)."""
    k = k_of(c)
    g = (k + 3.0) / (k + 1.0)
    b = c["b"]
    c1 = 2 - b / g
    c2 = 1 / (g - 1)
    c3 = k + 1 - b / g
    c5 = ((k + 1) * g - 1 - b) / (g - 1)
    return dim((LEN, b / g), (TIME, c5), (LEN, -c1 * c2), (LEN, -k - 1), (VEL, c3), (VEL, c1 * c2))


def _cog7_f(c):
    r = _cog7_rho(c)
    return {"density": r, "pressure": dim((r, 1), (SIE, 1))}


def _cog7_rel(c):
    k = k_of(c)
    g = (k + 3.0) / (k + 1.0)
    b = c["b"]
    c1, c2, c3 = 2 - b / g, 1 / (g - 1), k + 1 - b / g
    c5 = ((k + 1) * g - 1 - b) / (g - 1)
    return [("doc:tau^2 - t^2", [{"tau": 1}, {"t": 1}]), ("doc:R0, Ri lengths", [{"R0": 1}, {"Ri": 1}, {"x": 1}]),
            ("doc:rho = R0^(b/g) tau^c5 (R0^c1-Ri^c1)^-c2 r^(-k-1) (r/s)^c3 [(r/s)^c1 - (Ri/tau)^c1]^c2",
             [{"@density": 1}, {"R0": b / g - c1 * c2, "tau": c5, "x": -k - 1 + c3 + c1 * c2, "t": -c3 - c1 * c2}]),
            ("doc:u = -r t/(tau^2-t^2)", [{"@velocity": 1}, {"x": 1, "t": -1}]),
            ("doc:T = tau^2 (g-1)/(Gamma(2g-b)) r^-2 (r/s)^(2+b/g) [(r/s)^(2-b/g) - ...]",
             [{"@temperature": 1}, {"tau": 2, "Gamma": -1, "x": -2 + 4, "t": -4}])]


_cog(7, lambda c: {"tau": TIME, "R0": LEN, "Ri": LEN, "Gamma": GASCONST}, _cog7_rel, gens=("L", "T", "Th"), fdims=_cog7_f)


def _cog8_e(c):
    k = k_of(c)
    c1 = (k - 1) / (c["beta"] - c["alpha"] + 4)
    return c1, (k + 1) + c1, (1 - c["gamma"]) * (k + 1) + c1


_cog(8, lambda c: {"rho0": dim((RHO, 1), (LEN, -_cog8_e(c)[0]), (TIME, _cog8_e(c)[1])),
                   "temp0": dim((TEMP, 1), (LEN, _cog8_e(c)[0]), (TIME, -_cog8_e(c)[2])), "Gamma": GASCONST},
     lambda c: [("doc:rho = rho0 r^((k-1)/(beta-alpha+4)) t^(-(k+1)-(k-1)/(beta-alpha+4))",
                 [{"@density": 1}, {"rho0": 1, "x": _cog8_e(c)[0], "t": -_cog8_e(c)[1]}]),
                ("doc:u = r/t", [{"@velocity": 1}, {"x": 1, "t": -1}]),
                ("doc:T = T0 r^((1-k)/(beta-alpha+4)) t^((1-gamma)(k+1)+(k-1)/(beta-alpha+4))",
                 [{"@temperature": 1}, {"temp0": 1, "x": -_cog8_e(c)[0], "t": _cog8_e(c)[2]}])])


def _cog9_e(c):
    k = k_of(c)
    c1 = 2 * c["beta"] + k + 7
    c3 = 2 + (c["gamma"] - 1) * (k + 1)
    return -c1 / c["alpha"], -2 * (c["alpha"] * (k + 1) - c1) / c["alpha"] / c3


_cog(9, lambda c: {"rho0": dim((RHO, 1), (LEN, -_cog9_e(c)[0]), (TIME, -_cog9_e(c)[1])), "Gamma": GASCONST},
     lambda c: [("doc:rho = rho0 r^(-(2beta+k+7)/alpha) t^(-2[alpha(k+1)-2beta-k-7]/alpha[2+(gamma-1)(k+1)])",
                 [{"@density": 1}, {"rho0": 1, "x": _cog9_e(c)[0], "t": _cog9_e(c)[1]}]),
                ("doc:u ~ r/t", [{"@velocity": 1}, {"x": 1, "t": -1}]),
                ("doc:T ~ (r/t)^2/Gamma", [{"@temperature": 1}, {"Gamma": -1, "x": 2, "t": -2}])])


def _cog11_e(c):
    k = k_of(c)
    c1 = (c["gamma"] - 1) * (k + 1)
    return c1 - 2, 1 - k - c1, 2 - c1


_cog(11, lambda c: {"rho0": dim((RHO, 1), (LEN, -_cog11_e(c)[0]), (TIME, -_cog11_e(c)[1])),
                    "temp0": dim((TEMP, 1), (LEN, -_cog11_e(c)[2]), (TIME, 2)), "Gamma": GASCONST},
     lambda c: [("doc:rho = rho0 r^((gamma-1)(k+1)-2) t^(1-k-(gamma-1)(k+1))", [{"@density": 1}, {"rho0": 1, "x": _cog11_e(c)[0], "t": _cog11_e(c)[1]}]),
                ("doc:u = r/t", [{"@velocity": 1}, {"x": 1, "t": -1}]),
                ("doc:T = T0 r^(2-(gamma-1)(k+1)) t^-2", [{"@temperature": 1}, {"temp0": 1, "x": _cog11_e(c)[2], "t": -2}])])
_cog(12, _cog4_p, _cog4_r)


def _cog18_e(c):
    k = k_of(c)
    c1 = -(2 * c["beta"] + k + 7) / c["alpha"]
    return c1, -(k + 1) / 2.0 - c1 / 2.0


_cog(18, lambda c: {"rho0": dim((RHO, 1), (LEN, -_cog18_e(c)[0]), (TIME, -2 * _cog18_e(c)[1])), "tau": TIME, "Gamma": GASCONST},
     lambda c: [("doc:tau^2 - t^2", [{"tau": 1}, {"t": 1}]),
                ("doc:rho = rho0 r^(-(2beta+k+7)/alpha) (tau^2-t^2)^(-(k+1)/2+(2beta+k+7)/2alpha)",
                 [{"@density": 1}, {"rho0": 1, "x": _cog18_e(c)[0], "t": 2 * _cog18_e(c)[1]}]),
                ("doc:u = -r t/(tau^2-t^2)", [{"@velocity": 1}, {"x": 1, "t": -1}]),
                ("doc:T = alpha tau^2 r^2/(Gamma(...)(tau^2-t^2)^2)", [{"@temperature": 1}, {"tau": 2, "x": 2, "Gamma": -1, "t": -4}])])
_cog(19, lambda c: {"rho0": RHO, "u0": VEL, "Gamma": GASCONST},
     lambda c: [("doc:R = -(gamma-1) u0 t/2", [{"x": 1}, {"u0": 1, "t": 1}]),
                ("doc:rho ~ rho0", [{"@density": 1}, {"rho0": 1}]),
                ("doc:T = u0^2 (gamma-1)/(2 Gamma)", [{"@temperature": 1}, {"u0": 2, "Gamma": -1}])])
_cog(20, lambda c: {"rho0": RHO, "u0": VEL, "a": dim((TIME, -1)), "Gamma": GASCONST},
     lambda c: [("doc:1 - a t", [{}, {"a": 1, "t": 1}]),
                # the documented shock position u0 (gamma-1)/(4a) * t (1-2at)/(1-at) is length*time -- it is NOT a relation the table can be
                # asked to satisfy (see findings_proposed/C08.md); the length u0/a that it is presumably meant to be is checked instead
                ("doc:length scale u0/a", [{"x": 1}, {"u0": 1, "a": -1}]),
                ("doc:rho ~ rho0", [{"@density": 1}, {"rho0": 1}]),
                ("doc:u = (u0 - a r)/(1 - a t)", [{"@velocity": 1}, {"u0": 1}, {"a": 1, "x": 1}]),
                ("doc:T = u0^2 (gamma-1)/(2 Gamma)(1-at)^-2", [{"@temperature": 1}, {"u0": 2, "Gamma": -1}])],
     # which side of the shock a point is on, read from the returned fields (post-shock region 1 has T > 0)
     side=lambda sol: np.asarray(sol["temperature"], float) > 0)
_cog(21, lambda c: {"rho0": dim((RHO, 1), (LEN, 3)), "temp0": dim((TEMP, 1), (LEN, -3)), "Gamma": GASCONST},
     lambda c: [("doc:R = 2/(Gamma T0 t^2)", [{"x": 1}, {"Gamma": -1, "temp0": -1, "t": -2}]),
                ("doc:rho = rho0 r^-3", [{"@density": 1}, {"rho0": 1, "x": -3}]),
                ("doc:u = r/t", [{"@velocity": 1}, {"x": 1, "t": -1}]),
                ("doc:T = T0 r^3", [{"@temperature": 1}, {"temp0": 1, "x": 3}])])

# ---- EHEP (xmax, tmax, xtilde are dimensional inputs) ------------------------------------------------------------
_ehep = hydro.by_name("EHEP")
_ehep_alpha = dict(_ehep["alphabet"])
_ehep_alpha.update({"xmax": [10.0, 7.0], "tmax": [10.0, 14.0]})
reg("EHEP", hydro="EHEP", alphabet=_ehep_alpha, fields=GAS_FIELDS | {"sound_speed"}, labels=("region",),
    pdims=lambda c: {"D": VEL, "rho_0": RHO, "up": VEL, "xtilde": LEN, "xmax": LEN, "tmax": TIME},
    relations=lambda c: rel_euler(GAS_FIELDS | {"sound_speed"}) + [
        ("doc:c = (x/t + D/2)/2", [{"@sound_speed": 1}, {"x": 1, "t": -1}, {"D": 1}, {"up": 1}]),
        ("doc:p = 16/27 rho_0 D^2 (c/D)^3", [{"@pressure": 1}, {"rho_0": 1, "D": 2}]),
        ("doc:rho = 16/9 rho_0 c/D", [{"@density": 1}, {"rho_0": 1}]),
        ("doc:ttilde = xtilde/D", [{"xtilde": 1}, {"x": 1}, {"xmax": 1}, {"D": 1, "tmax": 1}])])

# ---- Mader -----------------------------------------------------------------------------------------------------
reg("Mader", hydro="Mader", fields={"velocity", "pressure", "sound_speed", "density", "xdet"}, cls="C", tol=1e-10,
    pdims=lambda c: {"p_cj": PRES, "d_cj": VEL, "u_piston": VEL},
    relations=lambda c: rel_euler({"velocity", "pressure", "sound_speed", "density"}) + [
        ("doc:p_cj = rho0 D^2/(gamma+1)", [{"p_cj": 1}, {"@density": 1, "d_cj": 2}]),
        ("doc:x_det = D t", [{"@xdet": 1}, {"d_cj": 1, "t": 1}, {"x": 1}]),
        ("doc:u = (2x/t - D)/(gamma+1) - u_piston", [{"@velocity": 1}, {"x": 1, "t": -1}, {"d_cj": 1}, {"u_piston": 1}])])

# ---- EP piston ---------------------------------------------------------------------------------------------------
_epp = hydro.by_name("EPpiston")
reg("EPpiston", hydro="EPpiston", fields=GAS_FIELDS | {"deviatoric stress"}, cls="B", tol=1e-9,
    pdims=lambda c: {"up": VEL, "Y": PRES, "G": PRES, "rho0": RHO, "c0": VEL},
    relations=lambda c: rel_euler(GAS_FIELDS) + [
        ("doc:Ph = rho0 c0^2 eta/(1-s0 eta)^2", [{"@pressure": 1}, {"rho0": 1, "c0": 2}, {"Y": 1}, {"G": 1}, {"@deviatoric stress": 1}]),
        ("doc:wave speeds", [{"x": 1, "t": -1}, {"c0": 1}, {"up": 1}]),
        ("doc:rho_y = rho0/(1 - Y/2G)", [{"@density": 1}, {"rho0": 1}])],
    domain=lambda c, t: None)

# ---- Guderley: the shock trajectory r_s = (-t_L)^(1/lambda) and t_C = 0.750024322 (t_L + 1) hard-wire the length and time
# units (initial shock radius 1, focus at t = 0.750024322); the unit changes that keep those constants are M arbitrary and
# (L, T) = (a^(1/lambda), a) acting on the Lazarus time.  Handled by props/C08.py (special generators).
# roots: two deviations ((geometry, gamma) x time interact: the branches behind the reflected shock are reached only after focus); one time
# before (t_L = -0.6) and one after focus (t_L = +0.6) cover the four branches of ramsey.state
reg("Guderley", hydro="Guderley", fields=GAS_FIELDS | {"sound_speed"}, cls="B", tol=1e-9, gens=("M", "LT"), jtol=1e-9, rootK=2,
    times=lambda c: [0.3, 1.2],
    pdims=lambda c: {"rho0": RHO},
    relations=lambda c: rel_euler(GAS_FIELDS | {"sound_speed"}) + [("doc:rho(r,0) = rho0", [{"@density": 1}, {"rho0": 1}])],
    resolve=lambda c: {"geometry": c["_pair"][0], "gamma": c["_pair"][1], "rho0": c["rho0"]})

# ---- burn-time solvers (2D/3D point arrays; the time argument is ignored) ----------------------------------------
_GEOXD = {"Kenamond1": {2: [[0.0, 0.0], [1.5, -0.5]], 3: [[0.0, 0.0, 0.0], [1.5, -0.5, 2.0]]},
          "Kenamond3": {2: [[0.0, 5.0], [2.0, 4.5]], 3: [[0.0, 5.0, 0.0], [2.0, 4.5, -1.0]]}}


def _ken_res(name):
    def f(c):
        k = {a: b for a, b in c.items() if not a.startswith("_")}
        k["x_d"] = tuple(_GEOXD[name][c["geometry"]][c["_xd"]])
        return k
    return f


def _grid(dimn, lo, hi, n):
    ax = np.linspace(lo, hi, n)
    if dimn == 2:
        X, Y = np.meshgrid(ax, ax * 0.93 + 0.11, indexing="ij")
        return np.column_stack([X.ravel(), Y.ravel()])
    X, Y, Z = np.meshgrid(ax, ax * 0.93 + 0.11, ax * 1.07 - 0.13, indexing="ij")
    return np.column_stack([X.ravel(), Y.ravel(), Z.ravel()])


reg("Kenamond1", path="kenamond.kenamond1.Kenamond1", layout="xy", gens=("L", "T"), fields={"burntime"},
    alphabet={"geometry": [2, 3], "D": [1.0, 2.5], "_xd": [0, 1], "t_d": [0.0, 0.7]},
    resolve=_ken_res("Kenamond1"), times=lambda c: [1.0],
    pdims=lambda c: {"D": VEL, "x_d": LEN, "t_d": TIME},
    relations=lambda c: [("doc:t = t_d + |x - x_d|/D", [{"@burntime": 1}, {"t_d": 1}, {"x": 1, "D": -1}, {"x_d": 1, "D": -1}, {"t": 1}])],
    points=lambda c, s: _grid(c["geometry"], -6.0, 7.0, 7 if c["geometry"] == 2 else 4))
reg("Kenamond2", path="kenamond.kenamond2.Kenamond2", layout="xy", gens=("L", "T"), fields={"burntime"},
    alphabet={"geometry": [2, 3], "R": [3.0, 2.0], "D1": [2.0, 3.5], "D2": [1.0, 0.8],
              "dets": [[10.0, 5.0, -5.0, -10.0], [9.0, 6.0, -4.0, -8.0]], "t_d": [[2.0, 1.0, 0.0, 1.0, 2.0], [3.0, 2.5, 0.5, 2.0, 4.0]]},
    times=lambda c: [1.0],
    pdims=lambda c: {"R": LEN, "D1": VEL, "D2": VEL, "dets": LEN, "t_d": TIME},
    relations=lambda c: [("doc:t_i = t_di + |p - x_di|/D2, t_4 = ... + R(1/D1 - 1/D2)",
                          [{"@burntime": 1}, {"t_d": 1}, {"x": 1, "D2": -1}, {"dets": 1, "D1": -1}, {"R": 1, "D1": -1}])],
    points=lambda c, s: _grid(c["geometry"], -12.0, 12.5, 9 if c["geometry"] == 2 else 5))


def _ken3_pts(c, s):
    p = _grid(c["geometry"], -7.0, 7.5, 9 if c["geometry"] == 2 else 5)
    r = np.sqrt((p ** 2).sum(axis=1))
    return p[r > 1.02 * c["R"]]


reg("Kenamond3", path="kenamond.kenamond3.Kenamond3", layout="xy", gens=("L", "T"), fields={"burntime"},
    alphabet={"geometry": [2, 3], "R": [3.0, 1.5], "D": [2.0, 0.7], "_xd": [0, 1], "t_d": [0.0, 0.4]},
    resolve=_ken_res("Kenamond3"), times=lambda c: [1.0],
    pdims=lambda c: {"R": LEN, "D": VEL, "x_d": LEN, "t_d": TIME},
    relations=lambda c: [("doc:t = t_d + (l_da + R theta + l_bp)/D", [{"@burntime": 1}, {"t_d": 1}, {"x": 1, "D": -1}, {"R": 1, "D": -1}, {"x_d": 1, "D": -1}])],
    points=_ken3_pts)


def _dsd_pts(c, s):
    rr = np.concatenate([np.linspace(0.2 * c["r_1"], 0.95 * c["r_1"], 3), np.linspace(1.02 * c["r_1"], 0.98 * c["r_2"], 8),
                         np.linspace(1.02 * c["r_2"], 3.0 * c["r_2"], 8)])
    th = np.array([0.0, 0.7, 2.1, 3.9, 5.5])
    R, TH = np.meshgrid(rr, th, indexing="ij")
    return np.column_stack([(R * np.cos(TH)).ravel(), (R * np.sin(TH)).ravel()])


reg("CylindricalExpansion", path="dsd.cylexpansion.CylindricalExpansion", layout="xy", gens=("L", "T"), fields={"burntime"},
    alphabet={"r_1": [1.0, 1.5], "r_2": [2.0, 3.0], "D_CJ_1": [0.5, 0.8], "D_CJ_2": [1.0, 0.6], "alpha_1": [0.1, 0.05, 0.0],
              "alpha_2": [0.1, 0.2], "t_d": [0.0, 0.3]},
    times=lambda c: [1.0],
    pdims=lambda c: {"r_1": LEN, "r_2": LEN, "D_CJ_1": VEL, "D_CJ_2": VEL, "alpha_1": DIFFUS, "alpha_2": DIFFUS, "t_d": TIME},
    relations=lambda c: [("doc:D_n = D_CJ - alpha kappa", [{"D_CJ_1": 1}, {"alpha_1": 1, "x": -1}, {"D_CJ_2": 1}, {"alpha_2": 1, "x": -1}]),
                         ("doc:D_CJ (t - t0) = (r - r0) + alpha/D_CJ ln(...)", [{"D_CJ_1": 1, "@burntime": 1}, {"r_1": 1}, {"r_2": 1}, {"x": 1},
                                                                               {"alpha_1": 1, "D_CJ_1": -1}, {"D_CJ_1": 1, "t_d": 1}])],
    points=_dsd_pts)

# ---- Blake -------------------------------------------------------------------------------------------------------
# index 0 = the documented default material, passed explicitly so that it can be re-expressed in other units
_BLAKE_PAIRS = [{"lame_mod": 25.0e9, "shear_mod": 25.0e9}, {"lame_mod": 2.0e10, "shear_mod": 3.0e10}, {"youngs_mod": 5.0e10, "poisson_ratio": 0.3},
                {"bulk_mod": 4.0e10, "shear_mod": 2.0e10}, {"long_mod": 9.0e10, "poisson_ratio": 0.2}]


def _blake_res(c):
    k = {"ref_density": c["ref_density"], "cavity_radius": c["cavity_radius"], "pressure_scale": c["pressure_scale"]}
    if _BLAKE_PAIRS[c["_elastic"]]:
        k.update(_BLAKE_PAIRS[c["_elastic"]])
    return k


_BLAKE_FIELDS = {"curr_posn", "displacement", "strain_rr", "strain_qq", "strain_vol", "density", "stress_rr", "stress_qq", "pressure",
                 "stress_dev_rr", "stress_dev_qq", "stress_diff"}
reg("Blake", path="blake.blake.Blake", fields=_BLAKE_FIELDS, tol=1e-10,      # measured worst 1.9e-12 (see props/C08.py TOL_NOTE)
    alphabet={"ref_density": [3000.0, 2000.0], "cavity_radius": [0.1, 0.25], "pressure_scale": [1.0e6, 3.0e6], "_elastic": [0, 1, 2, 3, 4]},
    resolve=_blake_res, times=lambda c: [1.6e-4, 5.0e-5],
    pdims=lambda c: {"ref_density": RHO, "cavity_radius": LEN, "pressure_scale": PRES, "lame_mod": PRES, "shear_mod": PRES,
                     "youngs_mod": PRES, "bulk_mod": PRES, "long_mod": PRES},
    relations=lambda c: [("doc:c_L^2 = M/rho; wave equation (r phi)_tt = c_L^2 (r phi)_rr", [{"long_mod": 1, "ref_density": -1}, {"x": 2, "t": -2}]),
                         ("doc:sigma_rr(a,t) = -P0", [{"@stress_rr": 1}, {"pressure_scale": 1}, {"lame_mod": 1, "@strain_rr": 1},
                                                       {"shear_mod": 1}, {"youngs_mod": 1}, {"bulk_mod": 1}, {"@pressure": 1}]),
                         ("doc:strain = du/dr, u/r", [{"@strain_rr": 1}, {"@displacement": 1, "x": -1}]),
                         ("doc:rho = rho_ref/(1 + strain_vol)", [{"@density": 1}, {"ref_density": 1}]),
                         ("doc:lengths", [{"cavity_radius": 1}, {"x": 1}, {"@curr_posn": 1}])],
    domain=lambda c, t: (c["cavity_radius"], c["cavity_radius"] + 1.4 * 5500.0 * t), njumps=1)

# ---- heat conduction: rod family and Hutchens 1 -------------------------------------------------------------------
_ROD_BC = {  # alpha1, beta1, alpha2, beta2, (gamma1, gamma2) of the non-homogeneous variant
    "BC1": (1.0, 0.0, 1.0, 0.0, (0.5, 1.5)), "BC2": (0.0, 1.0, 0.0, 1.0, (0.4, 0.4)), "BC3": (1.0, 0.0, 0.0, 1.0, (0.5, 0.4)),
    "BC4": (0.0, 1.0, 1.0, 0.0, (0.4, 1.5)), "gen1": (1.0, -0.5, 1.0, 0.7, (0.5, 1.5)), "gen2": (0.0, 1.0, 1.0, 0.7, (0.4, 1.5))}


def _rod_res(c):
    a1, b1, a2, b2, g = _ROD_BC[c["_bc"]]
    g1, g2 = g if c["_nonhom"] else (0.0, 0.0)
    return {"kappa": c["kappa"], "TL": c["TL"], "TR": c["TR"], "L": c["L"], "Nsum": c["Nsum"], "alpha1": a1, "beta1": b1, "gamma1": g1,
            "alpha2": a2, "beta2": b2, "gamma2": g2}


_HEAT_REL = [("pde:T_t = kappa T_xx", [{"@temperature": 1, "t": -1}, {"kappa": 1, "@temperature": 1, "x": -2}])]
reg("Rod1D", path="heat.rod1d.Rod1D", fields={"temperature"}, gens=("L", "T", "Th"), cls="D", tol=1e-10,
    alphabet={"_bc": ["BC1", "BC2", "BC3", "BC4", "gen1", "gen2"], "_nonhom": [0, 1], "kappa": [1.0, 0.3], "TL": [3.0, 2.0], "TR": [3.0, 5.0],
              "L": [2.0, 3.5], "Nsum": [100, 40]},
    resolve=_rod_res, times=lambda c: [0.1, 0.5], rootK=2,
    pdims=lambda c: {"kappa": DIFFUS, "TL": TEMP, "TR": TEMP, "L": LEN, "beta1": LEN, "beta2": LEN, "gamma1": TEMP, "gamma2": TEMP},
    relations=lambda c: _HEAT_REL + [("doc:BC alpha T + beta dT/dx = gamma", [{"@temperature": 1}, {"beta1": 1, "@temperature": 1, "x": -1}, {"gamma1": 1},
                                                                           {"beta2": 1, "@temperature": 1, "x": -1}, {"gamma2": 1}]),
                                     ("doc:IC T(x,0) = TL + (TR-TL) x/L", [{"@temperature": 1}, {"TL": 1}, {"TR": 1, "x": 1, "L": -1}])],
    domain=lambda c, t: (0.0, c["L"]))
for _nm, _path, _alpha, _pd, _rl in (
        ("PlanarSandwich", "heat.planar_sandwich.PlanarSandwich",
         {"kappa": [1.0, 0.3], "L": [2.0, 3.5], "TB": [1.0, 2.5], "TT": [0.0, 0.6], "TL": [0.0, 0.8], "TR": [0.0, 1.7], "Nsum": [10000, 60]},
         {"kappa": DIFFUS, "L": LEN, "TB": TEMP, "TT": TEMP, "TL": TEMP, "TR": TEMP},
         [("doc:T(0,t) = TB, T(L,t) = TT", [{"@temperature": 1}, {"TB": 1}, {"TT": 1}, {"TL": 1}, {"TR": 1}]), ("doc:L", [{"L": 1}, {"x": 1}])]),
        ("PlanarSandwichHalf", "heat.planar_sandwich_half.PlanarSandwichHalf",
         {"kappa": [1.0, 0.3], "L": [2.0, 3.5], "TB": [1.0, 2.5], "FT": [0.0, 0.6], "TL": [3.0, 0.8], "TR": [3.0, 1.7], "Nsum": [10000, 60]},
         {"kappa": DIFFUS, "L": LEN, "TB": TEMP, "FT": dim((TEMP, 1), (LEN, -1)), "TL": TEMP, "TR": TEMP},
         [("doc:T(0,t) = TB, dT/dx(L,t) = FT", [{"@temperature": 1}, {"TB": 1}, {"FT": 1, "x": 1}, {"TL": 1}, {"TR": 1}]), ("doc:L", [{"L": 1}, {"x": 1}])]),
        ("PlanarSandwichHot", "heat.planar_sandwich_hot.PlanarSandwichHot",
         {"kappa": [1.0, 0.3], "L": [2.0, 3.5], "F": [0.0, 0.6], "TL": [3.0, 0.8], "TR": [3.0, 1.7], "Nsum": [10000, 60]},
         {"kappa": DIFFUS, "L": LEN, "F": dim((TEMP, 1), (LEN, -1)), "TL": TEMP, "TR": TEMP},
         [("doc:dT/dx = F at both ends", [{"@temperature": 1}, {"F": 1, "x": 1}, {"TL": 1}, {"TR": 1}]), ("doc:L", [{"L": 1}, {"x": 1}])])):
    reg(_nm, path=_path, fields={"temperature"}, gens=("L", "T", "Th"), cls="D", tol=1e-10, alphabet=_alpha, times=lambda c: [0.1, 0.5],
        pdims=lambda c, _p=_pd: dict(_p), relations=lambda c, _r=_rl: _HEAT_REL + _r, domain=lambda c, t: (0.0, c["L"]))
reg("Hutchens1", path="heat.hutchens1.Hutchens1", fields={"temperature"}, gens=("M", "L", "T", "Th"), cls="D", tol=1e-10, xname="radius",
    alphabet={"k": [8.4695e10, 2.0e10], "cp": [5.2441e10, 9.0e10], "rho": [7.897, 2.7], "b": [1.0, 2.5], "Tb": [5.0, 0.5], "T0": [1.0, 3.0],
              "Nsum": [100, 40]},
    times=lambda c: [1.0, 0.1],
    pdims=lambda c: {"k": dim((MASS, 1), (LEN, 1), (TIME, -3), (TEMP, -1)), "cp": GASCONST, "rho": RHO, "b": LEN, "Tb": TEMP, "T0": TEMP},
    relations=lambda c: [("pde:T_t = k/(rho cp) lap T", [{"@temperature": 1, "t": -1}, {"k": 1, "rho": -1, "cp": -1, "@temperature": 1, "x": -2}]),
                         ("doc:T(b,t) = Tb, T(r,0) = T0", [{"@temperature": 1}, {"Tb": 1}, {"T0": 1}]), ("doc:b", [{"b": 1}, {"x": 1}])],
    domain=lambda c, t: (0.02 * c["b"], 0.98 * c["b"]))

ORDER = ["Noh", "Noh2", "Sedov", "IGEOS", "IGEOS_table", "GenEOS", "GenEOS_table", "Guderley"] + \
        ["Cog%d" % n for n in (1, 2, 3, 4, 5, 6, 7, 8, 9, 11, 12, 18, 19, 20, 21)] + \
        ["EHEP", "Mader", "Kenamond1", "Kenamond2", "Kenamond3", "CylindricalExpansion", "Blake", "EPpiston", "Rod1D", "PlanarSandwich",
         "PlanarSandwichHalf", "PlanarSandwichHot", "Hutchens1"]

# ----------------------------------------------------------------------------------------------------------------
# table access + start-up homogeneity check
# ----------------------------------------------------------------------------------------------------------------


def kwargs_of(f, cfg):
    if "resolve" in f:
        return {k: v for k, v in f["resolve"](cfg).items() if not k.startswith("_")}
    return {k: v for k, v in cfg.items() if not k.startswith("_")}


def param_dims(f, cfg):
    d = dict(f["pdims"](cfg))
    if "pdims_override" in f:
        d.update(f["pdims_override"](cfg))
    return d


def field_dims(f, cfg):
    d = {n: FIELD_DIMS[n] for n in f["fields"]}
    if "fdims" in f:
        d.update(f["fdims"](cfg))
    return d


def active_components(f):
    comp = set()
    for g in f["gens"]:
        if g == "LT":
            comp |= {1, 2}
        else:
            comp.add(DIMS.index(g))
    return sorted(comp)


class TableError(RuntimeError):
    pass


def check_table(f, cfg):
    """Every documented relation must be dimensionally homogeneous under the table (on the components the family's generators
    act on); every dimensional constructor kwarg must be in the table; every numeric returned field must have a dimension."""
    pd = param_dims(f, cfg)
    fd = field_dims(f, cfg)
    sym = dict(pd)
    sym.update({"@" + n: d for n, d in fd.items()})
    sym["x"] = LEN
    sym["t"] = f.get("tdim", TIME)
    comps = active_components(f)
    n = 0
    for label, terms in f["relations"](cfg):
        vecs = []
        for term in terms:
            v = [0.0] * 4
            for s, p in term.items():
                if s not in sym:
                    raise TableError("%s: relation %r uses unknown symbol %r" % (f["name"], label, s))
                for i in range(4):
                    v[i] += sym[s][i] * p
            vecs.append(v)
        for v in vecs[1:]:
            for i in comps:
                if abs(v[i] - vecs[0][i]) > 1e-9 * (1.0 + abs(v[i])):
                    raise TableError("%s cfg=%r: relation %r is not homogeneous in %s under the exponent table: %r vs %r"
                                     % (f["name"], cfg, label, DIMS[i], vecs[0], v))
        n += 1
    kw = kwargs_of(f, cfg)
    for p in pd:
        if p not in kw and p not in ("lame_mod", "shear_mod", "youngs_mod", "bulk_mod", "long_mod", "A", "B", "r0", "e0"):
            raise TableError("%s: table lists parameter %r which is not a constructor argument of this root" % (f["name"], p))
    return n


# ----------------------------------------------------------------------------------------------------------------
# applying a unit change to a problem instance
# ----------------------------------------------------------------------------------------------------------------


def scale_value(v, fac):
    if isinstance(v, (list, tuple)):
        return type(v)(scale_value(x, fac) for x in v)
    return v * fac


def scaled_kwargs(f, cfg, scale):
    kw = kwargs_of(f, cfg)
    pd = param_dims(f, cfg)
    out = {}
    for k, v in kw.items():
        if k in pd and not isinstance(v, (str, bool)) and v is not None:
            out[k] = scale_value(v, factor(scale, pd[k]))
        else:
            out[k] = v
    return out


def build(f, kwargs):
    if f["name"] == "Guderley":
        from . import guderley_cache
        guderley_cache.install()
    return construct(f["path"], kwargs)


# ----------------------------------------------------------------------------------------------------------------
# root point lattices (kept a small distance away from located structure points)
# ----------------------------------------------------------------------------------------------------------------


def numeric_fields(sol, f):
    skip = 1 if f["layout"] == "1d" else None
    names = list(sol.dtype.names)
    if f["layout"] == "1d":
        names = names[1:]
    else:
        names = [n for n in names if not n.startswith("position")]
    return [n for n in names if sol[n].dtype.kind in "fiu"]


def root_points(f, cfg, t, s):
    """-> (points array, classes array of str, njumps, ncalls).  classes: 'lattice' | 'front-1e-6' | 'front-1e-3'."""
    if f["layout"] == "xy":
        p = np.asarray(f["points"](cfg, s), float)
        return p, np.array(["lattice"] * len(p)), 0, 0
    h = f.get("hyd")
    if h is not None and "points" in h and f["name"] != "EPpiston":
        pts, nj, nc = h["points"](cfg, t, s)
        return np.asarray(pts, float), np.array(["lattice"] * len(pts)), nj, nc
    if f["name"] == "EPpiston":
        a, b = 0.0, 1.25 * s.wv_el * t
        sentinel = [2.0 * s.wv_el * t]
    else:
        a, b = f["domain"](cfg, t)
        sentinel = []
    if h is not None and "cell" in h:        # GenEOS: class-C, jumps smeared over one internal cell
        call(s, np.array([a, b], float), t)     # the shared cell-size helper reads the public attribute x, which exists only after a call
        pts, nj, nc = hydro.sample_points(h, cfg, t, s)
        nc += 1
        return np.asarray(pts, float), np.array(["lattice"] * len(pts)), nj, nc
    calls = [0]

    def F(x):
        calls[0] += 1
        x = np.asarray(x, float)
        sol = call(s, np.concatenate([x, sentinel]) if sentinel else x, t)
        M = np.array([np.asarray(sol[n], float) for n in numeric_fields(sol, f)])
        return M[:, :len(x)]
    geometric = a > 0 and b / a > 20
    jumps = []
    if f.get("njumps", 0):
        jumps = oracle.locate_jumps(F, a, b, n=f.get("scan", 257), geometric=geometric, max_jumps=f.get("njumps", 8), tol=f.get("jtol", 1e-13))
    L = b - a
    pts = [(x, "lattice") for x in hydro.base_lattice(a, b, 24) if all(not (j["lo"] - 1e-7 * L < x < j["hi"] + 1e-7 * L) for j in jumps)]
    for j in jumps:
        for d, cl in ((1e-6, "front-1e-6"), (1e-3, "front-1e-3")):
            for x in (j["lo"] - d * L, j["hi"] + d * L):
                if a <= x <= b:
                    pts.append((x, cl))
    pts.sort()
    x = np.array([p[0] for p in pts] + sentinel)
    cl = np.array([p[1] for p in pts] + ["lattice"] * len(sentinel))
    return x, cl, len(jumps), calls[0]


def roots(f, K=1):
    """Default and K-deviation configurations over the family's alphabet extended by the time lattice ('_t' = index)."""
    alpha = dict(f["alphabet"])
    cfg0 = lattice.full_cfg(alpha, {})
    nt = len(f["times"](cfg0))
    alpha["_t"] = list(range(nt))
    return alpha, lattice.enumerate_checked(alpha, K)
