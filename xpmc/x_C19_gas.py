"""Textbook steady 2-D supersonic gas dynamics for the C19 oracle (nothing imported from exactpack).

Sources: Anderson, Modern Compressible Flow, ch. 4 (oblique shocks, Prandtl-Meyer expansion); Liepmann & Roshko ch. 4;
the Prandtl-Meyer function is also the one written in the package docstring of
exactpack/solvers/riemann2D_2section_steadystate/__init__.py.

Conventions: angles in radians, flow from left to right, theta = flow direction measured from +x, counter-clockwise
positive.  The *bottom* wave lies below the slip line and is crossed from below: a bottom shock sits at polar angle
theta_up - beta and turns the flow clockwise, a bottom fan consists of rays theta - mu and turns it counter-clockwise.
The *top* wave is the mirror image (shock at theta_up + beta turning counter-clockwise, fan rays theta + mu turning
clockwise).  `sgn` below is +1 for the top wave and -1 for the bottom wave, so that

    shock:  theta_down = theta_up + sgn*delta ,   polar angle of the shock  = theta_up + sgn*beta
    fan:    theta_down = theta_up - sgn*(nu(M_down) - nu(M_up)) ,   ray through a fan state = theta + sgn*mu(M)
"""
import math


def nu(M, g):
    """Prandtl-Meyer function (true form)."""
    k = math.sqrt((g + 1.0) / (g - 1.0))
    b = math.sqrt(max(M * M - 1.0, 0.0))
    return k * math.atan(b / k) - math.atan(b)


def nu_without_inner_sqrt(M, g):
    """The expression with arctan(M^2-1) in place of arctan(sqrt(M^2-1)) -- NOT the Prandtl-Meyer function; used only to
    recognise one recorded defect (reduced oracle for the known finding)."""
    k = math.sqrt((g + 1.0) / (g - 1.0))
    m = max(M * M - 1.0, 0.0)
    return k * math.atan(math.sqrt(m) / k) - math.atan(m)


def mu(M):
    return math.asin(1.0 / M)


def shock_from_pressure_ratio(M1, g, pr):
    """Oblique shock with upstream Mach number M1 and static pressure ratio pr = p2/p1 > 1.
    Returns dict(beta, delta, rho_ratio, M2) or None when no such shock exists (normal Mach number > M1)."""
    Mn1sq = 1.0 + (g + 1.0) / (2.0 * g) * (pr - 1.0)
    if not (Mn1sq >= 1.0) or Mn1sq > M1 * M1:
        return None
    Mn1 = math.sqrt(Mn1sq)
    beta = math.asin(Mn1 / M1)
    tan_delta = 2.0 / math.tan(beta) * (M1 * M1 * math.sin(beta) ** 2 - 1.0) / (M1 * M1 * (g + math.cos(2.0 * beta)) + 2.0)
    delta = math.atan(tan_delta)
    rho_ratio = (g + 1.0) * Mn1sq / ((g - 1.0) * Mn1sq + 2.0)
    Mn2sq = ((g - 1.0) * Mn1sq + 2.0) / (2.0 * g * Mn1sq - (g - 1.0))
    s = math.sin(beta - delta)
    M2 = math.sqrt(Mn2sq) / s if s > 0 else float("inf")
    return {"beta": beta, "delta": delta, "rho_ratio": rho_ratio, "M2": M2, "Mn1": Mn1}


def fan_mach_from_pressure_ratio(M1, g, pr):
    """Isentropic expansion at constant total enthalpy: Mach number reached at p2/p1 = pr < 1."""
    t = (1.0 + 0.5 * (g - 1.0) * M1 * M1) / pr ** ((g - 1.0) / g)
    return math.sqrt(max((t - 1.0) * 2.0 / (g - 1.0), 0.0))


# ------------------------------------------------------------------------------------------------
# reference solution (used only to CLASSIFY the cases in which the solver raises: does a regular solution exist?)
# ------------------------------------------------------------------------------------------------

def _weak_branch_limit(M1, g):
    """Largest pressure ratio on the weak, supersonic-downstream branch of the shock polar (first of: maximum
    deflection, sonic point), found by a scan + golden refinement; returns (pr_limit, delta_limit)."""
    pr_hi = 1.0 + 2.0 * g / (g + 1.0) * (M1 * M1 - 1.0)      # normal shock
    n = 4000
    best = (1.0, 0.0)
    prev_delta = 0.0
    for i in range(1, n + 1):
        pr = 1.0 + (pr_hi - 1.0) * i / n
        s = shock_from_pressure_ratio(M1, g, pr)
        if s is None or s["M2"] <= 1.0 or s["delta"] < prev_delta:
            break
        best = (pr, s["delta"])
        prev_delta = s["delta"]
    return best


def phi(state, sgn, p):
    """Flow direction behind the wave of family sgn that takes `state` = (p, rho, M, theta_rad, g) to pressure p."""
    p0, r0, M0, th0, g = state
    if p >= p0:
        s = shock_from_pressure_ratio(M0, g, p / p0)
        if s is None:
            return None
        return th0 + sgn * s["delta"]
    M = fan_mach_from_pressure_ratio(M0, g, p / p0)
    return th0 - sgn * (nu(M, g) - nu(M0, g))


def reference_solution(bottom, top):
    """bottom/top = (p, rho, M, theta_rad, g).  Returns dict(kind=..., p=..., delta=...) with kind in
    'regular' (a shock/fan - slip - shock/fan solution with supersonic star states exists),
    'vacuum' (the two fans do not meet), 'irregular' (needs a shock beyond the weak supersonic branch)."""
    def D(p):
        a, b = phi(top, +1, p), phi(bottom, -1, p)
        if a is None or b is None:
            return None
        return a - b
    # D is increasing in p.  p -> 0: complete expansion of both sides
    gB, gT = bottom[4], top[4]
    numax = lambda g: (math.sqrt((g + 1.0) / (g - 1.0)) - 1.0) * math.pi / 2.0
    D0 = top[3] - (numax(gT) - nu(top[2], gT)) - (bottom[3] + (numax(gB) - nu(bottom[2], gB)))
    if D0 >= 0.0:
        return {"kind": "vacuum"}
    prB, _ = _weak_branch_limit(bottom[2], gB)
    prT, _ = _weak_branch_limit(top[2], gT)
    phi_hi = min(prB * bottom[0], prT * top[0])
    Dhi = D(phi_hi)
    if Dhi is None or Dhi <= 0.0:
        return {"kind": "irregular"}
    lo, hi = 1e-12 * min(bottom[0], top[0]), phi_hi
    for _ in range(200):
        mid = 0.5 * (lo + hi)
        d = D(mid)
        if d is None or d > 0.0:
            hi = mid
        else:
            lo = mid
        if hi - lo <= 1e-15 * hi:
            break
    p = 0.5 * (lo + hi)
    kind = ("S" if p >= bottom[0] else "R") + "-C-" + ("S" if p >= top[0] else "R")
    return {"kind": "regular", "p": p, "delta": phi(top, +1, p), "morphology": kind}


# ------------------------------------------------------------------------------------------------
# the solver's own (documented) equations, used only to RECOGNISE recorded defects (reduced oracles)
# ------------------------------------------------------------------------------------------------

def documented_deflection(M, g, alpha):
    """theta_i of the package docstring: arctan[(alpha-1)/(gamma M^2-alpha+1) sqrt(2 gamma M^2/((gamma+1)alpha+gamma-1) - 1)]
    (the pressure-deflection shock polar; as an algebraic expression it is defined on both sides of alpha = 1)."""
    rad = 2.0 * g * M * M / ((g + 1.0) * alpha + g - 1.0) - 1.0
    if rad < 0:
        return float("nan")
    return math.atan((alpha - 1.0) / (g * M * M - alpha + 1.0) * math.sqrt(rad))


def branch_flow_angle(state, sgn, p, branch, nu_fn):
    """Flow direction behind the wave when the *named* branch formula ('S' shock polar / 'R' expansion with the
    Prandtl-Meyer-like function nu_fn) is applied at pressure p, whatever the sign of p - p0."""
    p0, r0, M0, th0, g = state
    if branch == "S":
        return th0 + sgn * documented_deflection(M0, g, p / p0)
    M = fan_mach_from_pressure_ratio(M0, g, p / p0)
    if not M >= 1.0:
        return float("nan")
    return th0 - sgn * (nu_fn(M, g) - nu_fn(M0, g))


def strictly_increasing(nu_fn, g, Ma, Mb, n=400):
    lo, hi = min(Ma, Mb), max(Ma, Mb)
    lo = max(lo, 1.0)
    prev = None
    for i in range(n + 1):
        v = nu_fn(lo + (hi - lo) * i / n, g)
        if prev is not None and not v > prev:
            return False
        prev = v
    return True


def max_deflection(M, g, n=20000):
    """Largest flow deflection an attached oblique shock can produce at upstream Mach number M (scan over beta)."""
    best = 0.0
    b0 = math.asin(1.0 / M)
    for i in range(1, n):
        b = b0 + (0.5 * math.pi - b0) * i / n
        t = 2.0 / math.tan(b) * (M * M * math.sin(b) ** 2 - 1.0) / (M * M * (g + math.cos(2.0 * b)) + 2.0)
        best = max(best, math.atan(t))
    return best
