"""Adapters between the solver families of xpmc.hydro / hydro_more and the profile functions of x_c02_jumps
(used by props/C02.py and props/C17.py).  Alphabets that the shared catalogue lacks are defined here.
No expected output values live here: only where to look (scan windows) and how to read the returned fields."""
import math

import numpy as np

from . import hydro, hydro_more, lattice  # noqa: F401  (hydro_more registers the remaining families)
from .hydro import G53
from .solvers import call, construct, get_class, Inadmissible

NAN = float("nan")


def _col(sol, name, n):
    if name in sol.dtype.names:
        return np.asarray(sol[name], float)
    return np.full(n, NAN)


def matrix(sol, n, e_from=None, sd=None):
    """(5, n) matrix rho, u, p, e, s' from a returned record array."""
    rho = _col(sol, "density", n)
    u = _col(sol, "velocity", n)
    p = _col(sol, "pressure", n)
    if "specific_internal_energy" in sol.dtype.names:
        e = _col(sol, "specific_internal_energy", n)
    elif "energy" in sol.dtype.names:
        e = _col(sol, "energy", n)
    elif e_from is not None:
        e = e_from(rho, u, p, sol)
    else:
        e = np.full(n, NAN)
    s = np.asarray(sol[sd], float) if sd else np.zeros(n)
    return np.array([rho, u, p, e, s])


class Adapter:
    """One constructed solver + how to evaluate it.  Fat(x, t) -> (5, n) matrix (x sorted ascending or not)."""
    arity = 8
    geometric = False
    scan = 513
    order = 4
    rel_steps = (1e-2, 3e-3, 1e-3)
    max_jumps = 4
    xtol = 1e-13                 # relative width of the final bracket around a located discontinuity
    q = 0.0                      # heat release of a detonation front (documented)
    energy = True
    origin = None                # (x0, t0) of a documented self-similar wave system: positions are x0 + s (t - t0)

    def __init__(self, fam, cfg):
        self.fam = fam
        self.cfg = cfg
        self.s = self.build()
        self.ncall = 0

    def build(self):
        return hydro.make(self.fam, self.cfg)

    def raw(self, x, t):
        self.ncall += 1
        return call(self.s, np.asarray(x, float), t)

    def Fat(self, x, t):
        x = np.asarray(x, float)
        return matrix(self.raw(x, t), len(x))

    def times(self):
        return list(self.fam["times"](self.cfg))

    def window(self, t):
        return self.fam["domain"](self.cfg, t)


class NohA(Adapter):
    origin = (0.0, 0.0)


class Cog20A(Adapter):
    pass


class Cog21A(Adapter):
    geometric = True
    scan = 2049

    def window(self, t):
        return 1e-4, 1e3


# ------------------------------------------------------------------------------ black-box Noh
# the shared catalogue fixes the initial state (1, -1, 0); the jump conditions contain rho0, u0 (and p0 in planar
# geometry), so they are varied here: `ic` = [density, velocity, pressure], values from the shipped examples
# (examples/nohblackbox.py) -- aluminium needs cgs-scale values.  The Newton iteration converges to the physical root
# only from some starting points (the class default finds a root with D = -1, rho ~ 0 for most gas EOS), so the
# guesses are part of the alphabet: the shipped examples' and two more.  The lattice is the full product (K = 4).
BBNOH_ALPHABET = {
    "geometry": [3, 1, 2],
    "eos": hydro_more.BBNOH_EOS,
    "ic": [[1, -1, 0], [3, -2, 0], [3, -2, 1], [2.7, -786.0, 20], [2.7, -786.0, 0]],
    "guess": [[5.0, 1.0, 1.0], [8.0, 0.7, 0.3], [50.0, 1.0, 0.5], [15.0, 1.0, 1.0], [2.7, 1.55174098e8, 524230.0], "default"],
}


class BBNohA(Adapter):
    origin = (0.0, 0.0)
    geometric = True
    scan = 1025
    max_jumps = 1

    def build(self):
        c = dict(self.cfg)
        ic = c.pop("ic", [1, -1, 0])
        c.update(density=ic[0], velocity=ic[1], pressure=ic[2])
        return hydro_more.bbnoh_build(c)

    def window(self, t):
        u0 = abs(self.cfg.get("ic", [1, -1, 0])[1])
        return 1e-3 * u0 * t, 1e4 * u0 * t


# ------------------------------------------------------------------------------ Riemann (ideal gas: sharp)
class IGEOSA(Adapter):
    scan = 2049
    max_jumps = 3
    arity = 64               # a call costs 3 ms whatever the batch: fewer, larger refinement batches

    def __init__(self, fam, cfg):
        super().__init__(fam, cfg)
        c = hydro_more._riemann_cfg(cfg)
        self.rc = c
        self.origin = (c["xd0"], 0.0)

    def window(self, t):
        return hydro_more.riemann_window(self.rc, t)

    def Fat(self, x, t):
        x = np.asarray(x, float)
        return matrix(self.raw(x, t), len(x))


# ------------------------------------------------------------------------------ elastic-plastic piston
class EPpistonA(Adapter):
    origin = (0.0, 0.0)
    max_jumps = 2
    SENTINEL = 50.0          # the solver refuses t > max(x)/wave speed: every batch carries a far sentinel point

    def Fat(self, x, t):
        x = np.asarray(x, float)
        sol = self.raw(np.append(x, self.SENTINEL), t)
        return matrix(sol, len(x) + 1, sd="deviatoric stress")[:, :-1]

    def window(self, t):
        return 0.0, 1.5 * t


# ------------------------------------------------------------------------------ EHEP (CJ detonation front)
class EHEPA(Adapter):
    max_jumps = 2
    # the solver assigns regions with a point-on-boundary test of tolerance 1e-12 on a *sum of distances*, i.e. a band of
    # ~sqrt(1e-12 L) ~ 1e-6 around every region boundary inside which the assignment is decided by rounding noise
    # (alternating on a 1e-10 scale): the front is located to 1e-8, coarser than that noise
    xtol = 1e-8

    def __init__(self, fam, cfg):
        super().__init__(fam, cfg)
        # documented: gamma = 3 CJ detonation of a polytropic gas, q = D^2 / (2 (gamma^2 - 1))
        self.q = cfg["D"] ** 2 / (2.0 * (cfg.get("gamma", 3.0) ** 2 - 1.0))


# ------------------------------------------------------------------------------ SDRZ (front of the reaction zone)
class SDRZA(Adapter):
    origin = (0.0, 0.0)
    max_jumps = 1
    energy = False

    def window(self, t):
        return 0.02 * self.cfg["D"] * t, 1.5 * self.cfg["D"] * t


# ------------------------------------------------------------------------------ Guderley
_B_MEMO = {}


def memo_shock_position():
    """get_shock_position(n, gamma, lambda) is a pure function of its arguments costing 0.4 s; the solver recomputes it
    on every call.  It is memoised *inside this process only* (computed by the real code once per task)."""
    import exactpack.solvers.guderley.ramsey as R
    if getattr(R.get_shock_position, "_xp_memo", False):
        return
    real = R.get_shock_position

    def memo(n, g, lam):
        k = (int(n), float(g), float(lam))
        if k not in _B_MEMO:
            _B_MEMO[k] = real(n, g, lam)
        return _B_MEMO[k]
    memo._xp_memo = True
    memo.__wrapped__ = real
    R.get_shock_position = memo


class GuderleyA(Adapter):
    arity = 2
    scan = 65
    max_jumps = 1
    order = 4
    rel_steps = (1e-3,)

    def build(self):
        memo_shock_position()
        return hydro_more.guderley_build(self.cfg)


# ------------------------------------------------------------------------------ RMTV
class RMTVA(Adapter):
    arity = 2
    scan = 49
    max_jumps = 1

    def window(self, t):
        # documented: rf is the position of the heat front (a continuous but numerically unresolvable thermal front:
        # T ~ (1 - r/rf)^(1/b)); the isothermal shock lies inside it
        return 0.05 * self.cfg["rf"], 0.97 * self.cfg["rf"]


# ------------------------------------------------------------------------------ Sedov (class C: 3001-point internal grid)
class SedovA(Adapter):
    """The solver tabulates on linspace(0, max(r), 3001) and interpolates linearly, which smears the shock over one
    cell of width max(r)/3000.  Every point x is therefore evaluated in its own batch [x, 3000 x / NODE]: x is then
    the NODE-th node of the internal grid, where the tabulated value *is* the similarity solution (no interpolation,
    no smearing), and only NODE nodes lie inside the shock so a call costs milliseconds."""
    NODE = 8
    arity = 2
    scan = 129
    geometric = True
    max_jumps = 1
    order = 4
    rel_steps = (3e-3,)

    def Fat(self, x, t):
        x = np.asarray(x, float)
        out = np.empty((5, len(x)))
        for i, xi in enumerate(x):
            sol = self.raw(np.array([xi, xi * 3000.0 / self.NODE]), t)
            out[:, i] = matrix(sol, 2)[:, 0]
        return out

    def window(self, t):
        """Walk inwards from r = 100 (cold gas, rho > 0, p = 0) in steps of 25 % until the gas moves or the
        density is exactly zero (vacuum hole of a thin-shell solution): the shock lies in the last step.  Keeps the scan
        away from the core r << r_shock, whose values the documentation declares untrustworthy."""
        if t not in self.__dict__.setdefault("_w", {}):
            r, prev = 100.0, None
            win = None
            for _ in range(80):
                S = self.Fat(np.array([r]), t)[:, 0]
                if S[1] > 1e-6 * r / t or S[0] == 0:       # moving gas (u comparable to r/t; 1e-16 is interpolation noise)
                    win = (r / 1.02, (prev or 1.25 * r) * 1.02)
                    break
                prev = r
                r /= 1.25
            self._w[t] = win or (1e-6, 100.0)
        return self._w[t]


# ------------------------------------------------------------------------------ Riemann, general EOS (class C)
class GenEOSA(IGEOSA):
    """Shocks and contacts are ramps over one cell of the internal x grid (public attribute x).  The grid is made fine
    (num_x_pts = 200001; costs nothing: the time goes into the p-u curves) and brackets are widened by two cells."""
    arity = 64
    scan = 4097
    order = 2
    rel_steps = (0.5,)        # wave paths of a Riemann problem are straight: a central difference has no truncation error
    NX = 200001
    NI = 501

    def build(self):
        c = hydro_more._riemann_cfg(self.cfg)
        c.update(num_int_pts=self.NI, num_x_pts=self.NX)
        return construct("riemann.ep_riemann.GenEOS_Solver", c)

    def window(self, t):
        c = hydro_more._riemann_cfg(self.cfg)
        if c.get("problem") == "JWL":
            return c["xmin"] + 1.0, c["xmax"] - 1.0
        return hydro_more.riemann_window(c, t)

    def cell(self, t):
        """Internal cell width at time t (needs one call so that the public attribute x exists)."""
        a, b = self.window(t)
        self.raw(np.array([a, b]), t)
        return float(np.max(np.diff(np.asarray(self.s.x, float))))


class MaderA(Adapter):
    pass


ADAPTERS = {"Noh": NohA, "Cog19": NohA, "Cog20": Cog20A, "Cog21": Cog21A, "BBNoh": BBNohA, "IGEOS": IGEOSA,
            "IGEOS_table": IGEOSA, "IGEOS_bnd": IGEOSA, "EPpiston": EPpistonA, "EHEP": EHEPA, "SDRZ": SDRZA, "Guderley": GuderleyA, "RMTV": RMTVA, "Sedov": SedovA, "Mader": MaderA,
            "GenEOS": GenEOSA, "GenEOS_table": GenEOSA}


def alphabet(name):
    if name == "BBNoh":
        return BBNOH_ALPHABET
    return hydro.by_name(name)["alphabet"]


def adapter(name, cfg):
    return ADAPTERS[name](hydro.by_name(name), cfg)


def times(name, cfg, tier="thorough"):
    """Time lattice of a family (the catalogue's; the expensive general-EOS Riemann solver uses one time in the quick tier)."""
    ts = list(hydro.by_name(name)["times"](cfg))
    if name == "EHEP":
        # documented validity: the region polygons are closed at tmax = 10 and xmax = 10 (class defaults); the detonation
        # front / escape front is at x = D t
        ts = [t for t in ts if t < 9.9 and cfg["D"] * t < 9.9]
    if name.startswith("GenEOS") and tier == "quick":
        ts = ts[-1:]
    return ts


def solver_fault(ex):
    """True if the exception was raised underneath exactpack code (a solver fault: C20's business, counted by the
    caller); False if no exactpack frame is on the traceback (a fault of the harness, which must surface)."""
    tb = ex.__traceback__
    while tb is not None:
        if "exactpack" in tb.tb_frame.f_code.co_filename:
            return True
        tb = tb.tb_next
    return False
