"""Locating and tracking discontinuities of returned profiles, and jump-condition residuals (helpers of C02 / C17).

Everything works on a *profile function*  F(x_array) -> ndarray (5, npts)  with rows
    0 density, 1 velocity, 2 pressure, 3 specific internal energy (NaN if the solver does not return it),
    4 extra normal stress to be *subtracted* from the pressure (deviatoric stress s'; 0 for fluids)
evaluated through the public solver call at one time.  Nothing here knows where a solver puts its waves.

Discontinuities are recognised from the data alone:
  * a scan cell is a candidate if the relative jump of some field exceeds `min_rel`;
  * the candidate is refined by repeated subdivision, always descending into the sub-cell with the largest
    relative jump, until the bracket is ~1e-13 of the position scale;
  * it is a discontinuity if some field keeps a relative jump > min_rel across that final bracket *and* the
    one-sided variation of that field over 16 bracket widths on either side is < 5 % of the jump (a field that
    goes to zero continuously -- a vacuum front -- keeps a relative jump of 1 but fails the second test).
"""
import math

import numpy as np

RHO, U, P, E, SD = 0, 1, 2, 3, 4


class Counter:
    def __init__(self):
        self.calls = 0
        self.points = 0


def velocity_scale(M):
    """max(|u|, sqrt(p/rho)) over the columns of a profile matrix (1.0 if that is zero/undefined)."""
    with np.errstate(all="ignore"):
        c = np.sqrt(np.abs(M[P]) / np.where(M[RHO] > 0, M[RHO], np.nan))
    v = np.nanmax(np.concatenate([np.abs(M[U])[np.isfinite(M[U])], c[np.isfinite(c)], [0.0]]))
    return float(v) if v > 0 and np.isfinite(v) else 1.0


def scan_floors(M):
    """Per-field noise floor: 1e-9 of the largest magnitude of the field over the scanned profile.  Values below it are
    noise, e.g. the 1e-16 that linear interpolation leaves next to a tabulated jump (Sedov), and must not count as a
    100 % relative jump against an exact zero."""
    with np.errstate(all="ignore"):
        f = 1e-9 * np.nan_to_num(np.nanmax(np.abs(np.where(np.isfinite(M), M, np.nan)), axis=1))
    f[U] = 0.0          # the velocity has its own scale (V)
    return f


def field_rel(A, B, V, floors=None):
    """Per-field relative jump |A-B| / (|A|+|B| [+1e-9 V for the velocity]) between state columns A, B
    (arrays (5,) or (5, n)).  0/0 -> 0; NaN on exactly one side -> 1; NaN on both -> 0."""
    A = np.asarray(A, float)
    B = np.asarray(B, float)
    num = np.abs(A - B)
    den = np.abs(A) + np.abs(B)
    # a velocity difference is measured against the local velocity scale |u| + sqrt(sigma/rho) (a zero crossing of u
    # inside a smooth wave is not a jump)
    with np.errstate(all="ignore"):
        ca = np.sqrt(np.abs(A[P] - A[SD]) / np.where(A[RHO] > 0, A[RHO], np.inf))
        cb = np.sqrt(np.abs(B[P] - B[SD]) / np.where(B[RHO] > 0, B[RHO], np.inf))
    den[U] = den[U] + np.nan_to_num(ca) + np.nan_to_num(cb) + 1e-9 * V
    if floors is not None:
        den = den + (floors if den.ndim == 1 else floors[:, None])
    with np.errstate(all="ignore"):
        r = np.where(den > 0, num / np.where(den > 0, den, 1.0), 0.0)
    na, nb = np.isnan(A), np.isnan(B)
    r = np.where(na & nb, 0.0, r)
    r = np.where(na ^ nb, 1.0, r)
    r[SD] = np.where((np.abs(A[SD]) + np.abs(B[SD])) > 0, r[SD], 0.0)
    r[E] = np.where(na[E] | nb[E], 0.0, r[E])      # e is derived (p / rho (gamma-1)); undefined (0/0) in a vacuum
    return r


def refine(F, lo, hi, xtol, arity=8, V=1.0, cnt=None, floors=None, xabs=0.0):
    """Shrink [lo, hi] onto the largest relative jump inside it.  Returns lo, hi, F(lo), F(hi)."""
    Flo = Fhi = None
    for _ in range(400):
        if hi - lo <= max(xtol * max(abs(lo), abs(hi)), xabs) or hi - lo <= 4e-16 * max(abs(lo), abs(hi), 1e-300):
            break
        sub = np.linspace(lo, hi, arity + 1)
        if not (np.diff(sub) > 0).all():
            break
        M = F(sub)
        if cnt is not None:
            cnt.calls += 1
            cnt.points += len(sub)
        if floors is None:
            floors = scan_floors(M)
        r = field_rel(M[:, :-1], M[:, 1:], V, floors).max(axis=0)
        k = int(np.argmax(r))
        lo, hi = float(sub[k]), float(sub[k + 1])
        Flo, Fhi = M[:, k].copy(), M[:, k + 1].copy()
    if Flo is None:
        M = F(np.array([lo, hi]))
        if cnt is not None:
            cnt.calls += 1
            cnt.points += 2
        Flo, Fhi = M[:, 0].copy(), M[:, 1].copy()
        if floors is None:
            floors = scan_floors(M)
    return lo, hi, Flo, Fhi, floors


def genuine(F, lo, hi, Flo, Fhi, V, min_rel, a, b, cnt=None, floors=None):
    """The bracket holds a discontinuity (see module docstring).  Returns (bool, per-field relative jump)."""
    r = field_rel(Flo, Fhi, V, floors)
    big = np.where(r > min_rel)[0]
    if big.size == 0:
        return False, r
    w = max(hi - lo, 4e-16 * max(abs(lo), abs(hi)))
    xl = max(a, lo - 16 * w)
    xr = min(b, hi + 16 * w)
    M = F(np.array([xl, xr]))
    if cnt is not None:
        cnt.calls += 1
        cnt.points += 2
    for i in big:
        jump = abs(Fhi[i] - Flo[i])
        if not np.isfinite(jump):
            return True, r
        var = abs(M[i, 0] - Flo[i]) + abs(M[i, 1] - Fhi[i])
        if var <= 0.05 * jump:
            return True, r
    return False, r


def locate(F, a, b, n=513, geometric=False, min_rel=1e-3, arity=8, xtol=1e-13, max_jumps=8, cnt=None, pad=0.0):
    """All discontinuities of the profile on [a, b] (sorted by position).  Each is a dict
    {x, lo, hi, L, R (states just left/right), rel (largest per-field relative jump), V}."""
    xs = np.geomspace(a, b, n) if geometric else np.linspace(a, b, n)
    M = F(xs)
    if cnt is not None:
        cnt.calls += 1
        cnt.points += n
    V = velocity_scale(M)
    floors0 = scan_floors(M)
    cell = field_rel(M[:, :-1], M[:, 1:], V, floors0).max(axis=0)
    cand = np.where(cell > min_rel)[0]
    runs = []
    for i in cand:
        if runs and i == runs[-1][-1] + 1:
            runs[-1].append(int(i))
        else:
            runs.append([int(i)])
    out = []
    for run in runs:
        # a run of steep cells (a fan) may hide discontinuities: try every cell that is a local maximum of the cell
        # jump and stands out against the run's median (at most 6, strongest first)
        med = float(np.median(cell[run])) if len(run) >= 5 else 0.0
        peaks = [i for i in run if cell[i] >= cell[max(i - 1, 0)] and cell[i] >= cell[min(i + 1, len(cell) - 1)]
                 and cell[i] > 4.0 * med]
        if not peaks:
            peaks = [max(run, key=lambda j: cell[j])]
        for i in sorted(peaks, key=lambda j: -cell[j])[:6]:
            lo, hi, Flo, Fhi, floors = refine(F, float(xs[i]), float(xs[i + 1]), xtol, arity, V, cnt, floors0, xabs=1.5 * pad)
            if pad:
                lo, hi, Flo, Fhi = padded(F, lo, hi, pad, a, b, cnt)
            ok, r = genuine(F, lo, hi, Flo, Fhi, V, min_rel, a, b, cnt, floors)
            if ok:
                if not any(abs(0.5 * (lo + hi) - o["x"]) <= 4 * xtol * max(abs(lo), abs(hi)) for o in out):
                    out.append({"x": 0.5 * (lo + hi), "lo": lo, "hi": hi, "L": Flo, "R": Fhi, "rel": float(r.max()),
                                "relf": r, "V": V, "floors": floors0})
    out.sort(key=lambda d: -d["rel"])
    out = out[:max_jumps]
    out.sort(key=lambda d: d["x"])
    return out


def padded(F, lo, hi, pad, a, b, cnt=None):
    """Class-C solvers smear a discontinuity over one internal cell: widen the bracket by `pad` (two cells) on each side
    so that the one-sided states are taken outside the smeared cell."""
    lo2, hi2 = max(a, lo - pad), min(b, hi + pad)
    M = F(np.array([lo2, hi2]))
    if cnt is not None:
        cnt.calls += 1
        cnt.points += 2
    return lo2, hi2, M[:, 0].copy(), M[:, 1].copy()


def track(F, j, a, b, arity=8, xtol=1e-13, cnt=None, wmax=None, w0=1e-11, hint=None, pad=0.0):
    """Find, in the profile F of a neighbouring time, the discontinuity that continues jump j (found at the base
    time): brackets x0 +/- w with w growing by 8 until the two ends differ by at least half of j's jump in j's
    dominant field (same sign), then refines.  Returns a jump dict or None."""
    x0 = j["x"] if hint is None else hint
    i = int(np.argmax(j["relf"]))
    d0 = j["R"][i] - j["L"][i]
    V = j["V"]
    scale = max(abs(x0), 1e-300)
    w = max(w0 * scale, 8.0 * pad)
    wmax = wmax if wmax is not None else 0.25 * scale
    while True:
        lo, hi = max(a, x0 - w), min(b, x0 + w)
        M = F(np.array([lo, hi]))
        if cnt is not None:
            cnt.calls += 1
            cnt.points += 2
        d = M[i, 1] - M[i, 0]
        ok = (np.isfinite(d) and np.isfinite(d0) and d * d0 > 0 and abs(d) >= 0.5 * abs(d0)) or \
             (not np.isfinite(d0) and not np.isfinite(d))
        if ok:
            break
        if w >= wmax:
            return None
        w = min(8 * w, wmax)
    lo, hi, Flo, Fhi, floors = refine(F, lo, hi, xtol, arity, V, cnt, j.get("floors"), xabs=1.5 * pad)
    if pad:
        lo, hi, Flo, Fhi = padded(F, lo, hi, pad, a, b, cnt)
    r = field_rel(Flo, Fhi, V, floors)
    if r.max() < 0.3 * j["rel"]:
        return None
    return {"x": 0.5 * (lo + hi), "lo": lo, "hi": hi, "L": Flo, "R": Fhi, "rel": float(r.max()), "relf": r, "V": V,
            "floors": floors}


def speed_fd(Fat, j, t, rel_steps, window, arity=8, cnt=None, order=4, xtol=1e-13, origin=None, pad=0.0):
    """Speed of jump j from where the solver places it at neighbouring times: central differences of the tracked
    position (4th order: t +/- dt, t +/- 2dt; 2nd order: t +/- dt) for each relative step.  Returns list of
    (dt, s) -- None entries where tracking failed."""
    out = []
    for rs in rel_steps:
        dt = rs * abs(t) if t != 0 else rs
        ks = (-2, -1, 1, 2) if order == 4 else (-1, 1)
        xs = {}
        fail = False
        for k in ks:
            tk = t + k * dt
            a, b = window(tk)
            hint = None
            if origin is not None and t != origin[1]:      # search hint only: straight path through the documented origin
                hint = origin[0] + (j["x"] - origin[0]) * (tk - origin[1]) / (t - origin[1])
            jj = track(lambda x, tk=tk: Fat(x, tk), j, a, b, arity=arity, cnt=cnt, xtol=xtol, w0=max(1e-11, 100 * xtol),
                       hint=hint, pad=pad)
            if jj is None:
                fail = True
                break
            xs[k] = jj["x"]
        if fail:
            out.append((dt, None))
            continue
        if order == 4:
            s = (xs[-2] - 8 * xs[-1] + 8 * xs[1] - xs[2]) / (12 * dt)
        else:
            s = (xs[1] - xs[-1]) / (2 * dt)
        out.append((dt, float(s)))
    return out


# ----------------------------------------------------------------------------------------------
# jump conditions (textbook form, shock frame)
# ----------------------------------------------------------------------------------------------

def _rr(*terms):
    s = sum(terms)
    n = sum(abs(x) for x in terms)
    if not np.isfinite(s) or not np.isfinite(n):
        return 1.0
    return abs(s) / n if n > 0 else 0.0


def sound_proxy(S):
    with np.errstate(all="ignore"):
        c = math.sqrt(abs(S[P] - S[SD]) / S[RHO]) if S[RHO] > 0 else 0.0
    return c if np.isfinite(c) else 0.0


def jump_residuals(L, R, s, ctol, q=0.0, energy=True, Vfloor=0.0):
    """Classify and judge one discontinuity with one-sided states L, R (5-vectors) and speed s.

    w = u - s on each side; V = max(|w|, |u_L-u_R|, sqrt(sigma/rho)) is the velocity scale.
    * |w_L|, |w_R| <= ctol*V  -> contact: residuals {contact:[p]=0, contact:[u]=0, contact:s=u}
    * otherwise shock / detonation front (q = heat released per unit mass on the side the material enters):
        rh:mass      [rho w] = 0
        rh:momentum  [rho w^2 + sigma] = 0            sigma = p - s' (total normal stress)
        rh:energy    [rho w (e + w^2/2) + sigma w] = 0   (+ rho w q on the unburnt side)
      each normalised |sum| / sum|terms|.
    Returns (kind, {clause: residual})."""
    r1, u1, p1, e1, d1 = [float(x) for x in L]
    r2, u2, p2, e2, d2 = [float(x) for x in R]
    s1, s2 = p1 - d1, p2 - d2
    w1, w2 = u1 - s, u2 - s
    V = max(abs(w1), abs(w2), abs(u1 - u2), sound_proxy(L), sound_proxy(R), Vfloor)
    if V == 0:
        V = 1.0
    if abs(w1) <= ctol * V and abs(w2) <= ctol * V:
        return "contact", {"contact:[p]=0": _rr(s1, -s2), "contact:[u]=0": abs(u1 - u2) / V,
                           "contact:s=u": max(abs(w1), abs(w2)) / V}
    m1, m2 = r1 * w1, r2 * w2
    res = {"rh:mass": _rr(m1, -m2), "rh:momentum": _rr(m1 * w1, s1, -m2 * w2, -s2)}
    if energy and np.isfinite(e1) and np.isfinite(e2):
        # the unburnt side is the one the material comes from: m>0 -> material moves to +x relative to the front,
        # i.e. it enters from the left
        qa, qb = (q, 0.0) if (m1 + m2) > 0 else (0.0, q)
        res["rh:energy"] = _rr(m1 * e1, 0.5 * m1 * w1 * w1, s1 * w1, m1 * qa, -m2 * e2, -0.5 * m2 * w2 * w2, -s2 * w2, -m2 * qb)
    return "shock", res


def compressive(L, R, s):
    """For a shock with states L|R and speed s: (drho, dp) = (post - pre)/(post + pre) in the direction the material
    crosses it (both must be >= 0).  None if there is no mass flux."""
    r1, u1, p1, e1, d1 = [float(x) for x in L]
    r2, u2, p2, e2, d2 = [float(x) for x in R]
    m = 0.5 * (r1 * (u1 - s) + r2 * (u2 - s))
    if m == 0 or not np.isfinite(m):
        return None
    pre, post = (L, R) if m > 0 else (R, L)
    sp, sq = float(post[P] - post[SD]), float(pre[P] - pre[SD])
    drho = (post[RHO] - pre[RHO]) / (abs(post[RHO]) + abs(pre[RHO]))
    dp = (sp - sq) / (abs(sp) + abs(sq)) if (abs(sp) + abs(sq)) > 0 else 0.0
    return float(drho), float(dp)
