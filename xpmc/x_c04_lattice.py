"""Left/right state lattice of the 1D Riemann checks (shared by props/C04.py and route (a) of props/C07.py):
four root states, one per wave pattern, re-rooted alphabets, task -> constructor kwargs, generous windows and the
documented EOS energy of an input state.  Alphabets/domains only -- no expected values."""
import math

import numpy as np

from . import hydro_more as hm
from . import lattice
from .solvers import call

G53 = hm.G53
PATHS = {"IGEOS": "riemann.ep_riemann.IGEOS_Solver", "GenEOS": "riemann.ep_riemann.GenEOS_Solver"}

# one root per wave pattern, all values taken from the alphabet
ROOTS = {
    "sod": dict(hm.RIEMANN_BASE, xd0=0.5),                                                                    # RCS
    "sod_mirror": dict(rl=0.125, pl=0.1, ul=0.0, gl=1.4, rr=1.0, pr=1.0, ur=0.0, gr=1.4, xd0=0.5),            # SCR
    "collide": dict(rl=1.0, pl=1.0, ul=0.3, gl=1.4, rr=1.0, pr=1.0, ur=-0.3, gr=1.4, xd0=0.5),                # SCS
    "recede": dict(rl=1.0, pl=1.0, ul=-0.3, gl=1.4, rr=1.0, pr=1.0, ur=0.3, gr=1.4, xd0=0.5),                 # RCR
}

def root_alphabet(root):
    """The shared alphabet re-rooted: first value = the root's, then every other alphabet value."""
    r = ROOTS[root]
    return {p: [r[p]] + [v for v in vals if v != r[p]] for p, vals in hm.RIEMANN_ALPHABET.items()}


def resolve(task):
    """Constructor kwargs and the time lattice of a task."""
    if "table" in task:
        tab = dict(hm.RIEMANN_TABLE.get(task["table"]) or hm.BND_TABLE.get(task["table"]) or hm.JWL_TABLE[task["table"]])
        t = tab.pop("t")
        c = hm.riemann_mirror(tab) if task["mirror"] else tab
        times = [0.5 * t, t]
    else:
        al = root_alphabet(task["root"])
        c = lattice.full_cfg(al, task["dev"])
        times = [0.05, 0.2]
    if task.get("res"):
        c = dict(c, num_int_pts=task["res"][0], num_x_pts=task["res"][1])
    return c, times


def jwl_f(c, rho, g):
    G = g - 1.0
    R1r, R2r = c["R1"] * c["r0"] / rho, c["R2"] * c["r0"] / rho
    return c["A"] * (1.0 - G / R1r) * math.exp(-R1r) + c["B"] * (1.0 - G / R2r) * math.exp(-R2r)


def energy(c, p, rho, g):
    """Specific internal energy of an input state from the documented EOS."""
    f = jwl_f(c, rho, g) if c.get("problem", "igeos") == "JWL" else 0.0
    return (p - f) / ((g - 1.0) * rho)


def generous_window(c, t):
    if c.get("problem", "igeos") == "JWL":
        return c["xmin"] + 1.0, c["xmax"] - 1.0
    return hm.riemann_window(c, t)


FIELDS = ("density", "velocity", "pressure", "specific_internal_energy")




def find_window(s, c, t, ncalls):
    """Window [a, b] containing the membrane and every wave, chosen from the returned fields.

    A 2049-point scan of a generous interval (doubled up to three times until both ends return the input states);
    the disturbed region is bounded by the first / last scan point that differs from the left / right input state;
    the window adds 25 % / 35 % of its width on the left / right (asymmetric on purpose).  Input-side book-keeping
    (du, lr) for narrow known-finding predicates is returned too.
    """
    sL = np.array([c["rl"], c["ul"], c["pl"], energy(c, c["pl"], c["rl"], c["gl"])])
    sR = np.array([c["rr"], c["ur"], c["pr"], energy(c, c["pr"], c["rr"], c["gr"])])
    fscale = np.maximum(np.maximum(np.abs(sL), np.abs(sR)), 1e-300)
    fscale[1] = max(fscale[1], math.sqrt(max(c["gl"] * c["pl"] / c["rl"], c["gr"] * c["pr"] / c["rr"])))   # velocities: sound speed
    A, B = generous_window(c, t)
    for attempt in range(4):
        xs = np.linspace(A, B, 2049)
        sol = call(s, xs, t)
        ncalls[0] += 1
        Fm = np.array([np.asarray(sol[n], float) for n in FIELDS])
        dL = np.abs(Fm - sL[:, None]) / fscale[:, None]
        dR = np.abs(Fm - sR[:, None]) / fscale[:, None]
        far_ok = bool(dL[:, :8].max() <= 1e-10 and dR[:, -8:].max() <= 1e-10)
        if far_ok or c.get("problem", "igeos") == "JWL":
            break
        A, B = c["xd0"] - 2.0 * (c["xd0"] - A), c["xd0"] + 2.0 * (B - c["xd0"])
    out = {"sol": sol, "xs": xs, "Fm": Fm, "sL": sL, "sR": sR, "fscale": fscale, "A": A, "B": B, "far_ok": far_ok,
           "far_mismatch": float(np.nan_to_num(max(dL[:, :8].max(), dR[:, -8:].max()), nan=1.0)),
           "du": "du=0" if c["ul"] == c["ur"] else "du!=0",
           "lr": "equal-rho-u-p" if (c["rl"], c["ul"], c["pl"]) == (c["rr"], c["ur"], c["pr"]) else "distinct"}
    if not far_ok:
        return out
    notL = np.where(dL.max(axis=0) > 1e-12)[0]
    notR = np.where(dR.max(axis=0) > 1e-12)[0]
    i0 = notL[0] if notL.size else len(xs) - 1
    i1 = notR[-1] if notR.size else 0
    xa = min(xs[max(i0 - 1, 0)], c["xd0"])
    xb = max(xs[min(i1 + 1, len(xs) - 1)], c["xd0"])
    w = max(xb - xa, 1e-3 * (B - A))
    out["a"], out["b"] = max(xa - 0.25 * w, A), min(xb + 0.35 * w, B)
    out["disturbed"] = (float(xa), float(xb))
    return out
