"""Quadrature that finds the wave structure from the returned fields (helper of props/C04.py, also used by C07).

`adaptive_integral` integrates a vector function sampled through the public solver call over [a, b] by recursive
8-fold subdivision with an n-point Gauss-Lobatto rule per panel.  A panel is accepted when the rule on the panel
and the sum of the rule on its eight children agree to an absolute budget; constant states are accepted at once
(every rule is exact on them), smooth fans after one or two levels (9-point Lobatto is exact to degree 15), a kink (fan head or
tail) after ~6 levels (error ~ slope change x width^2) and a discontinuity only when the panel has collapsed to
~1e-14 of the window (error ~ jump x width).  The collapsed panels therefore *are* the discontinuities, located
from the fields themselves, and the returned error bound is explicit:

    sum over accepted panels |rule(panel) - sum rule(children)|  +  sum over collapsed panels  width x range.

Nothing of the solver's own wave report (Vregs, Xregs, soln_type) is used.  One solver call per refinement level
(all active panels are evaluated in one batch), ~16-18 calls per profile.
"""
import numpy as np

_GL = {}


def _gl(n):
    """n-point Gauss-Lobatto nodes and weights on [-1, 1] (exact to degree 2n-3).  A *closed* rule is essential:
    with an open rule a discontinuity lying between a panel edge and the first node of both the panel's and its
    children's rule is invisible to the acceptance test (seen while developing: 1e-5 error on a two-shock case)."""
    if n not in _GL:
        P = np.polynomial.legendre.Legendre.basis(n - 1)
        x = np.concatenate([[-1.0], np.sort(P.deriv().roots().real), [1.0]])
        w = 2.0 / (n * (n - 1) * P(x) ** 2)
        _GL[n] = (x, w)
    return _GL[n]


def adaptive_integral(F, a, b, scale, n=9, split=8, init=32, eps=1e-14, wmin_rel=2e-14):
    """Integral over [a,b] of F (x_array (sorted) -> (m, npts)).

    scale: (m,) positive characteristic size of each integral (max|q| * (b-a)); a panel is accepted when
           |coarse - fine| <= eps * scale in every component.
    Returns dict(integral (m,), err (m,), jumps=[{lo, hi, x}], calls, panels, levels).
    """
    xg, wg = _gl(n)
    scale = np.asarray(scale, float)
    m = len(scale)
    wmin = wmin_rel * max(abs(a), abs(b), b - a)
    qscale = scale / (b - a)
    calls = [0]

    def rule(lo, hi):
        """Lobatto-n on each panel [lo_i, hi_i] -> (npanel, m) integrals, (npanel, m) min and max of the samples."""
        lo = np.asarray(lo, float)
        hi = np.asarray(hi, float)
        xm, xr = 0.5 * (lo + hi), 0.5 * (hi - lo)
        X = (xm[:, None] + xr[:, None] * xg[None, :]).ravel()
        order = np.argsort(X, kind="stable")
        Ys = np.atleast_2d(np.asarray(F(X[order]), dtype=float))
        calls[0] += 1
        Y = np.empty_like(Ys)
        Y[:, order] = Ys
        Y = Y.reshape(m, -1, n)
        I = (Y * wg[None, None, :]).sum(axis=2).T * xr[:, None]
        return I, Y.min(axis=2).T, Y.max(axis=2).T

    edges = np.linspace(a, b, init + 1)
    lo, hi = edges[:-1].copy(), edges[1:].copy()
    I, mn, mx = rule(lo, hi)
    total = np.zeros(m)
    err = np.zeros(m)
    collapsed = []
    npanels = 0
    levels = 0
    fr = np.linspace(0.0, 1.0, split + 1)
    while len(lo):
        levels += 1
        w = hi - lo
        clo = lo[:, None] + w[:, None] * fr[None, :-1]
        chi = lo[:, None] + w[:, None] * fr[None, 1:]
        chi[:, -1] = hi
        chi[:, :-1] = clo[:, 1:]                               # shared edges are bit-identical
        cI, cmn, cmx = rule(clo.ravel(), chi.ravel())
        cI = cI.reshape(len(lo), split, m)
        cmn = cmn.reshape(len(lo), split, m)
        cmx = cmx.reshape(len(lo), split, m)
        fine = cI.sum(axis=1)
        est = np.abs(fine - I)
        ok = (est <= eps * scale[None, :]).all(axis=1)
        dead = (~ok) & (w / split <= wmin)                     # cannot be subdivided further: a discontinuity
        rng = np.maximum(mx, cmx.max(axis=1)) - np.minimum(mn, cmn.min(axis=1))
        done = ok | dead
        narrow = w <= 1e-9 * (b - a)                           # too narrow for a smooth profile to vary visibly
        total += fine[done].sum(axis=0)
        # accepted smooth panels: the coarse-fine difference bounds the error of the fine value; narrow or collapsed
        # panels: width x range of everything sampled inside is a rigorous bound whatever the profile does there
        err += np.where((narrow | dead)[done, None], w[done, None] * rng[done], est[done]).sum(axis=0)
        npanels += int(done.sum())
        isjump = done & narrow & (rng > 1e-7 * qscale[None, :]).any(axis=1)
        for i in np.where(isjump)[0]:
            collapsed.append((float(lo[i]), float(hi[i])))
        go = ~done
        lo, hi = clo[go].ravel(), chi[go].ravel()
        I = cI[go].reshape(-1, m)
        mn = cmn[go].reshape(-1, m)
        mx = cmx[go].reshape(-1, m)
    # merge adjacent collapsed panels (a discontinuity sitting on a shared edge)
    collapsed.sort()
    jumps = []
    for l, h in collapsed:
        if jumps and l <= jumps[-1]["hi"] + 4 * wmin:
            jumps[-1]["hi"] = max(h, jumps[-1]["hi"])
        else:
            jumps.append({"lo": l, "hi": h})
    for j in jumps:
        j["x"] = 0.5 * (j["lo"] + j["hi"])
    return {"integral": total, "err": err, "jumps": jumps, "calls": calls[0], "panels": npanels, "levels": levels}


def conserved(sol):
    """(rho, rho u, rho (e + u^2/2)) from a returned solution record array -> (3, npts)."""
    r = np.asarray(sol["density"], float)
    u = np.asarray(sol["velocity"], float)
    e = np.asarray(sol["specific_internal_energy"], float)
    return np.array([r, r * u, r * (e + 0.5 * u * u)])


def flux(r, u, p, e):
    """Euler fluxes of (mass, momentum, total energy) for one state."""
    return np.array([r * u, r * u * u + p, u * (r * (e + 0.5 * u * u) + p)])
