"""Per-class table of the 120 public solver classes, shared by props/C05.py and props/C20.py.

For every public ExactSolver subclass: input layout, a valid default call (constructor kwargs, in-domain points for any
N, a time inside the validity interval), the field names the documentation/contract prescribes, cost class, and the
configuration variants (admissible geometries) that the operation words are run for.  The table is hand-written from
reading each solver (module docstring, class docstring, parameter help strings, constructor checks, `_run`).  It holds
NO expected field values.

`missing(discovered)` lists classes found in the tree but absent here: both checks turn that into a harness fault
("uncatalogued public solver"), so a new solver cannot silently escape.

Entry fields
  ndim      f(cfg) -> spatial dimension d of a point (1, 2, 3)
  layout    'Nd' : the documented contract (rank-1 for d = 1, shape (N, d) otherwise)
            'dN' : the class indexes points[0], points[1] (a (d, N) layout) -- a deviation from base.py's contract that is
                   reported by C05 as one narrow clause; the remaining clauses are then checked in that native layout
  ctor      kwargs added to every construction (reduced series/grid sizes for cost, Cog11's Gamma)
  build     name of a special builder ('bbnoh', 'guderley') or None
  variants  list of extra kwargs dicts (admissible non-default geometries, with what they need, e.g. a 3-tuple detonator)
  t         a valid time
  pts       f(N, cfg, solver) -> ndarray in contract layout, N distinct in-domain points in "ascending" order
  pos       f(cfg) -> names the contract prescribes for the first d fields
  names     names prescribed for the remaining fields (documented list; standard table of base.py for standard quantities)
  cost      'cheap' | 'slowcall' (each call >= 0.1 s: tasks split by N) | 'slownew' (construction >= 0.2 s: one object per task)
  grid      True for the documented grid-dependent solvers (Mader, Sedov, SDRZ): no value covariance under permutation here
  mesh      f(N) -> kwargs for solvers that need the mesh size in the constructor (RateStick, ExplosiveArc); N list in `Ns`
"""
import math

import numpy as np

G53 = 5.0 / 3.0

COG = ("density", "velocity", "temperature", "pressure", "specific_internal_energy")
NOH = ("density", "pressure", "specific_internal_energy", "velocity")

TABLE = {}


def _frac(N):
    """N distinct fractions strictly inside (0, 1), ascending, never a 'round' abscissa."""
    return (np.arange(N) + 0.37) / N


def interval(a, b):
    return lambda N, cfg, s: a + (b - a) * _frac(N)


def closed_interval(a, b):
    """As interval(), but for N >= 2 the first point is EXACTLY the closed lower end of the documented domain (a sphere's centre, a
    rod's face): 'positions are returned unchanged' must hold bit for bit there too (added after the seeded change S3-C05-1, which
    nudged r = 0 to eps * b to silence a 0/0 warning)."""
    def f(N, cfg, s):
        x = a + (b - a) * _frac(N)
        if N >= 2:
            x[0] = a
        return x
    return f


def box(lo, hi):
    """(N, d) points on a diagonal-free pattern inside the box [lo, hi] (per-coordinate different fractions)."""
    lo = np.asarray(lo, float)
    hi = np.asarray(hi, float)

    def f(N, cfg, s):
        d = len(lo)
        cols = []
        for j in range(d):
            fr = ((np.arange(N) * (2 * j + 3) % (2 * N + 1)) + 0.41 + 0.2 * j) / (2 * N + 1.7)
            if j == 0:
                fr = _frac(N)
            cols.append(lo[j] + (hi[j] - lo[j]) * fr)
        return np.stack(cols, axis=1)
    return f


def polar(r0, r1, th0, th1, d=lambda cfg: 2):
    """(N, d) Cartesian points with radius in (r0, r1) and polar angle in (th0, th1) (z = 0.3*r for d = 3)."""
    def f(N, cfg, s):
        r = r0 + (r1 - r0) * _frac(N)
        th = th0 + (th1 - th0) * ((np.arange(N) * 3 % (2 * N + 1)) + 0.53) / (2 * N + 1.3)
        cols = [r * np.cos(th), r * np.sin(th)]
        if d(cfg) == 3:
            cols = [0.95 * c for c in cols] + [0.3122499 * r]      # 0.95^2 + 0.3122499^2 = 1
        return np.stack(cols, axis=1)
    return f


def entry(path, ndim=1, layout="Nd", ctor=None, build=None, variants=(), t=0.5, pts=None, pos=None, names=(),
          cost="cheap", grid=False, mesh=None, Ns=(1, 2, 3, 7), note=""):
    if not callable(ndim):
        nd = ndim
        ndim = lambda cfg, nd=nd: nd
    if pos is None:
        pos = lambda cfg: ("position",)
    elif not callable(pos):
        p = tuple(pos)
        pos = lambda cfg, p=p: p
    TABLE["exactpack.solvers." + path] = dict(
        path=path, ndim=ndim, layout=layout, ctor=dict(ctor or {}), build=build, variants=[dict(v) for v in variants],
        t=t, pts=pts, pos=pos, names=tuple(names), cost=cost, grid=grid, mesh=mesh, Ns=tuple(Ns), note=note)


# ----------------------------------------------------------------------------------------------- Coggeshall
_COG_GEOS = {1: (1, 2, 3), 2: (1, 2, 3), 3: (1, 2, 3), 4: (1, 2, 3), 5: None, 6: (1, 2, 3), 7: (1, 2, 3), 8: (1, 2, 3),
             9: (1, 2, 3), 10: (2, 3), 11: (1, 2, 3), 12: (2, 3), 13: (1, 2, 3), 14: (1, 2, 3), 16: (2, 3), 17: (1, 2, 3),
             18: (1, 2, 3), 19: (1, 2, 3), 20: (1, 2, 3), 21: None}
# wrappers that exist in the tree (PlanarCog12 exists although Cog12 documents geometry in {2, 3})
_COG_WRAP = {n: ("Planar", "Cylindrical", "Spherical") for n in _COG_GEOS}
_COG_WRAP.update({5: (), 21: (), 10: ("Cylindrical", "Spherical"), 16: ("Cylindrical", "Spherical")})
for _n, _geos in _COG_GEOS.items():
    _ctor = {"Gamma": 40.0} if _n == 11 else {}           # Cog11 documents Gamma but gives it no class default
    _dom = (0.3, 1.7) if _n == 7 else (0.3, 3.0)            # Cog7: Ri sqrt(1-t^2/tau^2) < r < R0 sqrt(1-t^2/tau^2)
    _var = [{"geometry": g} for g in (_geos or ()) if g != 3]
    entry("cog.cog%d.Cog%d" % (_n, _n), ctor=_ctor, variants=_var, t=0.5, pts=interval(*_dom), names=COG)
    for _w in _COG_WRAP[_n]:
        entry("cog.cog%d.%sCog%d" % (_n, _w, _n), ctor=_ctor, t=0.5, pts=interval(*_dom), names=COG)
entry("cog.cog6.Kidder74", t=0.5, pts=interval(0.3, 3.0), names=COG)
entry("cog.cog7.Kidder76", t=0.5, pts=interval(0.3, 1.7), names=COG)

# ----------------------------------------------------------------------------------------------- Noh family
entry("noh.noh1.Noh", variants=[{"geometry": 1}, {"geometry": 2}], t=0.6, pts=interval(0.02, 1.0), names=NOH)
for _w in ("Planar", "Cylindrical", "Spherical"):
    entry("noh.noh1.%sNoh" % _w, t=0.6, pts=interval(0.02, 1.0), names=NOH)
    entry("noh2.noh2.%sNoh2" % _w, t=0.5, pts=interval(0.05, 2.0), names=NOH)
    entry("nohblackboxeos.blackboxnoh.%sNohBlackBox" % _w, build="bbnoh", t=0.6, pts=interval(0.02, 1.0), names=NOH)
entry("noh2.noh2.Noh2", variants=[{"geometry": 1}, {"geometry": 2}], t=0.5, pts=interval(0.05, 2.0), names=NOH)
entry("noh2.noh2_cog.Noh2Cog", variants=[{"geometry": 1}, {"geometry": 2}], t=0.5, pts=interval(0.05, 2.0), names=COG)
entry("nohblackboxeos.blackboxnoh.NohBlackBoxEos", build="bbnoh", variants=[{"geometry": 1}, {"geometry": 2}],
      t=0.6, pts=interval(0.02, 1.0), names=NOH)

# ----------------------------------------------------------------------------------------------- Sedov, Guderley
_SED = ("density", "pressure", "specific_internal_energy", "velocity", "sound_speed")
entry("sedov.sedov.Sedov", variants=[{"geometry": 1}, {"geometry": 2}], t=1.0, pts=interval(0.05, 1.2), names=_SED,
      cost="slowcall", grid=True)
for _w in ("Planar", "Cylindrical", "Spherical"):
    entry("sedov.%sSedov" % _w, t=1.0, pts=interval(0.05, 1.2), names=_SED, cost="slowcall", grid=True)
entry("guderley.guderley.Guderley", build="guderley", variants=[{"geometry": 2}], t=0.6, pts=interval(0.05, 2.0),
      names=("density", "velocity", "pressure", "sound_speed", "specific_internal_energy"), cost="slowcall")

# ----------------------------------------------------------------------------------------------- detonation / piston
entry("ehep.ehep.EscapeOfHEProducts", t=1.0, pts=interval(0.1, 1.5),
      names=("density", "pressure", "specific_internal_energy", "sound_speed", "velocity", "region"))
entry("sdrz.sdrz.SteadyDetonationReactionZone", t=1.0, pts=interval(0.02, 0.84), grid=True,
      names=("pressure", "velocity", "density", "sound_speed", "reaction_progress", "position_relative"),
      note="run_tvec documents position first; _run builds the field list from dict insertion order")
entry("mader.timmes.Mader", t=6.25e-6, pts=interval(0.05, 4.95), grid=True,
      names=("velocity", "pressure", "sound_speed", "density", "xdet"))
entry("ep_piston.ep_piston.EPpiston", t=0.5, pts=interval(0.2, 1.0),
      names=("density", "pressure", "specific_internal_energy", "velocity", "deviatoric stress"),
      note="t <= max(x)/wv_el (0.652 cm/us by default) is required by the solver; x = 0.2 + 0.8*f: every point (also a duplicated smallest one at N=7) set has max >= 0.34 > wv_el*t = 0.326")
entry("blake.blake.Blake", t=1.6e-4, pts=interval(0.12, 1.0),
      names=("curr_posn", "displacement", "strain_rr", "strain_qq", "strain_vol", "density", "stress_rr", "stress_qq",
             "pressure", "stress_dev_rr", "stress_dev_qq", "stress_diff"),
      note="field table of the constructor docstring")

# ----------------------------------------------------------------------------------------------- burn-time solvers
_XY = lambda cfg: ("position_x", "position_y", "position_z")[:cfg.get("geometry", 2)]
_G = lambda cfg: cfg.get("geometry", 2)
# detonators off the origin / off the z = 0 plane too: a position field returned relative to the detonator is then visible (S4-C05-2)
entry("kenamond.kenamond1.Kenamond1", ndim=_G, variants=[{"geometry": 3, "x_d": (0.0, 0.0, 0.0)}, {"geometry": 3, "x_d": (0.5, -0.3, 0.7)},
                                                         {"x_d": (0.5, -0.3)}], t=0.0,
      pts=polar(0.5, 6.0, 0.1, 6.0, _G), pos=_XY, names=("burntime",))
entry("kenamond.kenamond2.Kenamond2", ndim=_G, variants=[{"geometry": 3}], t=0.0, pts=polar(0.5, 12.0, 0.1, 6.0, _G),
      pos=_XY, names=("burntime",))
entry("kenamond.kenamond3.Kenamond3", ndim=_G, variants=[{"geometry": 3, "x_d": (0.0, 0.0, 5.0)}], t=0.0,
      pts=polar(3.4, 9.0, 0.1, 6.0, _G), pos=_XY, names=("burntime",))
entry("dsd.cylexpansion.CylindricalExpansion", ndim=2, t=0.0, pts=polar(1.1, 4.0, 0.1, 6.0), pos=("position_x", "position_y"),
      names=("burntime",))


def _ratestick_mesh(N):
    nx, ny = {2: (2, 1), 3: (3, 1), 6: (3, 2)}[N]
    return {"xnodes": nx, "ynodes": ny}


def _ratestick_pts(N, cfg, s):
    nx, ny = cfg["xnodes"], cfg["ynodes"]
    x = np.linspace(0.0, 1.0, nx)               # documented: the mesh must contain x = 0 and x = R, rows of xnodes nodes
    y = np.linspace(0.0, 0.05, ny) if ny > 1 else np.array([0.02])
    X, Y = np.meshgrid(x, y)
    return np.stack([X.ravel(), Y.ravel()], axis=1)


def _arc_mesh(N):
    nx, ny = {6: (2, 3), 9: (3, 3)}[N]
    return {"xnodes": nx, "ynodes": ny}


def _arc_pts(N, cfg, s):
    nx, ny = cfg["xnodes"], cfg["ynodes"]
    r = np.linspace(2.0, 4.0, nx)
    th = np.linspace(-math.pi / 2.0, math.pi / 2.0, ny)
    R, T = np.meshgrid(r, th)
    return np.stack([(R * np.cos(T)).ravel(), (R * np.sin(T)).ravel()], axis=1)


entry("dsd.ratestick.RateStick", ndim=2, ctor={"t_f": 0.06}, t=0.0, pts=_ratestick_pts, pos=("position_x", "position_y"),
      names=("burntime",), mesh=_ratestick_mesh, Ns=(2, 3, 6), cost="slowcall",
      note="documented: needs xnodes*ynodes mesh nodes in row order including x = 0 and x = R; t_f reduced for cost")
entry("dsd.explosivearc.ExplosiveArc", ndim=2, ctor={"t_f": 0.06}, t=0.0, pts=_arc_pts, pos=("position_x", "position_y"),
      names=("burntime",), mesh=_arc_mesh, Ns=(6, 9), cost="slowcall",
      note="documented: polar mesh r_1..r_2 x -pi/2..pi/2 in row order; t_f reduced for cost")

# ----------------------------------------------------------------------------------------------- heat
entry("heat.rod1d.Rod1D", t=0.1, pts=closed_interval(0.0, 2.0), names=("temperature",))
for _m, _c in (("planar_sandwich", "PlanarSandwich"), ("planar_sandwich_hot", "PlanarSandwichHot"),
               ("planar_sandwich_half", "PlanarSandwichHalf")):
    entry("heat.%s.%s" % (_m, _c), ctor={"Nsum": 200}, t=0.1, pts=closed_interval(0.0, 2.0), names=("temperature",),
          note="Nsum reduced from 10000 for cost")
entry("heat.hutchens1.Hutchens1", t=0.1, pts=closed_interval(0.0, 1.0), names=("temperature",),
      note="names its position field 'radius'; the standard table prescribes 'position' for the generic r")
entry("heat.hutchens2.Hutchens2", ndim=2, layout="dN", t=0.0, pts=box((0.0, 0.0), (1.0, 2.0)), pos=("position_r", "position_z"),
      names=("temperature",))
entry("heat.rectangle.Rectangle", ndim=2, layout="dN", ctor={"Nsum": 20}, t=0.1, pts=box((0.0, 0.0), (2.0, 2.0)),
      pos=("position_x", "position_y"), names=("temperature",), note="Nsum reduced from 100 for cost")
entry("heat.cylindrical_sandwich.CylindricalSandwich", ndim=2, layout="dN", ctor={"Nsum": 5, "Msum": 10}, t=0.01,
      pts=box((0.25, 0.0), (0.85, math.pi / 2)), pos=("position_r", "angle_theta"), names=("temperature",), cost="slowcall",
      note="Nsum, Msum reduced from 20, 100 for cost (default: 11 s per call)")

# ----------------------------------------------------------------------------------------------- radiation
entry("suolson.suolson.SuOlson", t=1.0e-9, pts=interval(0.05, 3.0), names=("temperature_rad", "temperature_mat"))
entry("rmtv.rmtv.Rmtv", t=1.0, pts=interval(0.02, 1.03), cost="slowcall",
      names=("density", "temperature", "specific_internal_energy", "pressure", "velocity"),
      note="returns the specific internal energy under the name 'energy'")


def _profile_pts(N, cfg, s):
    x = np.asarray(s.x, float)
    a, b = -float(x.max()), -float(x.min())
    w = min(abs(a), abs(b), 0.5 * (b - a))
    return -w + 2.0 * w * _frac(N)            # symmetric window around the embedded shock at x = 0


_RS = ("density", "velocity", "pressure", "specific_internal_energy")
entry("radshocks.nED_radshocks.ED_Solver", t=0.0, pts=_profile_pts, cost="slownew",
      names=("temperature",) + _RS + ("rade", "sound_speed"))
entry("radshocks.nED_radshocks.nED_Solver", t=0.0, pts=_profile_pts, cost="slownew",
      names=("temperature_mat", "temperature_rad") + _RS + ("rade", "sound_speed"))
entry("radshocks.nED_radshocks.Sn_Solver", t=0.0, pts=_profile_pts, cost="slownew",
      names=("temperature_mat", "temperature_rad") + _RS + ("rade", "sound_speed", "VEF"))
entry("radshocks.nED_radshocks.ie_Solver", t=0.0, pts=_profile_pts, cost="slownew",
      names=("temperature_ion", "temperature_mat", "temperature_elec") + _RS + ("sound_speed",))

# ----------------------------------------------------------------------------------------------- Riemann
_RM = ("pressure", "density", "velocity", "specific_internal_energy")
entry("riemann.ep_riemann.IGEOS_Solver", ctor={"num_x_pts": 2001}, t=0.25, pts=interval(0.0, 1.0), names=_RM,
      note="num_x_pts reduced from 10001 for cost")
entry("riemann.ep_riemann.GenEOS_Solver", ctor={"num_int_pts": 201, "num_x_pts": 401}, t=0.25, pts=interval(0.0, 1.0),
      names=_RM, cost="slowcall", note="num_int_pts, num_x_pts reduced from 10001 for cost (default: 2.6 s per call)")
entry("riemann2D_2section_steadystate.ep_riemann2D_2section_steadystate.IGEOS_Solver", ndim=2, t=0.25,
      pts=box((0.1, -0.5), (1.0, 0.5)), pos=("position_x", "position_y"), cost="slowcall",
      names=("pressure", "density", "specific_internal_energy", "Mach", "x_velocity", "y_velocity", "speed"),
      note="names its position fields 'x_position', 'y_position'; the standard table prescribes position_x, position_y")


# ---------------------------------------------------------------------------------------------------------------
def missing(discovered):
    """Public classes of the tree that the table does not know (-> harness fault in C05 and C20)."""
    return sorted(k for k in discovered if k not in TABLE)


def stale():
    """Catalogued classes that no longer exist in the tree (reported in the evidence, not a fault)."""
    from .solvers import discover
    d = discover()
    return sorted(k for k in TABLE if k not in d)


def exists(e):
    """False when a catalogued class has been removed from the tree (its tasks are then skipped and counted)."""
    from .solvers import get_class
    try:
        get_class(e["path"])
        return True
    except (ImportError, AttributeError):
        return False


def cfgs(e):
    """Configuration variants of an entry: the default first, then the admissible geometries."""
    return [dict()] + [dict(v) for v in e["variants"]]


def full_kwargs(e, cfg, N=None):
    kw = dict(e["ctor"])
    kw.update(cfg)
    if e["mesh"] is not None and N is not None:
        kw.update(e["mesh"](N))
    return kw


_BB_CLASS = {"PlanarNohBlackBox": 0, "CylindricalNohBlackBox": 1, "SphericalNohBlackBox": 2}


def build(e, kw):
    """Construct the solver of an entry.  Raises whatever the constructor raises (callers classify)."""
    from .solvers import get_class
    import contextlib
    import io
    c = get_class(e["path"])
    with contextlib.redirect_stdout(io.StringIO()):
        if e["build"] == "bbnoh":
            from .hydro_more import eos_object
            eos = eos_object(["ideal", G53])
            if c.__name__ == "NohBlackBoxEos":
                g = kw.get("geometry", 3)
                ic = {"density": 1, "velocity": -1, "pressure": 0, "symmetry": g - 1}
                s = c(eos, ic, **kw)
            else:
                s = c(eos, {"density": 1, "velocity": -1, "pressure": 0}, **kw)
            # the shipped example's starting guesses (the class default and, in spherical geometry, [5,1,1] lead Newton to the
            # non-physical root D = u0, which the solver rejects with ValueError since fix 9627f5f)
            s.set_new_solver_initial_guess([50.0, 1.0, 0.5] if s.symmetry == 2 else [5.0, 1.0, 1.0])
            return s
        if e["build"] == "guderley":
            from . import guderley_cache
            guderley_cache.install()
        return c(**kw)


def native(e, P):
    """Contract-layout points -> the layout the class actually indexes."""
    P = np.asarray(P)
    if e["layout"] == "dN":
        return np.ascontiguousarray(P.T)
    return P
