"""Route pairs of props/C07.py: where ExactPack offers two routes to the same physical solution, enumerate the
parameter sets common to both and compare the returned fields.  Alphabets / mappings only -- no expected values.

A *route function* takes (task, ctx) and calls ctx.compare(...) once per (pair, configuration, time).
"""
import contextlib
import io
import math

import numpy as np

from . import hydro, hydro_more as hm, lattice, oracle
from .solvers import construct, call, get_class, discover, Inadmissible
from .x_c04_lattice import ROOTS, PATHS, FIELDS, root_alphabet, resolve, find_window
from .x_c04_quad import adaptive_integral, conserved

G53 = hm.G53

# ---------------------------------------------------------------------------------------------------------------
# tolerances (class of the less accurate route); measured numbers = worst mismatch of the unchanged tree over the
# thorough lattice (recorded defects excluded)
# ---------------------------------------------------------------------------------------------------------------
TOL_A = 1e-10          # two closed forms / the same code reached through a wrapper: measured <= 2.6e-13 (Kenamond3), 0 for wrappers
TOL_BB = 1e-6          # black-box Noh: Newton to 1e-10 in the jump state (class B); measured <= 2.5e-13 on the physical root
TOL_SERIES = 1e-9      # BC3 vs mirrored BC4: term-by-term identical truncated series; measured <= 7.9e-14


# IGEOS vs GenEOS (class C).  The accuracy of the general-EOS route depends strongly on the problem (uniform-in-pressure
# P-U tables: error ~ (table step / star pressure)^2 in strong rarefactions -- LeBlanc 2.5e-3, Einfeldt 1.6e-3 at 501
# points -- and first order 1/(gamma*N) when the star pressure lies within one table step of pl or pr), so its error bar is
# measured from the route itself: d_ref = max |GenEOS(N) - GenEOS(4N)| over the compared points (Richardson), and
#     tol = min(A_CAP, A_FACTOR * d_ref + A_FLOOR).
# For any convergence order >= 1 the true error of GenEOS(N) is <= 4/3 d_ref, so A_FACTOR = 10 leaves >= 7.5x margin.
# Measured over the thorough lattice (1742 comparisons, recorded defects excluded): worst mismatch 2.5e-3 (LeBlanc), worst
# mismatch/tol 0.13, worst (difference at 4N)/(difference at N) 0.25; the recorded IGEOS defect sits at 0.3-0.6.
A_FACTOR, A_FLOOR, A_CAP = 10.0, 2e-4, 2e-2


# ---------------------------------------------------------------------------------------------------------------
# context: comparison + book-keeping shared by all routes
# ---------------------------------------------------------------------------------------------------------------

class Ctx:
    def __init__(self, res, dg):
        self.res, self.dg = res, dg
        self.C = res["counters"]
        self.worst = {}

    def count(self, key, n=1):
        self.C[key] = self.C.get(key, 0) + n

    def call(self, s, x, t):
        self.res["evals"] += 1
        return call(s, x, t)

    def compare(self, pair, cfg, where, A, B, fields, tol, scales=None, mask=None, detail=None, floor=1e-3, key=None, cal=True, calkey=None):
        """Field-by-field |a-b| <= tol*(max(|a|,|b|) + floor*S_field) at every point (S_field = max|field| over both
        profiles unless given).  A, B map field name -> array (or record arrays)."""
        nontrivial = False
        for f in fields:
            a = np.asarray(A[f], float)
            b = np.asarray(B[f], float)
            if mask is not None:
                a, b = a[mask], b[mask]
            self.dg.add(a, b)
            if a.size == 0:
                continue
            S = (scales or {}).get(f)
            if S is None:
                fin = np.concatenate([np.abs(a[np.isfinite(a)]), np.abs(b[np.isfinite(b)])])
                S = float(fin.max()) if fin.size else 1.0
            m = oracle.mismatch(a, b, scale=S if S > 0 else 1.0, floor=floor)
            if np.any(np.isfinite(a) & (a != 0)):
                nontrivial = True
            i = int(np.argmax(m))
            if cal:
                ck = calkey or pair.split(":")[0]
                self.worst[ck] = max(self.worst.get(ck, 0.0), float(m[i]))
            if m[i] > tol:
                d = {"index": i, "a": float(a[i]), "b": float(b[i]), "n_bad": int((m > tol).sum()), "n_points": int(a.size)}
                d.update(detail or {})
                self.res["violations"].append({"solver": pair.split(":weak")[0], "cfg": cfg, "clause": "agree:" + f, "where": where,
                                               "value": float(m[i]), "tol": float(tol), "detail": d})
        self.count("comparisons")
        self.count("pair:" + pair.split(":")[0])
        if nontrivial:
            self.res["nontrivial"].append(key or "%s|%s|%s" % (pair, _ckey(cfg), _ckey(where)))
        if self.res["sample"] is None:
            self.res["sample"] = {"pair": pair, "cfg": cfg, "where": where, "fields": list(fields), "tol": tol,
                                  "n_points": int(np.asarray(A[fields[0]]).size)}

    def violation(self, pair, cfg, clause, where, value, tol, detail):
        self.res["violations"].append({"solver": pair, "cfg": cfg, "clause": clause, "where": where, "value": float(value),
                                       "tol": float(tol), "detail": detail})


def _ckey(d):
    return ",".join("%s=%s" % (k, d[k]) for k in sorted(d))


def vel_scale(sol):
    """Characteristic velocity of a hydrodynamic profile: max(|u|, sqrt(p/rho)) -- never divides by a vanishing star velocity."""
    u = np.abs(np.asarray(sol["velocity"], float))
    s = float(u[np.isfinite(u)].max()) if np.isfinite(u).any() else 0.0
    if "pressure" in sol.dtype.names and "density" in sol.dtype.names:
        p = np.asarray(sol["pressure"], float)
        r = np.asarray(sol["density"], float)
        ok = np.isfinite(p) & np.isfinite(r) & (r > 0) & (p > 0)
        if ok.any():
            s = max(s, float(np.sqrt((p[ok] / r[ok]).max())))
    return s if s > 0 else 1.0


# ---------------------------------------------------------------------------------------------------------------
# (a) ideal-gas vs general-EOS Riemann solver on ideal-gas data
# ---------------------------------------------------------------------------------------------------------------
A_RES = {"quick": [501, 2001], "fine": [2001, 8001]}


def tasks_a(tier):
    out, seen = [], set()
    k = 1 if tier == "quick" else 2
    for nm in hm.RIEMANN_TABLE:
        for mirror in (False, True):
            out.append({"route": "a", "table": nm, "mirror": mirror})
    # states straddling the wave-pattern classification boundaries (p* = pl, p* = pr), where the two solvers pick the branch
    # independently; unequal-gamma ones in the quick tier, all of them in the thorough tier
    for nm in hm.BND_TABLE:
        if tier != "quick" or ("|ul0|" in nm + "|" and "gl1.4|gr1.4" not in nm):
            out.append({"route": "a", "table": nm, "mirror": False})
    for root in ROOTS:
        al = root_alphabet(root)
        for dev in lattice.enumerate_checked(al, k):
            key = tuple(sorted(lattice.full_cfg(al, dev).items()))
            if key in seen:
                continue
            seen.add(key)
            out.append({"route": "a", "root": root, "dev": dev})
    return out


def pattern_of(s):
    st = str(getattr(s, "soln_type", "?"))
    return st.split("-")[-1] if "-" in st else st


def run_a(task, ctx):
    c, times = resolve(task)
    cG = dict(c, num_int_pts=A_RES["quick"][0], num_x_pts=A_RES["quick"][1])
    try:
        sI = construct(PATHS["IGEOS"], c)
        sG = construct(PATHS["GenEOS"], cG)
        sG2 = construct(PATHS["GenEOS"], dict(c, num_int_pts=A_RES["fine"][0], num_x_pts=A_RES["fine"][1]))
    except Inadmissible:
        ctx.count("inadmissible_vectors")
        return
    pair = "IGEOS~GenEOS"
    for t in times:
        ncalls = [0]
        try:
            W = find_window(sI, c, t, ncalls)
            ctx.res["evals"] += ncalls[0]
            if not W["far_ok"]:
                ctx.count("a:window_not_found")       # C04's business (far-field clause)
                continue
            a, b = W["a"], W["b"]
            sol = W["sol"]
            q = conserved(sol)
            qmax = np.maximum(np.abs(q).max(axis=1), 1e-300)
            qmax[1] = max(qmax[1], qmax[0] * W["fscale"][1])

            def F(x):
                ctx.res["evals"] += 1
                return conserved(call(sI, x, t))
            R = adaptive_integral(F, a, b, qmax * (b - a))
            jumps = [j["x"] for j in R["jumps"]]
            patI = pattern_of(sI)
        except Exception as ex:
            ctx.count("call_exception:IGEOS:%s" % type(ex).__name__)
            ctx.dg.add("excI", type(ex).__name__)
            continue
        where = {"t": t, "pattern": patI, "du": W["du"], "lr": W["lr"]}
        # lattice: 240 cell centres of the window + the mid-point of every gap between located discontinuities
        n = 240
        X = list(a + (np.arange(n) + 0.5) * (b - a) / n)
        edges = [a] + jumps + [b]
        X += [0.5 * (l + r) for l, r in zip(edges[:-1], edges[1:])]
        X = np.array(sorted(X))
        try:
            solI = ctx.call(sI, X, t)
            solG = ctx.call(sG, X, t)
            h = float(np.max(np.diff(np.asarray(sG.x, float))))
            patG = pattern_of(sG)
            VI, VG = np.asarray(sI.Vregs, float), np.asarray(sG.Vregs, float)
            solG2 = ctx.call(sG2, X, t)
        except Exception as ex:
            ctx.count("call_exception:GenEOS:%s" % type(ex).__name__)
            ctx.dg.add("excG", type(ex).__name__)
            continue
        ctx.count("a:cell:%s|%s" % (patI, W["du"]))
        ctx.count("a:located_discontinuities", len(jumps))
        # points farther than 3 internal cells from every located discontinuity (class C smears a jump over one cell)
        mask = np.ones(len(X), bool)
        for xj in jumps:
            mask &= np.abs(X - xj) > 3.0 * h
        if not mask.any():
            continue
        vs = max(vel_scale(solI), vel_scale(solG))
        recorded = (W["lr"] != "distinct") or (patI == "SCR" and W["du"] == "du!=0")
        dmax = 0.0
        for f in FIELDS:
            S = vs if f == "velocity" else None

            def mm(P, Q):
                return float(oracle.mismatch(np.asarray(P[f], float)[mask], np.asarray(Q[f], float)[mask], scale=S, floor=1.0).max())
            d_ref, d1, d2 = mm(solG, solG2), mm(solI, solG), mm(solI, solG2)
            tol = min(A_CAP, A_FACTOR * d_ref + A_FLOOR)
            ctx.dg.add(d_ref, d1, d2)
            dmax = max(dmax, d1)
            ctx.compare(pair, c, where, solI, solG, [f], tol, scales={"velocity": vs}, mask=mask, floor=1.0,
                        detail={"h": h, "excluded_points": int((~mask).sum()), "geneos_self_difference_N_vs_4N": d_ref}, cal=False)
            if not recorded:
                ctx.worst["IGEOS~GenEOS"] = max(ctx.worst.get("IGEOS~GenEOS", 0.0), d1)
                ctx.worst["IGEOS~GenEOS:mismatch/tol"] = max(ctx.worst.get("IGEOS~GenEOS:mismatch/tol", 0.0), d1 / tol)
                ctx.worst["IGEOS~GenEOS:fine/coarse"] = max(ctx.worst.get("IGEOS~GenEOS:fine/coarse", 0.0), d2 / max(d1, A_FLOOR))
            # convergence, not mere closeness: with 4x the table and grid points the difference to IGEOS must shrink
            # (measured: d2/max(d1, floor) <= 0.25 over the thorough lattice)
            if d1 <= tol and d2 > max(0.5 * d1, A_FLOOR):
                ctx.violation(pair, c, "agree:convergence:" + f, where, d2, max(0.5 * d1, A_FLOOR), {"diff_N": d1, "diff_4N": d2})
        ctx.count("a:refinements")
        # wave pattern and wave speeds as the two solvers report them (public attributes); a wave is "weak" when the star
        # state read off IGEOS's fields is within two table steps of the left or right pressure: a zero-strength wave may
        # legitimately be labelled shock or rarefaction
        pI = np.asarray(solI["pressure"], float)
        uI = np.asarray(solI["velocity"], float)
        inside = (X > W["disturbed"][0]) & (X < W["disturbed"][1])
        star = inside & (np.abs(pI - c["pl"]) > 2.0 / cG["num_int_pts"] * c["pl"]) & (np.abs(pI - c["pr"]) > 2.0 / cG["num_int_pts"] * c["pr"])
        # the star region is where p and u are constant: look at IGEOS's pressure next to the located contact / between waves
        flat = np.zeros(len(X), bool)
        flat[1:-1] = (np.abs(pI[2:] - pI[:-2]) <= 1e-10 * np.abs(pI[1:-1])) & (np.abs(uI[2:] - uI[:-2]) <= 1e-10 * vs)
        weak = not (star & flat).any()
        if weak:
            ctx.count("a:pattern_compare_skipped_zero_strength_wave")
        else:
            tolv = A_CAP          # reported speeds: fixed 2e-2 of (|V| + c); measured worst 3.5e-3 over the thorough lattice, the recorded defect 0.59
            if patI != patG:
                ctx.violation(pair, c, "agree:wave-pattern", where, 1.0, 0.0, {"IGEOS": patI, "GenEOS": patG})
            elif len(VI) == len(VG):
                m = np.abs(VI - VG) / (np.maximum(np.abs(VI), np.abs(VG)) + vs)
                ctx.dg.add(VI, VG)
                if not recorded:
                    ctx.worst["IGEOS~GenEOS:wave-speeds"] = max(ctx.worst.get("IGEOS~GenEOS:wave-speeds", 0.0), float(m.max()))
                    ctx.worst["IGEOS~GenEOS:wave-speeds/tol"] = max(ctx.worst.get("IGEOS~GenEOS:wave-speeds/tol", 0.0), float(m.max()) / tolv)
                if m.max() > tolv:
                    ctx.violation(pair, c, "agree:wave-speeds", where, float(m.max()), tolv, {"IGEOS": VI.tolist(), "GenEOS": VG.tolist()})
            else:
                ctx.violation(pair, c, "agree:wave-speeds", where, 1.0, tolv, {"IGEOS": VI.tolist(), "GenEOS": VG.tolist()})


# ---------------------------------------------------------------------------------------------------------------
# (b) Noh vs Coggeshall 19 vs black-box Noh with an ideal gas
# ---------------------------------------------------------------------------------------------------------------
B_ALPHA = {"geometry": [3, 1, 2], "gamma": [G53, 1.4, 1.2, 3.0], "rho0": [1.0, 2.5], "u0": [-1.0, -0.5]}
B_GUESS = list(hm.BBNOH_GUESS) + [[50.0, 1.0, 0.5], "near"]      # + the shipped spherical example's guess, + a guess near the root
HYDRO4 = ("density", "velocity", "pressure", "specific_internal_energy")


def tasks_b(tier):
    # full product (48 vectors): the shared parameters are few and the solvers closed-form / one Newton solve
    return [{"route": "b", "dev": d} for d in lattice.enumerate_checked(B_ALPHA, len(B_ALPHA))]


def bb_build(kind, geometry, gamma, rho0, u0, guess):
    """Black-box Noh with an ideal gas: through the geometry wrapper (kind='wrapper': initial_conditions only) or through
    the general class with matching geometry/symmetry and rho0/u0 keywords (kind='base')."""
    from exactpack.solvers.nohblackboxeos.equations_of_state import eos_library as E
    eos = E.ideal_gas_eos(gamma=gamma)
    ic = {"density": rho0, "velocity": u0, "pressure": 0}
    with contextlib.redirect_stdout(io.StringIO()):
        if kind == "wrapper":
            cls = get_class("nohblackboxeos.blackboxnoh." + {1: "Planar", 2: "Cylindrical", 3: "Spherical"}[geometry] + "NohBlackBox")
            s = cls(eos, ic)
        else:
            cls = get_class("nohblackboxeos.blackboxnoh.NohBlackBoxEos")
            s = cls(eos, dict(ic, symmetry=geometry - 1), geometry=geometry, rho0=rho0, u0=u0)
        if guess == "near":
            # strong-shock ideal-gas values (textbook Noh), each off by 20-25 % so the iteration has work to do
            rs = rho0 * ((gamma + 1.0) / (gamma - 1.0)) ** geometry
            guess = [0.8 * rs, 0.8 * (gamma - 1.0) * rs * u0 * u0 / 2.0, 1.25 * (gamma - 1.0) * abs(u0) / 2.0]
        if guess != "default":
            s.set_new_solver_initial_guess(list(guess))
    return s


def run_b(task, ctx):
    c = lattice.full_cfg(B_ALPHA, task["dev"])
    g, gam, rho0, u0 = c["geometry"], c["gamma"], c["rho0"], c["u0"]
    fN = hydro.by_name("Noh")
    noh = construct(fN["path"], c)
    cogs = {G: construct("cog.cog19.Cog19", dict(c, Gamma=G)) for G in (40.0, 1.0)}
    icflag = "default" if (rho0, u0) == (1.0, -1.0) else "non-default"
    for t in (0.3, 0.6):
        a, b = fN["domain"](c, t)
        # shock located from Noh's returned fields
        calls = [0]

        def F(x):
            calls[0] += 1
            sol = call(noh, np.asarray(x, float), t)
            return np.array([np.asarray(sol[n], float) for n in HYDRO4])
        jumps = oracle.locate_jumps(F, a, b, n=257, max_jumps=1)
        ctx.res["evals"] += calls[0]
        pts = list(hydro.base_lattice(a, b, 24))
        for j in jumps:
            for d in (1e-6, 1e-3, 3e-2):
                pts += [j["x"] * (1 - d), j["x"] * (1 + d)]
        pts = np.array(sorted(p for p in pts if p > 0))
        A = ctx.call(noh, pts, t)
        ctx.count("b:located_shocks", len(jumps))
        for G, s in cogs.items():
            ctx.compare("Noh~Cog19", dict(c, Gamma=G), {"t": t}, A, ctx.call(s, pts, t), HYDRO4, TOL_A, scales={"velocity": abs(u0)})
        for kind in ("wrapper", "base"):
            for guess in B_GUESS:
                pair = "Noh~BBNoh" if kind == "wrapper" else "Noh~BBNohBase"
                try:
                    s = bb_build(kind, g, gam, rho0, u0, guess)
                    with np.errstate(all="ignore"):
                        Bs = ctx.call(s, pts, t)
                    D = float(s.shock_speed)
                except Inadmissible:
                    ctx.count("inadmissible_vectors")
                    continue
                except Exception as ex:      # Newton failures (ZeroDensityError, IterationError, LinAlgError): C16/C20's business
                    ctx.count("call_exception:BBNoh:%s" % type(ex).__name__)
                    ctx.dg.add("exc", type(ex).__name__)
                    continue
                root = "physical" if D > 0 else "spurious-D<=0"
                ctx.count("b:bb_root:%s" % root)
                where = {"t": t, "guess": str(guess), "bb_root": root, "ic": icflag}
                ctx.compare(pair, c, where, A, Bs, HYDRO4, TOL_BB, scales={"velocity": abs(u0)}, detail={"shock_speed": D},
                            cal=(root == "physical" and (kind == "base" or icflag == "default")))


# ---------------------------------------------------------------------------------------------------------------
# (c) Noh2 vs its Coggeshall form vs Coggeshall 1 with b = 0 under t -> 1 - t, u -> -u
# ---------------------------------------------------------------------------------------------------------------
C_ALPHA = {"geometry": [3, 1, 2], "gamma": [G53, 1.4, 3.0], "rho0": [1.0, 2.5], "e0": [1.0, 0.3], "Gamma": [1.0, 40.0]}


def tasks_c(tier):
    return [{"route": "c", "dev": d} for d in lattice.enumerate_checked(C_ALPHA, len(C_ALPHA))]


def run_c(task, ctx):
    c = lattice.full_cfg(C_ALPHA, task["dev"])
    base = {k: c[k] for k in ("geometry", "gamma", "rho0", "e0")}
    noh2 = construct("noh2.noh2.Noh2", base)
    n2c = construct("noh2.noh2_cog.Noh2Cog", base)
    # documented reduction (noh2_cog.py): Cog1 with b = 0 and T0 = e0 (gamma-1)/Gamma at time 1 - t, velocity sign flipped
    cog1 = construct("cog.cog1.Cog1", {"geometry": c["geometry"], "gamma": c["gamma"], "rho0": c["rho0"], "b": 0.0,
                                        "temp0": c["e0"] * (c["gamma"] - 1.0) / c["Gamma"], "Gamma": c["Gamma"]})
    r = hydro.base_lattice(0.05, 2.0, 24)
    for t in (0.1, 0.5, 0.9):
        A = ctx.call(noh2, r, t)
        vs = float(np.abs(np.asarray(A["velocity"], float)).max())
        if c["Gamma"] == C_ALPHA["Gamma"][0]:
            ctx.compare("Noh2~Noh2Cog", base, {"t": t}, A, ctx.call(n2c, r, t), HYDRO4, TOL_A, scales={"velocity": vs})
        Bc = ctx.call(cog1, r, 1.0 - t)
        Bd = {f: np.asarray(Bc[f], float) for f in HYDRO4}
        Bd["velocity"] = -Bd["velocity"]
        ctx.compare("Noh2~Cog1(b=0)", c, {"t": t}, A, Bd, HYDRO4, TOL_A, scales={"velocity": vs})


# ---------------------------------------------------------------------------------------------------------------
# (d) every geometry wrapper vs the general class with that geometry (auto-paired by MRO)
# ---------------------------------------------------------------------------------------------------------------
PREFIX_GEOMETRY = {"Planar": 1, "Cylindrical": 2, "Spherical": 3}
# documented reductions that are not named after a geometry (class docstrings of cog6.py / cog7.py)
DOCUMENTED_PINS = {"Kidder74": {"geometry": 3, "b": 3.0}, "Kidder76": {"geometry": 3, "b": 0.0}}
SANDWICHES = ("PlanarSandwich", "PlanarSandwichHot", "PlanarSandwichHalf")
BB_WRAPPERS = ("PlanarNohBlackBox", "CylindricalNohBlackBox", "SphericalNohBlackBox")
OTHER_ROUTES = {"Noh2Cog": "c"}


def wrapper_pairs():
    """(qualified wrapper name, wrapper class, base class, documented pins) for every discovered solver class whose direct
    base is another discovered solver class; plus the list of such classes no route of this module covers."""
    from exactpack.base import ExactSolver
    d = discover()
    classes = set(d.values())
    pairs, uncovered = [], []
    for q, W in d.items():
        B = W.__mro__[1]
        if B is ExactSolver or B not in classes:
            continue
        name = W.__name__
        if name in SANDWICHES or name in BB_WRAPPERS or name in OTHER_ROUTES:
            continue
        generic = set(W.parameters) < set(B.parameters) and "_run" not in W.__dict__ and "__init__" not in W.__dict__
        pins = None
        if name in DOCUMENTED_PINS:
            pins = dict(DOCUMENTED_PINS[name])
        else:
            for pre, g in PREFIX_GEOMETRY.items():
                if name.startswith(pre) and name[len(pre):] == B.__name__:
                    pins = {"geometry": g}
        if not generic or pins is None or "geometry" not in B.parameters:
            uncovered.append(q)
            continue
        pairs.append((q, W, B, pins))
    return pairs, uncovered


def family_of(B):
    for f in hydro.FAMILIES:
        try:
            if get_class(f["path"]) is B:
                return f
        except Exception:
            continue
    return None


def shared_alphabet(W, B, f):
    """The base family's alphabet restricted to the parameters the wrapper accepts; symbolic values (Sedov's omega tags)
    never occur because no wrapper accepts those parameters."""
    return {p: list(v) for p, v in f["alphabet"].items() if p in W.parameters and p in B.parameters and not p.startswith("_")}


def tasks_d(tier):
    out = []
    k = 1 if tier == "quick" else 2
    pairs, uncovered = wrapper_pairs()
    for q, W, B, pins in pairs:
        f = family_of(B)
        if f is None:
            out.append({"route": "d", "wrapper": q, "dev": None})        # reported as uncovered by run_d
            continue
        for dev in lattice.enumerate_checked(shared_alphabet(W, B, f), k):
            out.append({"route": "d", "wrapper": q, "dev": dev})
    for u in uncovered:
        out.append({"route": "d", "wrapper": u, "dev": None})
    # black-box Noh wrappers (constructor takes an EOS object): every EOS x guess x geometry
    kk = 2 if tier == "quick" else 3
    al = {"geometry": [3, 1, 2], "eos": hm.BBNOH_EOS, "guess": hm.BBNOH_GUESS}
    for dev in lattice.enumerate_checked(al, kk):
        out.append({"route": "d", "bb": True, "dev": dev})
    return out


def run_d(task, ctx):
    if task.get("bb"):
        return run_d_bb(task, ctx)
    pairs, uncovered = wrapper_pairs()
    hit = [p for p in pairs if p[0] == task["wrapper"]]
    if not hit or task["dev"] is None:
        raise RuntimeError("solver class %s derives from another solver class but no route of C07 pairs it" % task["wrapper"])
    q, W, B, pins = hit[0]
    f = family_of(B)
    al = shared_alphabet(W, B, f)
    shared = lattice.full_cfg(al, task["dev"])
    # parameters of the general class the wrapper does not accept: geometry (and Kidder's b) as documented, the rest = the
    # wrapper's own class attribute (e.g. the Sedov wrappers' tabulated blast energies)
    basekw = dict(shared)
    for p in B.parameters:
        if p not in W.parameters:
            basekw[p] = pins[p] if p in pins else getattr(W, p)
    pair = "%s~%s" % (W.__name__, B.__name__)
    try:
        sW = construct(q, shared)
        sB = construct(f["path"], basekw)
    except Inadmissible:
        ctx.count("inadmissible_vectors")
        return
    except Exception as ex:
        ctx.count("construct_exception:%s" % type(ex).__name__)
        return
    full = {p: getattr(sB, p) for p in B.parameters}
    if "_pair" in f["alphabet"]:
        return
    for t in f["times"](full):
        try:
            if f["name"] == "Sedov":
                # both routes run the same table code on the same batch (same internal grid): a plain lattice reaching past the
                # shock is enough, and far cheaper than locating the shock to 1e-13 through a 0.5 s solver
                rmax = hm.sedov_shock_radius(sB, t)
                pts, nc = np.append(hydro.base_lattice(0.0, rmax, 40), 1.5 * rmax), 8
            else:
                pts, nj, nc = hydro.sample_points(f, full, t, sB)
            ctx.res["evals"] += nc
        except Exception as ex:
            # the general class raised while its discontinuities were being located: fall back to the plain lattice so that
            # the wrapper is still asked the same question
            if f.get("domain") is None:
                ctx.count("call_exception:%s:%s" % (B.__name__, type(ex).__name__))
                continue
            pts = hydro.base_lattice(*f["domain"](full, t), 24)
        outs = []
        for sx in (sB, sW):
            try:
                outs.append(("ok", ctx.call(sx, pts, t)))
            except Exception as ex:
                outs.append(("exc", type(ex).__name__))
        if outs[0][0] == "exc" or outs[1][0] == "exc":
            # a raising call is C20's business; here only the *same* outcome through both routes is demanded
            ctx.dg.add("exc", str(outs[0][1])[:40], str(outs[1][1])[:40])
            if outs[0][0] != outs[1][0] or outs[0][1] != outs[1][1]:
                ctx.violation(pair, shared, "agree:outcome", {"t": t}, 1.0, 0.0, {"base": str(outs[0][1])[:60], "wrapper": str(outs[1][1])[:60]})
            else:
                ctx.count("call_exception:%s:%s" % (B.__name__, outs[0][1]))
                ctx.count("pair_both_routes_raise:" + pair)
            continue
        A, Bs = outs[0][1], outs[1][1]
        names = [n for n in A.dtype.names if A[n].dtype.kind in "fiu"]
        if tuple(A.dtype.names) != tuple(Bs.dtype.names):
            ctx.violation(pair, shared, "agree:field-names", {"t": t}, 1.0, 0.0, {"base": list(A.dtype.names), "wrapper": list(Bs.dtype.names)})
            continue
        ctx.compare(pair, dict(shared, **{"pinned_" + k: v for k, v in basekw.items() if k not in shared}), {"t": t}, A, Bs, names, TOL_A)


def run_d_bb(task, ctx):
    al = {"geometry": [3, 1, 2], "eos": hm.BBNOH_EOS, "guess": hm.BBNOH_GUESS}
    c = lattice.full_cfg(al, task["dev"])
    g = c["geometry"]
    pair = "%sNohBlackBox~NohBlackBoxEos" % {1: "Planar", 2: "Cylindrical", 3: "Spherical"}[g]
    outs = []
    for kind in ("wrapper", "base"):
        try:
            if kind == "wrapper":
                s = hm.bbnoh_build(c)
            else:
                eos = hm.eos_object(c["eos"])
                with contextlib.redirect_stdout(io.StringIO()):
                    s = get_class("nohblackboxeos.blackboxnoh.NohBlackBoxEos")(eos, {"density": 1, "velocity": -1, "pressure": 0, "symmetry": g - 1}, geometry=g)
                    if c["guess"] != "default":
                        s.set_new_solver_initial_guess(list(c["guess"]))
            sols = []
            for t in (0.3, 0.6):
                r = hydro.base_lattice(0.01 * t, 1.5 * t, 24)
                with np.errstate(all="ignore"):
                    sols.append(ctx.call(s, r, t))
            outs.append(("ok", sols))
        except Inadmissible:
            outs.append(("exc", "Inadmissible"))
        except Exception as ex:
            outs.append(("exc", type(ex).__name__))
            ctx.count("call_exception:BBNoh:%s" % type(ex).__name__)
    cfg = {"geometry": g, "eos": str(c["eos"]), "guess": str(c["guess"])}
    if outs[0][0] != outs[1][0] or (outs[0][0] == "exc" and outs[0][1] != outs[1][1]):
        ctx.violation(pair, cfg, "agree:outcome", {}, 1.0, 0.0, {"wrapper": str(outs[0])[:80], "base": str(outs[1])[:80]})
        return
    if outs[0][0] == "exc":
        ctx.dg.add("exc", outs[0][1])
        return
    for t, A, Bs in zip((0.3, 0.6), outs[1][1], outs[0][1]):
        ctx.compare(pair, cfg, {"t": t}, A, Bs, HYDRO4, TOL_A)


# ---------------------------------------------------------------------------------------------------------------
# (e) planar sandwiches vs the 1D rod with the mapped boundary parameters; rod BC3 vs the mirror image of BC4
# ---------------------------------------------------------------------------------------------------------------
E_COMMON = {"kappa": [1.0, 0.5], "L": [2.0, 1.5], "Nsum": [1000, 100, 10000], "TL": [3.0, 0.0, 1.0], "TR": [3.0, 0.0, 2.0]}
E_SANDWICH = {
    # wrapper -> (own boundary parameters alphabet, mapping to (alpha1, beta1, gamma1, alpha2, beta2, gamma2) of the rod,
    #             written from the wrappers' documentation: BC1 / BC2 / BC3 of rod1d.py)
    "PlanarSandwich": ("heat.planar_sandwich.PlanarSandwich", {"TB": [1.0, 0.0, 2.5], "TT": [0.0, 1.5]},
                       lambda c: dict(alpha1=1.0, beta1=0.0, gamma1=c["TB"], alpha2=1.0, beta2=0.0, gamma2=c["TT"])),
    "PlanarSandwichHot": ("heat.planar_sandwich_hot.PlanarSandwichHot", {"F": [0.0, 0.7, -1.2]},
                          lambda c: dict(alpha1=0.0, beta1=1.0, gamma1=c["F"], alpha2=0.0, beta2=1.0, gamma2=c["F"])),
    "PlanarSandwichHalf": ("heat.planar_sandwich_half.PlanarSandwichHalf", {"TB": [1.0, 0.0, 2.5], "FT": [0.0, 0.7, -1.2]},
                           lambda c: dict(alpha1=1.0, beta1=0.0, gamma1=c["TB"], alpha2=0.0, beta2=1.0, gamma2=c["FT"])),
}
E_MIRROR = {"kappa": [1.0, 0.5], "L": [2.0, 1.5], "Nsum": [100, 1000], "TL": [3.0, 0.0, 1.0], "TR": [3.0, 0.0, 2.0],
            "T1": [0.0, 1.0, 2.5], "F2": [0.0, 0.7, -1.2], "a": [1.0, 2.0], "b": [1.0, 0.5]}
E_TIMES = (0.0, 0.01, 0.1, 1.0)


def sandwich_alphabet(name):
    al = dict(E_COMMON)
    al.update(E_SANDWICH[name][1])
    return al


def tasks_e(tier):
    k = 1 if tier == "quick" else 2
    out = []
    for name in E_SANDWICH:
        for dev in lattice.enumerate_checked(sandwich_alphabet(name), k):
            out.append({"route": "e", "sandwich": name, "dev": dev})
    for dev in lattice.enumerate_checked(E_MIRROR, k + 1):
        out.append({"route": "e", "mirror": True, "dev": dev})
    return out


def run_e(task, ctx):
    if task.get("mirror"):
        c = lattice.full_cfg(E_MIRROR, task["dev"])
        L = c["L"]
        # BC3: a T(0) = a T1, b dT/dx(L) = b F2.   Mirror image x -> L - x: BC4 with dT/dx(0) = -F2, T(L) = T1, ends swapped.
        bc3 = construct("heat.rod1d.Rod1D", dict(kappa=c["kappa"], L=L, Nsum=c["Nsum"], TL=c["TL"], TR=c["TR"],
                                                 alpha1=c["a"], beta1=0.0, gamma1=c["a"] * c["T1"], alpha2=0.0, beta2=c["b"], gamma2=c["b"] * c["F2"]))
        bc4 = construct("heat.rod1d.Rod1D", dict(kappa=c["kappa"], L=L, Nsum=c["Nsum"], TL=c["TR"], TR=c["TL"],
                                                 alpha1=0.0, beta1=c["b"], gamma1=-c["b"] * c["F2"], alpha2=c["a"], beta2=0.0, gamma2=c["a"] * c["T1"]))
        x = np.linspace(0.0, L, 25)
        S = max(abs(c["TL"]), abs(c["TR"]), abs(c["T1"]), abs(c["F2"]) * L, 1e-300)
        for t in E_TIMES:
            both = _both(ctx, "Rod1D:BC3~mirror(BC4)", c, t, lambda: ctx.call(bc3, x, t), lambda: ctx.call(bc4, L - x, t))
            if both:
                ctx.compare("Rod1D:BC3~mirror(BC4)", c, {"t": t}, both[0], both[1], ["temperature"], TOL_SERIES, scales={"temperature": S}, floor=1.0)
        return
    name = task["sandwich"]
    path, _, mapping = E_SANDWICH[name]
    c = lattice.full_cfg(sandwich_alphabet(name), task["dev"])
    pair = "%s~Rod1D" % name
    rodkw = {k: c[k] for k in E_COMMON}
    rodkw.update(mapping(c))
    try:
        sW = construct(path, c)
        sR = construct("heat.rod1d.Rod1D", rodkw)
    except Inadmissible:
        ctx.count("inadmissible_vectors")
        return
    x = np.linspace(0.0, c["L"], 25)
    for t in E_TIMES:
        both = _both(ctx, pair, c, t, lambda: ctx.call(sR, x, t), lambda: ctx.call(sW, x, t))
        if both:
            ctx.compare(pair, c, {"t": t}, both[0], both[1], ["temperature"], TOL_A, floor=1.0)


def _both(ctx, pair, cfg, t, fa, fb):
    """Call both routes; a raising call is C20's business, but the two routes must have the *same* outcome."""
    outs = []
    for fn in (fa, fb):
        try:
            outs.append(("ok", fn()))
        except Exception as ex:
            outs.append(("exc", type(ex).__name__))
    if outs[0][0] == "ok" and outs[1][0] == "ok":
        return outs[0][1], outs[1][1]
    ctx.dg.add("exc", str(outs[0][1])[:40], str(outs[1][1])[:40])
    if outs[0][0] != outs[1][0] or outs[0][1] != outs[1][1]:
        ctx.violation(pair, cfg, "agree:outcome", {"t": t}, 1.0, 0.0, {"first_route": str(outs[0][1])[:60], "second_route": str(outs[1][1])[:60]})
    else:
        ctx.count("call_exception:%s:%s" % (pair, outs[0][1]))
    return None


# ---------------------------------------------------------------------------------------------------------------
# (f) 2D vs 3D burn-time solvers on a common plane
# ---------------------------------------------------------------------------------------------------------------
F_ALPHA = {
    "Kenamond1": {"D": [1.0, 2.5], "x_d": [[0.0, 0.0], [1.5, -0.7]], "t_d": [0.0, 0.4], "frame": [0, 1, 2], "offset": [0.0, 1.3]},
    "Kenamond2": {"R": [3.0, 2.0], "D1": [2.0, 3.0], "D2": [1.0, 0.5], "dets": [[10.0, 5.0, -5.0, -10.0], [12.0, 6.0, -4.0, -9.0]],
                  "t_d": [[2.0, 1.0, 0.0, 1.0, 2.0], [3.5, 2.5, 0.5, 3.0, 4.0]], "phi": [0.0, 90.0, 37.0, 200.0]},
    "Kenamond3": {"R": [3.0, 1.5], "D": [2.0, 0.7], "x_d": [[0.0, 5.0], [4.0, -3.0], [-6.0, 0.5]], "t_d": [0.0, 1.2], "frame": [0, 1, 2]},
}
# orthonormal pairs (e1, e2) spanning the embedded plane, third vector for an out-of-plane offset (Kenamond1 only)
FRAMES = [
    (np.array([1.0, 0.0, 0.0]), np.array([0.0, 1.0, 0.0]), np.array([0.0, 0.0, 1.0])),
    (np.array([0.0, 1.0, 0.0]), np.array([0.0, 0.0, 1.0]), np.array([1.0, 0.0, 0.0])),
    (np.array([0.6, 0.8, 0.0]), np.array([-0.48, 0.36, 0.8]), np.array([0.64, -0.48, 0.6])),
]


def tasks_f(tier):
    out = []
    for name, al in F_ALPHA.items():
        k = 2 if tier == "quick" else len(al)
        for dev in lattice.enumerate_checked(al, k):
            out.append({"route": "f", "solver": name, "dev": dev})
    return out


def run_f(task, ctx):
    name = task["solver"]
    c = lattice.full_cfg(F_ALPHA[name], task["dev"])
    path = "kenamond.%s.%s" % (name.lower(), name)
    kw = {k: v for k, v in c.items() if k not in ("frame", "offset", "phi")}
    if name == "Kenamond2":
        # detonators on the y axis (2D) / z axis (3D): the plane containing the axis at azimuth phi
        ph = math.radians(c["phi"])
        e1, e2, off = np.array([math.cos(ph), math.sin(ph), 0.0]), np.array([0.0, 0.0, 1.0]), np.zeros(3)
        kw2, kw3 = dict(kw, geometry=2), dict(kw, geometry=3)
        gx = np.linspace(-12.0, 12.0, 9)
        P2 = np.array([[x, y] for x in gx for y in np.linspace(-13.0, 13.0, 11)])
    else:
        e1, e2, e3 = FRAMES[c["frame"]]
        off = e3 * c.get("offset", 0.0)
        xd = np.asarray(c["x_d"], float)
        kw2 = dict(kw, geometry=2, x_d=tuple(xd))
        kw3 = dict(kw, geometry=3, x_d=tuple(xd[0] * e1 + xd[1] * e2 + off))
        if name == "Kenamond1":
            P2 = np.array([[x, y] for x in np.linspace(-10.0, 10.0, 9) for y in np.linspace(-9.0, 11.0, 9)] + [list(xd)])
        else:
            # outside the inert sphere: polar lattice r in [R(1+1e-9), 4R], full circle -> line-of-sight and shadow regions
            R = c["R"]
            P2 = np.array([[r * math.cos(a), r * math.sin(a)] for r in R * np.array([1.0 + 1e-9, 1.2, 2.0, 4.0])
                           for a in np.linspace(0.0, 2.0 * math.pi, 24, endpoint=False) + 0.05])
    P3 = P2[:, :1] * e1[None, :] + P2[:, 1:2] * e2[None, :] + off[None, :]
    try:
        s2 = construct(path, kw2)
        s3 = construct(path, kw3)
    except Inadmissible:
        ctx.count("inadmissible_vectors")
        return
    both = _both(ctx, "%s:2D~3D" % name, c, 0.0, lambda: ctx.call(s2, P2, 0.0), lambda: ctx.call(s3, P3, 0.0))
    if both:
        ctx.compare("%s:2D~3D" % name, c, {}, both[0], both[1], ["burntime"], TOL_A, floor=1.0)


ROUTES = {"a": (tasks_a, run_a), "b": (tasks_b, run_b), "c": (tasks_c, run_c), "d": (tasks_d, run_d), "e": (tasks_e, run_e),
          "f": (tasks_f, run_f)}
