"""Burn-time families shared by props/C13.py (first-arrival-time field) and props/C09.py (rigid symmetries).

Nothing here is imported from the code under test: the geometry below (material of a point, tangent points of
the shadow boundary, admissibility of a vector) is written from the package docstrings of
exactpack.solvers.kenamond.{kenamond1,kenamond2,kenamond3} and exactpack.solvers.dsd.cylexpansion.

A *family* is a dict  name, path, alphabet (parameter -> [default, alternatives...]), and the functions
    cfg(dev)            -> abstract configuration (deviation dict filled with the defaults)
    kwargs(c)           -> constructor kwargs for the real class, or None when the vector is outside the
                           *documented* admissible set although the constructor would accept it
    dim(c), L(c)        -> spatial dimension, characteristic length
"""
import math

import numpy as np

# ---------------------------------------------------------------------------------------------- alphabets

_S2, _S3 = math.sqrt(0.5), math.sqrt(1.0 / 3.0)

K1_XD = {2: [(0.0, 0.0), (1.5, -0.5), (-2.0, 3.0)],
         3: [(0.0, 0.0, 0.0), (1.5, -0.5, 2.0), (-2.0, 3.0, -1.0)]}

# Kenamond3 detonator directions (unit vectors); index 0 is the direction of the class default (0, 5)
K3_DIR = {2: [(0.0, 1.0), (1.0, 0.0), (0.0, -1.0), (-1.0, 0.0), (_S2, _S2), (-_S2, _S2),
              (math.cos(math.radians(200.0)), math.sin(math.radians(200.0))),
              (math.cos(math.radians(-30.0)), math.sin(math.radians(-30.0)))],
          3: [(0.0, 1.0, 0.0), (0.0, 0.0, 1.0), (1.0, 0.0, 0.0), (_S2, _S2, 0.0), (0.0, -_S2, _S2), (_S3, _S3, _S3),
              (-1.0 / 3.0, 2.0 / 3.0, -2.0 / 3.0), (2.0 / math.sqrt(5.25), -1.0 / math.sqrt(5.25), 0.5 / math.sqrt(5.25))]}

ALPHABET = {
    "Kenamond1": {"geometry": [2, 3], "D": [1.0, 2.5], "xd": [0, 1, 2], "t_d": [0.0, 0.7, -1.3]},
    # detonator positions a_d1, a_d2, a_d4, a_d5 and times t_d1..t_d5; "min" = exactly the documented lower bound
    # t_d3 + R (1/D1 + 1/D2) - |a|/D2, "min+" = the bound + 0.25
    "Kenamond2": {"geometry": [2, 3], "R": [3.0, 1.5], "D1": [2.0, 1.0, 3.5], "D2": [1.0, 2.0, 0.5],
                  "a1": [10.0, 7.0, 3.2], "a2": [5.0, 3.5, 12.0], "a4": [-5.0, -3.5, 4.0], "a5": [-10.0, -6.5],
                  "t1": [2.0, 3.5, "min"], "t2": [1.0, 2.2, "min"], "t3": [0.0, 0.4, -1.0],
                  "t4": [1.0, "min", 5.0], "t5": [2.0, "min+", 0.9]},
    "Kenamond3": {"geometry": [2, 3], "R": [3.0, 1.0], "D": [2.0, 0.7], "dir": [0, 1, 2, 3, 4, 5, 6, 7],
                  "dist": [5.0, 9.0, 3.3], "t_d": [0.0, 0.7]},
    "CylindricalExpansion": {"r_1": [1.0, 0.5], "r_2": [2.0, 3.5], "D_CJ_1": [0.5, 1.5], "D_CJ_2": [1.0, 0.4],
                             "alpha_1": [0.1, 0.0, 0.3], "alpha_2": [0.1, 0.0, 0.3], "t_d": [0.0, 0.7]},
}
PATH = {"Kenamond1": "kenamond.kenamond1.Kenamond1", "Kenamond2": "kenamond.kenamond2.Kenamond2",
        "Kenamond3": "kenamond.kenamond3.Kenamond3", "CylindricalExpansion": "dsd.cylexpansion.CylindricalExpansion"}


def full(fam, dev):
    c = {k: v[0] for k, v in ALPHABET[fam].items()}
    c.update(dev)
    return c


def dim(fam, c):
    return int(c.get("geometry", 2))


def k2_bound(c, a):
    """documented lower bound of the detonation time of an outer detonator at axial position a"""
    return c["t3"] + c["R"] * (1.0 / c["D1"] + 1.0 / c["D2"]) - abs(a) / c["D2"]


def k2_resolved(c):
    """positions a[5] (detonator 3 at 0) and times t[5] with the symbolic 'min' entries resolved"""
    a = [c["a1"], c["a2"], 0.0, c["a4"], c["a5"]]
    t = []
    for i, key in enumerate(("t1", "t2", "t3", "t4", "t5")):
        v = c[key]
        if v == "min":
            v = k2_bound(c, a[i])
        elif v == "min+":
            v = k2_bound(c, a[i]) + 0.25
        t.append(float(v))
    return a, t


def kwargs(fam, c):
    """Constructor kwargs; None when the vector violates a *documented* condition the constructor does not test."""
    if fam == "Kenamond1":
        g = c["geometry"]
        return {"geometry": g, "D": c["D"], "x_d": tuple(K1_XD[g][c["xd"]]), "t_d": c["t_d"]}
    if fam == "Kenamond2":
        a, t = k2_resolved(c)
        return {"geometry": c["geometry"], "R": c["R"], "D1": c["D1"], "D2": c["D2"],
                "dets": [a[0], a[1], a[3], a[4]], "t_d": t}
    if fam == "Kenamond3":
        g = c["geometry"]
        d = K3_DIR[g][c["dir"]]
        return {"geometry": g, "R": c["R"], "D": c["D"], "x_d": tuple(c["dist"] * x for x in d), "t_d": c["t_d"]}
    if fam == "CylindricalExpansion":
        # documented: r_1 > alpha_1/D_CJ_1 and r_2 > alpha_2/D_CJ_2 (the constructor does not test it; C20's business)
        if not (c["r_1"] > c["alpha_1"] / c["D_CJ_1"] and c["r_2"] > c["alpha_2"] / c["D_CJ_2"]):
            return None
        return {k: c[k] for k in ("r_1", "r_2", "D_CJ_1", "D_CJ_2", "alpha_1", "alpha_2", "t_d")}
    raise KeyError(fam)


def length(fam, c):
    return {"Kenamond1": 3.0, "Kenamond2": c.get("R"), "Kenamond3": c.get("R"),
            "CylindricalExpansion": c.get("r_2")}[fam]


def speeds(fam, c):
    if fam == "Kenamond1":
        return [c["D"]]
    if fam == "Kenamond2":
        return [c["D1"], c["D2"]]
    if fam == "Kenamond3":
        return [c["D"]]
    return [c["D_CJ_1"] - c["alpha_1"] / c["r_1"], c["D_CJ_2"] - c["alpha_2"] / c["r_2"]]


def detonators(fam, c):
    """list of (position, time) of the point detonators (DSD: the initiating circle has no point detonator)"""
    if fam == "Kenamond1":
        return [(np.array(K1_XD[c["geometry"]][c["xd"]], float), float(c["t_d"]))]
    if fam == "Kenamond2":
        a, t = k2_resolved(c)
        out = []
        for ai, ti in zip(a, t):
            p = np.zeros(c["geometry"])
            p[-1] = ai
            out.append((p, ti))
        return out
    if fam == "Kenamond3":
        g = c["geometry"]
        return [(c["dist"] * np.array(K3_DIR[g][c["dir"]], float), float(c["t_d"]))]
    return []


def t_first(fam, c):
    """earliest detonation time of the configuration"""
    if fam == "CylindricalExpansion":
        return float(c["t_d"])
    return min(t for _, t in detonators(fam, c))


# ---------------------------------------------------------------------------------------------- point lattices

RADII = {
    "Kenamond1": [0.1, 0.25, 0.45, 0.7, 1.0, 1.3, 1.7, 2.1, 2.6, 3.2, 4.0, 5.0],            # x L
    "Kenamond2": [0.15, 0.4, 0.7, 0.93, 1.0, 1.08, 1.3, 1.7, 2.2, 2.9, 3.6, 4.5],           # x R (1.0: the interface)
    "Kenamond3": [1.0, 1.02, 1.15, 1.4, 1.7, 2.0, 2.4, 2.8, 3.3, 3.8, 4.4, 5.0],            # x R (1.0: obstacle surface)
}
POLAR = [0.5 * math.pi, 0.25 * math.pi, 0.75 * math.pi, 0.125 * math.pi, 0.9 * math.pi]


def radii(fam, c):
    if fam == "CylindricalExpansion":
        r1, r2 = c["r_1"], c["r_2"]
        w = r2 - r1
        return [r1, r1 + 0.07 * w, r1 + 0.3 * w, r1 + 0.6 * w, r1 + 0.93 * w, r2,
                r2 + 0.05 * w, r2 + 0.3 * w, r2 + 0.8 * w, r2 + 1.5 * w, r2 + 2.5 * w, r2 + 4.0 * w]
    Lc = length(fam, c)
    return [Lc * f for f in RADII[fam]]


def unit_dirs(d, nang=24):
    """deterministic direction lattice: 2D 24 angles (multiples of 15 degrees, so the axes and the detonator axis
    are hit); 3D 24 azimuths x 5 polar angles + the two poles"""
    out = []
    if d == 2:
        for k in range(nang):
            a = 2.0 * math.pi * k / nang
            out.append((math.cos(a), math.sin(a)))
    else:
        for th in POLAR:
            for k in range(nang):
                a = 2.0 * math.pi * k / nang
                out.append((math.sin(th) * math.cos(a), math.sin(th) * math.sin(a), math.cos(th)))
        out += [(0.0, 0.0, 1.0), (0.0, 0.0, -1.0)]
    U = np.array(out, float)
    U[np.abs(U) < 1e-15] = 0.0
    return U


def polar_lattice(fam, c, nang=24):
    U = unit_dirs(dim(fam, c), nang)
    rs = radii(fam, c)
    P = np.concatenate([r * U for r in rs], axis=0)
    ridx = np.repeat(np.arange(len(rs)), len(U))
    return P, ridx


def keep_outside(P, R):
    """Move points that rounding put a few ulp inside the sphere |p| = R back onto/outside it (Kenamond3 accepts only
    points with sqrt(p.p) >= R; a lattice point *on* the surface is representable only up to rounding).  Both ways a
    user would form the norm (row-wise dot product, vectorised sum of squares) must say 'not inside'."""
    P = np.array(P, float)
    r = np.sqrt(np.einsum("ij,ij->i", P, P))
    for i in np.where(np.abs(r - R) <= 1e-12 * R)[0]:
        v = P[i]
        for _ in range(16):
            if math.sqrt(float(np.dot(v, v))) >= R and math.sqrt(float(np.einsum("j,j->", v, v))) >= R \
                    and float(np.sqrt(np.einsum("ij,ij->i", v[None, :], v[None, :]))[0]) >= R:
                break
            v = v * (1.0 + 4e-16)
        P[i] = v
    return P


# ---------------------------------------------------------------------------------------------- Kenamond3 geometry

def k3_frame(c):
    """unit vector towards the detonator, |x_d|, psi = arccos(R/|x_d|)"""
    g = c["geometry"]
    d = np.array(K3_DIR[g][c["dir"]], float)
    lod = float(c["dist"])
    return d, lod, math.acos(c["R"] / lod)


def perp_basis(d):
    """orthonormal vectors spanning the plane perpendicular to the unit vector d (one vector in 2D, two in 3D)"""
    d = np.asarray(d, float)
    if len(d) == 2:
        return [np.array([-d[1], d[0]])]
    k = int(np.argmin(np.abs(d)))
    e = np.zeros(3)
    e[k] = 1.0
    u = np.cross(d, e)
    u /= np.linalg.norm(u)
    v = np.cross(d, u)
    return [u, v]


def k3_shadow_rays(c, nazi=8):
    """The shadow boundary: tangent lines from the detonator, continued beyond the tangent points.
    Returns a list of (tangent point a, unit direction tau along the boundary away from the detonator,
    unit normal n pointing *into the shadow*)."""
    d, lod, psi = k3_frame(c)
    R = c["R"]
    basis = perp_basis(d)
    if len(basis) == 1:
        sides = [basis[0], -basis[0]]
    else:
        sides = [math.cos(2 * math.pi * k / nazi + 0.1) * basis[0] + math.sin(2 * math.pi * k / nazi + 0.1) * basis[1]
                 for k in range(nazi)]
    out = []
    xd = lod * d
    for e in sides:
        a = R * (math.cos(psi) * d + math.sin(psi) * e)
        tau = (a - xd) / np.linalg.norm(a - xd)
        # at the tangent point the radius is perpendicular to the tangent line; the shadow lies on the side of the
        # tangent line that contains the obstacle centre, i.e. towards -a
        n = -a / R
        out.append((a, tau, n))
    return out


def k3_axis_behind(c, P, tol=1e-6):
    """True for points on the ray through the obstacle centre pointing away from the detonator (the line where the
    two creeping waves meet; the documented alpha = arccos(.) is evaluated at argument +-1 there)."""
    d, lod, psi = k3_frame(c)
    P = np.asarray(P, float)
    r = np.sqrt(np.einsum("ij,ij->i", P, P))
    along = P @ d
    perp = P - along[:, None] * d[None, :]
    perp = np.sqrt(np.einsum("ij,ij->i", perp, perp))
    return (along < 0) & (perp <= tol * r)


def k3_cond_floor(c, P, safety=10.0):
    """Absolute rounding floor of a Kenamond3 burn time.  The documented shadow formula takes arccos of R/|p| and of
    the cosine between p and -x_d; arccos(1 - delta) has condition number 1/sqrt(2 delta), so within a relative
    distance eps of the obstacle surface, or at an angle a from the axis behind the obstacle, a one-ulp error of the
    argument moves the burn time by (R/D) 1.1e-16 / sqrt(2 eps) resp. (R/D) 1.1e-16 / sin(a).  Measured: 7.5e-9 one ulp
    off the surface (R=3, D=2), 2.2e-8 on the axis; at most sqrt(1.1e-16) R/D = 1.05e-8 R/D per term."""
    d, lod, psi = k3_frame(c)
    P = np.asarray(P, float)
    R, D = float(c["R"]), float(c["D"])
    r = np.sqrt(np.einsum("ij,ij->i", P, P))
    eps = np.maximum((r - R) / R, 1.1e-16)
    along = P @ d
    perp = P - along[:, None] * d[None, :]
    sina = np.sqrt(np.einsum("ij,ij->i", perp, perp)) / np.where(r > 0, r, 1.0)
    sina = np.maximum(sina, 1.5e-8)
    u = 1.1e-16 * R / D
    return safety * u * (1.0 / np.sqrt(2.0 * eps) + np.where(along < 0, 1.0 / sina, 0.0))


# ---------------------------------------------------------------------------------------------- materials

def region(fam, c, P):
    """integer material/region label of every point:  -1 = not explosive (inert obstacle interior, inside the DSD
    initiating circle), 0 / 1 = explosive number.  Points exactly on an interface get the label of the outer side."""
    P = np.asarray(P, float)
    r = np.sqrt(np.einsum("ij,ij->i", P, P))
    if fam == "Kenamond1":
        return np.zeros(len(P), int)
    if fam == "Kenamond2":
        return np.where(r < c["R"], 0, 1)
    if fam == "Kenamond3":
        return np.where(r < c["R"], -1, 0)
    return np.where(r < c["r_1"], -1, np.where(r < c["r_2"], 0, 1))


def interfaces(fam, c):
    """radii of the spherical/cylindrical loci across which the material (or its existence) changes"""
    if fam == "Kenamond2":
        return [c["R"]]
    if fam == "Kenamond3":
        return [c["R"]]
    if fam == "CylindricalExpansion":
        return [c["r_1"], c["r_2"]]
    return []


def local_speed(fam, c, P, rmin=None):
    """documented normal speed of the front at the points P (DSD: D_CJ - alpha/r, with r replaced by rmin when given,
    which makes it a lower bound of the speed on a path whose smallest radius is rmin)."""
    P = np.asarray(P, float)
    r = np.sqrt(np.einsum("ij,ij->i", P, P))
    if fam in ("Kenamond1", "Kenamond3"):
        return np.full(len(P), float(c["D"]))
    if fam == "Kenamond2":
        return np.where(r < c["R"], float(c["D1"]), float(c["D2"]))
    rr = r if rmin is None else np.asarray(rmin, float)
    with np.errstate(all="ignore"):
        return np.where(r < c["r_2"], c["D_CJ_1"] - c["alpha_1"] / rr, c["D_CJ_2"] - c["alpha_2"] / rr)


def time_scale(fam, c):
    return 5.0 * length(fam, c) / min(speeds(fam, c)) + abs(t_first(fam, c)) + 1.0
