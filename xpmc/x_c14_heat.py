"""C14 helper: the documented heat-conduction problems (PDE, boundary operators, initial and steady profiles) and
the finite-difference oracles that decide whether a returned temperature field solves them.

Nothing here is imported from the code under test: every problem below is transcribed from the docstrings of
exactpack/solvers/heat/*.py (the *documented* problem is the oracle), the static solutions are solved here from the
documented boundary operators, and all derivatives are finite differences of public solver calls.

Coordinates ("geom"):  x (1D slab), rs (1D spherical radius), xy (2D Cartesian), rz (2D cylinder r,z),
rt (2D polar r,theta).  A 2D batch is passed to the solver as an array of shape (2, N) -- the layout every 2D heat
solver indexes (points[0], points[1]); the layout contract itself is C05's business.
"""
import math

import numpy as np

from xpmc.solvers import construct, call, Inadmissible

FR9 = [i / 10.0 for i in range(1, 10)]          # 1D interior lattice (fractions of the length)
FR5 = [0.1, 0.3, 0.5, 0.7, 0.9]                 # per-axis lattice in 2D (interior 5x5, faces 5)
T_FRACS = [1e-3, 0.05, 0.3, 2.0]                # times, in units of tscale = L^2/kappa
T_INIT = [1e-2, 1e-3, 1e-4]                     # t -> 0+ sequence
T_INF = 1000.0                                  # t -> infinity (the weakest Robin pair of the alphabet has mu_0^2 = 0.17: exp(-17) at 100)
H_INT = [4e-3, 2e-3, 1e-3]                      # interior stencil steps (fraction of the axis length), 4th order
DT_REL = [2e-2, 1e-2, 5e-3]                     # time stencil steps (fraction of t), 4th order
H_BND = [1e-3, 3e-4, 1e-4, 3e-5, 1e-5]          # one-sided boundary stencils, 2nd order (the small ones for fields that still
                                                # carry the highest retained mode, k h << 1 with k ~ 300/len)
R_AXIS = [1e-3, 1e-6, 1e-9]                     # r -> 0+ sequence (fractions of the radius)
EPS = 1e-5                                      # absolute floor of the PDE balance, in units of S/tscale (second differences of
                                                # a 1e4-term double series carry round-off ~1e-15 S / h^2 ~ 1e-9..1e-8 S/L^2)


class Problem:
    """One documented heat problem instance + the live solver object."""

    def __init__(self, family, cfg, solver, geom, lo, hi, kappa, tscale, faces, initial, steady, S,
                 src=0.0, steady_only=False, tags=None, axis=False, nsum=None):
        self.family, self.cfg, self.solver = family, cfg, solver
        self.geom, self.lo, self.hi = geom, np.array(lo, float), np.array(hi, float)
        self.ndim = len(lo)
        self.kappa, self.tscale, self.src = float(kappa), float(tscale), float(src)
        self.faces, self.initial, self.steady = faces, initial, steady
        self.S = float(S) if S and math.isfinite(S) and S > 0 else 1.0
        self.steady_only = steady_only
        self.tags = dict(tags or {})
        self.axis = axis
        self.nsum = nsum
        self.evals = 0
        self.observed = []

    def T(self, P, t):
        P = np.asarray(P, float)
        if self.ndim == 1:
            sol = call(self.solver, P.reshape(-1).copy(), t)
        else:
            sol = call(self.solver, P.copy(), t)
        self.evals += 1
        v = np.asarray(sol["temperature"], float).reshape(-1)
        self.observed.append(v)
        return v

    def interior(self):
        L = self.hi - self.lo
        if self.ndim == 1:
            return (self.lo[0] + L[0] * np.array(FR9))[None, :]
        u = self.lo[0] + L[0] * np.array(FR5)
        v = self.lo[1] + L[1] * np.array(FR5)
        U, V = np.meshgrid(u, v, indexing="ij")
        return np.vstack([U.ravel(), V.ravel()])

    def face_points(self, axis, side):
        L = self.hi - self.lo
        c = self.lo[axis] if side == "lo" else self.hi[axis]
        if self.ndim == 1:
            return np.array([[c]])
        o = 1 - axis
        w = self.lo[o] + L[o] * np.array(FR5)
        P = np.zeros((2, len(w)))
        P[axis] = c
        P[o] = w
        return P


# ----------------------------------------------------------------------------------------------------------
# the documented problems
# ----------------------------------------------------------------------------------------------------------

def rod_branch(a1, b1, a2, b2):
    """Which documented case of rod1d.py's docstring a coefficient vector belongs to."""
    if a1 != 0 and b1 == 0 and a2 != 0 and b2 == 0:
        return "BC1"
    if a1 == 0 and b1 != 0 and a2 == 0 and b2 != 0:
        return "BC2"
    if a1 != 0 and b1 == 0 and a2 == 0 and b2 != 0:
        return "BC3"
    if a1 == 0 and b1 != 0 and a2 != 0 and b2 == 0:
        return "BC4"
    return "robin-I" if a1 != 0 else "robin-II"


def rod_dissipative(a1, b1, a2, b2):
    """alpha*T + beta*dT/dx with d/dx along +x at both ends: heat leaves through the ends (all separation constants
    real, the solution tends to the static one) iff alpha1*beta1 <= 0 and alpha2*beta2 >= 0."""
    return a1 * b1 <= 0 and a2 * b2 >= 0


def rod_static(a1, b1, g1, a2, b2, g2, L, TL, TR):
    """Static solution c0 + c1*x of T''=0 with a1*T(0)+b1*T'(0)=g1, a2*T(L)+b2*T'(L)=g2.
    Pure flux at both ends: solvable only if the fluxes agree; the mean of the initial profile is conserved."""
    if a1 == 0 and a2 == 0:
        F1, F2 = g1 / b1, g2 / b2
        if F1 != F2:
            return None
        return 0.5 * (TL + TR) - 0.5 * F1 * L, F1
    det = a1 * (a2 * L + b2) - a2 * b1
    if det == 0:
        return None
    c0 = (g1 * (a2 * L + b2) - b1 * g2) / det
    c1 = (a1 * g2 - a2 * g1) / det
    return c0, c1


def build_rod(family, cfg, solver, coef):
    a1, b1, g1, a2, b2, g2 = [float(v) for v in coef]
    L, kap = float(cfg.get("L", 2.0)), float(cfg.get("kappa", 1.0))
    TL, TR = float(cfg["TL"]), float(cfg["TR"])
    branch = rod_branch(a1, b1, a2, b2)
    diss = rod_dissipative(a1, b1, a2, b2)
    st = rod_static(a1, b1, g1, a2, b2, g2, L, TL, TR) if diss else None
    initial = lambda P: TL + (TR - TL) * P[0] / L
    steady = (lambda P: st[0] + st[1] * P[0]) if st is not None else None
    S = max(abs(TL), abs(TR), abs(st[0]) if st else 0.0, abs(st[0] + st[1] * L) if st else 0.0)
    faces = [dict(name="x=0", axis=0, side="lo", a=a1, b=b1, g=g1), dict(name="x=L", axis=0, side="hi", a=a2, b=b2, g=g2)]
    tags = {"branch": branch, "nonhom": int(g1 != 0 or g2 != 0), "dissipative": int(diss)}
    return Problem(family, cfg, solver, "x", [0.0], [L], kap, L * L / kap, faces, initial if diss else None, steady, S,
                   tags=tags, nsum=("Nsum",))


def build_Rod1D(cfg, solver):
    c = [cfg["alpha1"], cfg["beta1"], cfg["gamma1"], cfg["alpha2"], cfg["beta2"], cfg["gamma2"]]
    return build_rod("Rod1D", cfg, solver, c)


def build_PlanarSandwich(cfg, solver):      # T(0,t)=TB, T(L,t)=TT
    return build_rod("PlanarSandwich", cfg, solver, [1, 0, cfg["TB"], 1, 0, cfg["TT"]])


def build_PlanarSandwichHot(cfg, solver):   # dT/dx = F at both ends
    return build_rod("PlanarSandwichHot", cfg, solver, [0, 1, cfg["F"], 0, 1, cfg["F"]])


def build_PlanarSandwichHalf(cfg, solver):  # T(0,t)=TB, dT/dx(L,t)=FT
    return build_rod("PlanarSandwichHalf", cfg, solver, [1, 0, cfg["TB"], 0, 1, cfg["FT"]])


def rect_static_dirichlet_sides(x, y, a, b, Ttop, nmax=4001):
    """Textbook solution of Laplace's equation on (0,a)x(0,b), T=Ttop on y=b, T=0 on the other three sides
    (used only as the 'as coded' reduced oracle; interior points, where the series converges exponentially)."""
    out = np.zeros_like(x)
    for n in range(1, nmax, 2):
        k = n * math.pi / a
        with np.errstate(all="ignore"):
            ratio = np.exp(k * (y - b)) * (1 - np.exp(-2 * k * y)) / (1 - math.exp(-2 * k * b))
        out = out + 4 * Ttop / (n * math.pi) * np.sin(k * x) * ratio
        if k * (b - y.max()) > 40:
            break
    return out


def rectangle_declared_sides(solver):
    """What the module docstring of the solver declares for the sides x=0, x=a (the documentation is the oracle's source;
    it is read, not assumed, so that a correction of the text is followed): 'flux' or 'temperature'."""
    import re
    import sys
    doc = " ".join((sys.modules[type(solver).__module__].__doc__ or "").split())
    m = re.search(r"sides of the rectangle([^.]*)\.", doc)
    sent = m.group(1).lower() if m else ""
    if "flux" in sent:
        return "flux"
    if "temperature" in sent:
        return "temperature"
    return "flux"


def build_Rectangle(cfg, solver):
    """rectangle.py docstring: bottom at zero temperature, top at Ttop, *zero heat flux through the sides*, zero
    initial temperature.  The static solution of that problem is Ttop*y/b.  (If the docstring is corrected to declare
    sides held at zero temperature, that problem -- static solution = the textbook sine/sinh series -- is the oracle.)"""
    a, b, Ttop, kap = float(cfg["a"]), float(cfg["b"]), float(cfg["Ttop"]), float(cfg["kappa"])
    sides = rectangle_declared_sides(solver)
    dirichlet = lambda P: rect_static_dirichlet_sides(P[0], P[1], a, b, Ttop)
    faces = [dict(name="y=0", axis=1, side="lo", a=1.0, b=0.0, g=0.0),
             dict(name="y=b", axis=1, side="hi", a=1.0, b=0.0, g=Ttop)]
    if sides == "flux":
        alt = dict(a=1.0, b=0.0, g=0.0, tag="sides_held_at_zero_T")
        faces += [dict(name="x=0", axis=0, side="lo", a=0.0, b=1.0, g=0.0, alt=alt),
                  dict(name="x=a", axis=0, side="hi", a=0.0, b=1.0, g=0.0, alt=alt)]
        steady = lambda P: Ttop * P[1] / b
    else:
        faces += [dict(name="x=0", axis=0, side="lo", a=1.0, b=0.0, g=0.0),
                  dict(name="x=a", axis=0, side="hi", a=1.0, b=0.0, g=0.0)]
        steady = dirichlet
    Lm = min(a, b)
    p = Problem("Rectangle", cfg, solver, "xy", [0.0, 0.0], [a, b], kap, Lm * Lm / kap, faces,
                lambda P: 0.0 * P[0], steady, abs(Ttop), nsum=("Nsum",),
                tags={"declared_sides": sides, "sinh_overflow": int((int(cfg["Nsum"]) - 1) * math.pi * b / a > 709.0)})
    if sides == "flux":
        p.steady_alt = (dirichlet, "sides_held_at_zero_T")
    return p


def build_Hutchens1(cfg, solver):
    """hutchens1.py docstring: sphere, T_t = alpha/r^2 (r^2 T_r)_r, alpha = k/(rho cp); T(r,0)=T0, T_r(0,t)=0, T(b,t)=Tb."""
    al = float(cfg["k"]) / (float(cfg["rho"]) * float(cfg["cp"]))
    b, Tb, T0 = float(cfg["b"]), float(cfg["Tb"]), float(cfg["T0"])
    faces = [dict(name="r=b", axis=0, side="hi", a=1.0, b=0.0, g=Tb), dict(name="r=0", axis=0, side="lo", kind="sym")]
    return Problem("Hutchens1", cfg, solver, "rs", [0.0], [b], al, b * b / al, faces,
                   lambda P: T0 + 0.0 * P[0], lambda P: Tb + 0.0 * P[0], max(abs(Tb), abs(T0), abs(Tb - T0)),
                   axis=True, nsum=("Nsum",))


def build_Hutchens2(cfg, solver):
    """hutchens2.py docstring: steady conduction in a cylinder with uniform heat generation,
    Laplacian(T) + g0/k = 0 "in cylindrical coordinates" (the displayed radial operator carries r^2 where the
    cylinder -- and the documented I0 Bessel solution -- need r; the cylindrical operator is used here);
    T_r(0,z)=0, T(b,z)=Tb, T(r,0)=T0, T(r,L)=TL."""
    b, L = float(cfg["b"]), float(cfg["L"])
    Tb, T0, TL, g0k = float(cfg["Tb"]), float(cfg["T0"]), float(cfg["TL"]), float(cfg["g0"]) / float(cfg["k"])
    faces = [dict(name="z=0", axis=1, side="lo", a=1.0, b=0.0, g=T0), dict(name="z=L", axis=1, side="hi", a=1.0, b=0.0, g=TL),
             dict(name="r=b", axis=0, side="hi", a=1.0, b=0.0, g=Tb), dict(name="r=0", axis=0, side="lo", kind="sym")]
    Lm = min(b, L)
    S = max(abs(Tb), abs(T0), abs(TL), abs(g0k) * L * L / 8.0)
    lam_max = (2 * int(cfg["Nsum"]) - 1) * math.pi / L
    return Problem("Hutchens2", cfg, solver, "rz", [0.0, 0.0], [b, L], 1.0, Lm * Lm, faces, None, None, S, src=g0k,
                   steady_only=True, axis=True, nsum=("Nsum",), tags={"i0_overflow": int(lam_max * b > 709.0)})


def build_CylindricalSandwich(cfg, solver):
    """cylindrical_sandwich.py docstring: quarter annulus a<r<b, 0<theta<pi/2; T_t/kappa = polar Laplacian;
    T(t=0)=0; T(theta=0)=T0, T(theta=pi/2)=T1, T_r(a)=T_r(b)=0.  The static solution of that problem is
    T0 + (T1-T0) 2 theta/pi; the docstring states T0 + 2 theta T1/pi, which is the same for T0 = 0 (the default) and cannot
    meet the declared theta = pi/2 condition otherwise -- the declared boundary conditions are taken as the problem.
    The solver cannot sum more than 20 angular modes (its own comment: "fragile: n <= 20"), so the sup-norm distance to the
    initial profile is Gibbs-limited (~0.1) at any size it accepts; the t -> 0+ clause is therefore evaluated in the weak
    form (low-order moments), which a truncated expansion with right coefficients reproduces."""
    a, b, kap = float(cfg["a"]), float(cfg["b"]), float(cfg["kappa"])
    T0, T1 = float(cfg["T0"]), float(cfg["T1"])
    faces = [dict(name="theta=0", axis=1, side="lo", a=1.0, b=0.0, g=T0),
             dict(name="theta=pi/2", axis=1, side="hi", a=1.0, b=0.0, g=T1),
             dict(name="r=a", axis=0, side="lo", a=0.0, b=1.0, g=0.0),
             dict(name="r=b", axis=0, side="hi", a=0.0, b=1.0, g=0.0)]
    p = Problem("CylindricalSandwich", cfg, solver, "rt", [a, 0.0], [b, math.pi / 2], kap, (b - a) ** 2 / kap, faces,
                lambda P: 0.0 * P[0], lambda P: T0 + 2.0 * P[1] * (T1 - T0) / math.pi, max(abs(T0), abs(T1)),
                nsum=("Nsum", "Msum"), tags={"T0_nonzero": int(T0 != 0)})
    p.initial_weak = True
    return p


BUILDERS = {"Rod1D": build_Rod1D, "PlanarSandwich": build_PlanarSandwich, "PlanarSandwichHot": build_PlanarSandwichHot,
            "PlanarSandwichHalf": build_PlanarSandwichHalf, "Rectangle": build_Rectangle, "Hutchens1": build_Hutchens1,
            "Hutchens2": build_Hutchens2, "CylindricalSandwich": build_CylindricalSandwich}
PATHS = {n: "heat." + n for n in BUILDERS}


def make(family, cfg):
    """Construct the real solver and the documented problem.  ValueError at construction -> Inadmissible."""
    kwargs = {k: v for k, v in cfg.items() if not k.startswith("_")}
    solver = construct(PATHS[family], kwargs)
    # defaults of the class for parameters the alphabet leaves alone (read from the public attributes)
    full = dict(kwargs)
    for p in type(solver).parameters:
        full.setdefault(p, getattr(solver, p))
    if family == "Rod1D":
        for p in ("alpha1", "beta1", "gamma1", "alpha2", "beta2", "gamma2"):
            full.setdefault(p, getattr(solver, p))
    return BUILDERS[family](full, solver)


# ----------------------------------------------------------------------------------------------------------
# oracles
# ----------------------------------------------------------------------------------------------------------

def _lap_terms(geom, P, d1, d2):
    """Terms of the Laplacian in the solver's coordinates, from per-axis first (d1) and second (d2) derivatives."""
    if geom == "x":
        return [d2[0]]
    if geom == "rs":
        return [d2[0], 2.0 * d1[0] / P[0]]
    if geom == "xy":
        return [d2[0], d2[1]]
    if geom == "rz":
        return [d2[0], d1[0] / P[0], d2[1]]
    if geom == "rt":
        return [d2[0], d1[0] / P[0], d2[1] / P[0] ** 2]
    raise ValueError(geom)


def pde(prob, tf):
    """Interior residual |T_t - kappa*Lap(T) - src| / (|T_t| + kappa*sum|Lap terms| + |src| + EPS*S/tscale):
    4th-order central differences in space and time at three step sizes, minimum over the step sizes per point,
    maximum over the interior lattice."""
    P0 = prob.interior()
    n = P0.shape[1]
    L = prob.hi - prob.lo
    t = tf * prob.tscale
    batch = [P0]
    for hrel in H_INT:
        for ax in range(prob.ndim):
            for m in (-2, -1, 1, 2):
                Q = P0.copy()
                Q[ax] += m * hrel * L[ax]
                batch.append(Q)
    V = prob.T(np.concatenate(batch, axis=1), t)
    if not np.all(np.isfinite(V)):
        return {"finite": False, "n_bad": int((~np.isfinite(V)).sum())}
    f0 = V[:n]
    idx = 1
    laps = []
    for j, hrel in enumerate(H_INT):
        d1, d2 = [], []
        for ax in range(prob.ndim):
            h = hrel * L[ax]
            fm2, fm1, fp1, fp2 = (V[(idx + i) * n:(idx + i + 1) * n] for i in range(4))
            idx += 4
            d1.append((fm2 - 8 * fm1 + 8 * fp1 - fp2) / (12 * h))
            d2.append((-fm2 + 16 * fm1 - 30 * f0 + 16 * fp1 - fp2) / (12 * h * h))
        laps.append(_lap_terms(prob.geom, P0, d1, d2))
    Tts = []
    if prob.steady_only:
        Tts.append(np.zeros(n))
    else:
        for dtrel in DT_REL:
            dt = dtrel * t
            g = [prob.T(P0, t + m * dt) for m in (-2, -1, 1, 2)]
            if not all(np.all(np.isfinite(x)) for x in g):
                return {"finite": False, "n_bad": int(sum((~np.isfinite(x)).sum() for x in g))}
            Tts.append((g[0] - 8 * g[1] + 8 * g[2] - g[3]) / (12 * dt))
    # every (space step, time step) pair; the minimum over the pairs is the residual at a point
    res, nontriv = [], None
    floor = EPS * prob.S / prob.tscale
    for terms in laps:
        lap = sum(terms)
        for Tt in Tts:
            num = np.abs(Tt - prob.kappa * lap - prob.kappa * prob.src)
            big = np.abs(Tt) + prob.kappa * (sum(np.abs(x) for x in terms) + abs(prob.src))
            res.append(num / (big + floor))
            nt = big > 1e3 * floor
            nontriv = nt if nontriv is None else (nontriv & nt)
    R = np.min(np.array(res), axis=0)
    i = int(np.argmax(R))
    return {"finite": True, "value": float(R[i]), "nontrivial": [int(k) for k in np.where(nontriv)[0]],
            "detail": {"point": [float(c) for c in P0[:, i]], "T": float(f0[i]), "residual_per_step": [float(r[i]) for r in res]}}


def _face_operator(prob, face, a, b, g, t):
    """max over the face lattice of |a*T + b*dT/dcoord - g| / (|a|*S + |b|*S/len + |g|); derivative by 2nd-order one-sided
    differences into the domain at three step sizes (minimum over the step sizes)."""
    ax, side = face["axis"], face["side"]
    Pf = prob.face_points(ax, side)
    n = Pf.shape[1]
    Lx = (prob.hi - prob.lo)[ax]
    sgn = 1.0 if side == "lo" else -1.0
    den = abs(a) * prob.S + abs(b) * prob.S / Lx + abs(g)
    if b == 0:
        V = prob.T(Pf, t)
        if not np.all(np.isfinite(V)):
            return None, {"n_bad": int((~np.isfinite(V)).sum())}
        r = np.abs(a * V - g) / den
        i = int(np.argmax(r))
        return float(r[i]), {"point": [float(c) for c in Pf[:, i]], "T": float(V[i]), "declared": g}
    batch = [Pf]
    for hrel in H_BND:
        for m in (1, 2):
            Q = Pf.copy()
            Q[ax] += sgn * m * hrel * Lx
            batch.append(Q)
    V = prob.T(np.concatenate(batch, axis=1), t)
    if not np.all(np.isfinite(V)):
        return None, {"n_bad": int((~np.isfinite(V)).sum())}
    f0 = V[:n]
    rs, ds = [], []
    for j, hrel in enumerate(H_BND):
        h = hrel * Lx
        f1, f2 = V[(1 + 2 * j) * n:(2 + 2 * j) * n], V[(2 + 2 * j) * n:(3 + 2 * j) * n]
        d = sgn * (-3 * f0 + 4 * f1 - f2) / (2 * h)
        ds.append(d)
        rs.append(np.abs(a * f0 + b * d - g) / den)
    R = np.min(np.array(rs), axis=0)
    i = int(np.argmax(R))
    return float(R[i]), {"point": [float(c) for c in Pf[:, i]], "T": float(f0[i]), "dTdn_plus": [float(d[i]) for d in ds],
                         "declared": g}


def _face_symmetry(prob, face, t):
    """dT/dr -> 0 at the axis/centre: the linear coefficient c1 of the fit c0 + c1 r + c2 r^2 through r = h, 2h, 3h
    (exact for an even function up to O(h^3)); value |c1|*len/S, minimum over three h.  The point r=0 itself is not
    used, so this clause is independent of the value-is-the-limit clause."""
    ax = face["axis"]
    Pf = prob.face_points(ax, "lo")
    n = Pf.shape[1]
    Lx = (prob.hi - prob.lo)[ax]
    batch = []
    for hrel in H_BND:
        for m in (1, 2, 3):
            Q = Pf.copy()
            Q[ax] = prob.lo[ax] + m * hrel * Lx
            batch.append(Q)
    V = prob.T(np.concatenate(batch, axis=1), t)
    if not np.all(np.isfinite(V)):
        return None, {"n_bad": int((~np.isfinite(V)).sum())}
    rs = []
    for j, hrel in enumerate(H_BND):
        h = hrel * Lx
        T1, T2, T3 = (V[(3 * j + i) * n:(3 * j + i + 1) * n] for i in range(3))
        c1 = (-5 * T1 + 8 * T2 - 3 * T3) / (2 * h)
        rs.append(np.abs(c1) * Lx / prob.S)
    R = np.min(np.array(rs), axis=0)
    i = int(np.argmax(R))
    return float(R[i]), {"point": [float(c) for c in Pf[:, i]], "per_step": [float(r[i]) for r in rs]}


def bc(prob, k, tf, alt=False):
    face = prob.faces[k]
    t = tf * prob.tscale
    if face.get("kind") == "sym":
        v, d = _face_symmetry(prob, face, t)
    elif alt:
        A = face["alt"]
        v, d = _face_operator(prob, face, A["a"], A["b"], A["g"], t)
    else:
        v, d = _face_operator(prob, face, face["a"], face["b"], face["g"], t)
    if v is None:
        return {"finite": False, "n_bad": d["n_bad"]}
    return {"finite": True, "value": v, "detail": d, "nontrivial": [0]}


def initial(prob):
    """sup-norm distance (over the interior lattice, in units of S) to the declared initial profile at
    t = {1e-2, 1e-3, 1e-4} * tscale: the last one is the value; 'rise' is the largest increase along the sequence."""
    P0 = prob.interior()
    ref = prob.initial(P0)
    d = []
    for f in T_INIT:
        V = prob.T(P0, f * prob.tscale)
        if not np.all(np.isfinite(V)):
            return {"finite": False, "n_bad": int((~np.isfinite(V)).sum())}
        d.append(float(np.max(np.abs(V - ref)) / prob.S))
    rise = max(0.0, d[1] - d[0], d[2] - d[1])
    return {"finite": True, "value": d[-1], "rise": rise, "detail": {"distance_at_1e-2_1e-3_1e-4": d},
            "nontrivial": [0] if np.any(ref != 0) or d[0] > 0 else []}


_GL = {}


def _gl(lo, hi, panels, n):
    """Composite Gauss-Legendre nodes and weights on [lo, hi]."""
    if n not in _GL:
        _GL[n] = np.polynomial.legendre.leggauss(n)
    x, w = _GL[n]
    e = np.linspace(lo, hi, panels + 1)
    X = np.concatenate([0.5 * (c + d) + 0.5 * (d - c) * x for c, d in zip(e[:-1], e[1:])])
    W = np.concatenate([0.5 * (d - c) * w for c, d in zip(e[:-1], e[1:])])
    return X, W


def initial_weak(prob):
    """Weak form of T -> initial profile on the quarter annulus: the moments
    M_jw(t) = int int [T(r,theta,t) - T_init] sin(2 j theta) w(r) r dr dtheta / (S int int |sin(2 j theta) w| r dr dtheta),
    j = 1, 2, w = 1, (r-a)/(b-a), by composite Gauss-Legendre quadrature (64 x 32 nodes); value = max |M| at
    t = 1e-4 tscale, rise = largest increase along t = 1e-2, 1e-3, 1e-4."""
    a, b = prob.lo[0], prob.hi[0]
    r, wr = _gl(a, b, 4, 16)
    th, wt = _gl(prob.lo[1], prob.hi[1], 2, 16)
    Rg, Tg = np.meshgrid(r, th, indexing="ij")
    Wg = np.outer(wr * r, wt)
    P = np.vstack([Rg.ravel(), Tg.ravel()])
    ref = prob.initial(P)
    tests = []
    for j in (1, 2):
        for wfun in (np.ones_like(Rg), (Rg - a) / (b - a)):
            phi = np.sin(2 * j * Tg) * wfun
            tests.append((phi, float((np.abs(phi) * Wg).sum())))
    d = []
    for f in T_INIT:
        V = prob.T(P, f * prob.tscale)
        if not np.all(np.isfinite(V)):
            return {"finite": False, "n_bad": int((~np.isfinite(V)).sum())}
        D = (V - ref).reshape(Rg.shape)
        d.append(max(abs(float((D * phi * Wg).sum())) / (prob.S * nrm) for phi, nrm in tests))
    rise = max(0.0, d[1] - d[0], d[2] - d[1])
    return {"finite": True, "value": d[-1], "rise": rise, "detail": {"max_moment_at_1e-2_1e-3_1e-4": d}, "nontrivial": [0]}


def steady(prob, alt=False):
    P0 = prob.interior()
    ref = prob.steady_alt[0](P0) if alt else prob.steady(P0)
    V = prob.T(P0, T_INF * prob.tscale)
    if not np.all(np.isfinite(V)):
        return {"finite": False, "n_bad": int((~np.isfinite(V)).sum())}
    r = np.abs(V - ref) / prob.S
    i = int(np.argmax(r))
    return {"finite": True, "value": float(r[i]), "nontrivial": [0] if np.any(ref != 0) else [],
            "detail": {"point": [float(c) for c in P0[:, i]], "T": float(V[i]), "stated": float(ref[i])}}


def axis(prob, tf):
    """T(r=0) against the limit of T(r) through r = {1e-3, 1e-6, 1e-9}*radius; value |T(0)-T(1e-9)|/S; 'spread'
    |T(1e-6)-T(1e-9)|/S tells whether the limit exists at this resolution."""
    t = tf * prob.tscale
    Pf = prob.face_points(0, "lo")
    n = Pf.shape[1]
    R = (prob.hi - prob.lo)[0]
    batch = [Pf]
    for f in R_AXIS:
        Q = Pf.copy()
        Q[0] = f * R
        batch.append(Q)
    V = prob.T(np.concatenate(batch, axis=1), t)
    if not np.all(np.isfinite(V)):
        return {"finite": False, "n_bad": int((~np.isfinite(V)).sum())}
    v0, v3, v6, v9 = (V[i * n:(i + 1) * n] for i in range(4))
    r = np.abs(v0 - v9) / prob.S
    sp = np.abs(v6 - v9) / prob.S
    i = int(np.argmax(r))
    return {"finite": True, "value": float(r[i]), "spread": float(sp.max()),
            "nontrivial": [0],
            "detail": {"point": [float(c) for c in Pf[:, i]], "T(0)": float(v0[i]), "T(1e-3)": float(v3[i]),
                       "T(1e-6)": float(v6[i]), "T(1e-9)": float(v9[i])}}
