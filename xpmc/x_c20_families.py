"""In-domain parameter lattices for the solver classes that xpmc/hydro*.py does not cover (heat conduction, Su-Olson,
Blake, burn-time solvers, 2D steady Riemann).  Same shape as a hydro family but self-contained:

    name, path (class path under exactpack.solvers), alphabet {param: [default, alt, ...]}, times(cfg), pts(cfg, t, solver),
    ctor (fixed cost-reducing kwargs), native ('Nd' | 'dN'), resolve(cfg) -> constructor kwargs

Alphabets follow the rule of DESIGN.md section 2: default first, then one value per shortcut visible in the code (each
boundary-condition type, each elastic pair, each initial condition, each wave pattern) and non-unit values.  Every value is
admissible by the documentation.  No expected output values.
"""
import math

import numpy as np

EXTRA = []


def _fr(n):
    return (np.arange(n) + 0.37) / n


def fam(name, path, alphabet, times, pts, ctor=None, native="Nd", resolve=None, cost="cheap", valid=None):
    """valid(cfg) -> False for vectors of the product that are not a problem at all (they are judged by the restriction catalogue)."""
    EXTRA.append(dict(name=name, path=path, alphabet=alphabet, times=times, pts=pts, ctor=dict(ctor or {}), native=native,
                      resolve=resolve, cost=cost, valid=valid))


# ------------------------------------------------------------------------------------------------- heat: 1D rod family
_ROD = {"alpha1": [1.0, 0.0, 2.0], "beta1": [0.0, 1.0, -1.0], "gamma1": [0.0, 1.0],
        "alpha2": [1.0, 0.0, 2.0], "beta2": [0.0, 1.0, -1.0], "gamma2": [0.0, 1.0],
        "TL": [3.0, 1.0], "TR": [3.0, 4.0], "L": [2.0, 1.0], "kappa": [1.0, 0.5], "Nsum": [100, 40]}
_rod_pts = lambda c, t, s: c.get("L", 2.0) * _fr(12)
# alpha_i = beta_i = 0 is not a boundary condition (restriction '(alpha_i,beta_i)!=(0,0)' of the catalogue), so not in-domain
fam("Rod1D", "heat.rod1d.Rod1D", _ROD, lambda c: [0.01, 0.1, 1.0], _rod_pts,
    valid=lambda c: not (c["alpha1"] == 0 and c["beta1"] == 0) and not (c["alpha2"] == 0 and c["beta2"] == 0))
fam("PlanarSandwich", "heat.planar_sandwich.PlanarSandwich",
    {"TB": [1.0, 0.0, 2.5], "TT": [0.0, 1.5], "TL": [0.0, 1.0], "TR": [0.0, 2.0], "L": [2.0, 1.0], "kappa": [1.0, 0.5], "Nsum": [200, 50]},
    lambda c: [0.01, 0.1, 1.0], _rod_pts)
fam("PlanarSandwichHot", "heat.planar_sandwich_hot.PlanarSandwichHot",
    {"F": [0.0, 1.0, -0.5], "TL": [3.0, 1.0], "TR": [3.0, 4.0], "L": [2.0, 1.0], "kappa": [1.0, 0.5], "Nsum": [200, 50]},
    lambda c: [0.01, 0.1, 1.0], _rod_pts)
fam("PlanarSandwichHalf", "heat.planar_sandwich_half.PlanarSandwichHalf",
    {"TB": [1.0, 0.0, 2.5], "FT": [0.0, 1.0, -0.5], "TL": [3.0, 1.0], "TR": [3.0, 4.0], "L": [2.0, 1.0], "kappa": [1.0, 0.5], "Nsum": [200, 50]},
    lambda c: [0.01, 0.1, 1.0], _rod_pts)
fam("Hutchens1", "heat.hutchens1.Hutchens1",
    {"k": [8.4695e10, 4.0e10], "cp": [5.2441e10, 1.0e10], "rho": [7.897, 2.0], "Tb": [5.0, 0.0, 1.0], "T0": [1.0, 0.0, 5.0], "b": [1.0, 2.5], "Nsum": [100, 30]},
    lambda c: [0.01, 0.1, 1.0], lambda c, t, s: c.get("b", 1.0) * _fr(12))


def _box(ax, ay, n=4):
    def f(c, t, s):
        a, b = ax(c), ay(c)
        X, Y = np.meshgrid(a[0] + (a[1] - a[0]) * _fr(n), b[0] + (b[1] - b[0]) * (np.arange(n) + 0.61) / n)
        return np.stack([X.ravel(), Y.ravel()], axis=1)
    return f


fam("Hutchens2", "heat.hutchens2.Hutchens2",
    {"k": [8.4695e10, 4.0e10], "g0": [1.0e13, 0.0, 3.0e12], "Tb": [5.0, 0.0], "T0": [2.0, 0.0], "TL": [1.0, 3.0], "b": [1.0, 2.5], "L": [2.0, 1.0], "Nsum": [100, 30]},
    lambda c: [0.0], _box(lambda c: (0.0, c.get("b", 1.0)), lambda c: (0.0, c.get("L", 2.0))), native="dN")
fam("Rectangle", "heat.rectangle.Rectangle",
    {"kappa": [1.0, 0.5], "a": [2.0, 1.0], "b": [2.0, 3.0], "Ttop": [1.0, 2.5, 0.0], "NonHomogeneousOnly": [False, True], "Nsum": [20, 8]},
    lambda c: [0.01, 0.1, 1.0], _box(lambda c: (0.0, c.get("a", 2.0)), lambda c: (0.0, c.get("b", 2.0))), native="dN")
fam("CylindricalSandwich", "heat.cylindrical_sandwich.CylindricalSandwich",
    {"kappa": [1.0, 0.5], "a": [0.25, 0.4], "b": [0.85, 1.5], "T1": [1.0, 2.5, 0.0], "T0": [0.0, 1.0], "NonHomogeneousOnly": [False, True]},
    lambda c: [0.001, 0.01, 0.1], _box(lambda c: (c.get("a", 0.25), c.get("b", 0.85)), lambda c: (0.0, math.pi / 2), n=3),
    ctor={"Nsum": 5, "Msum": 10}, native="dN", cost="medium")

# ------------------------------------------------------------------------------------------------- Su-Olson
fam("SuOlson", "suolson.suolson.SuOlson",
    {"trad_bc_ev": [1.0e3, 1.0e2, 1.0], "opac": [1.0, 10.0, 0.1], "alpha": [3.02636565993931701e-14, 1.0e-13]},
    lambda c: [1.0e-11, 1.0e-10, 1.0e-9, 1.0e-8], lambda c, t, s: np.geomspace(1e-3, 20.0, 12) / c.get("opac", 1.0), cost="medium")

# ------------------------------------------------------------------------------------------------- Blake
# every pair of the six moduli of ONE material (lambda = G = 25 GPa) and of a second one (nu = 0.35); plus problem scales
_MAT = [{"lame_mod": 25e9, "shear_mod": 25e9, "youngs_mod": 62.5e9, "poisson_ratio": 0.25, "bulk_mod": 41.66666666666667e9, "long_mod": 75e9}]
_nu, _E = 0.35, 70e9
_G2 = _E / (2 * (1 + _nu))
_l2 = _E * _nu / ((1 + _nu) * (1 - 2 * _nu))
_MAT.append({"lame_mod": _l2, "shear_mod": _G2, "youngs_mod": _E, "poisson_ratio": _nu, "bulk_mod": _l2 + 2 * _G2 / 3, "long_mod": _l2 + 2 * _G2})
_NAMES = ["lame_mod", "shear_mod", "youngs_mod", "poisson_ratio", "bulk_mod", "long_mod"]
_PAIRS = ["default"] + [[m, a, b] for m in (0, 1) for i, a in enumerate(_NAMES) for b in _NAMES[i + 1:]]


def _blake_resolve(cfg):
    kw = {k: v for k, v in cfg.items() if k != "pair"}
    p = cfg.get("pair", "default")
    if p != "default":
        m, a, b = p
        kw[a] = _MAT[m][a]
        kw[b] = _MAT[m][b]
    return kw


fam("Blake", "blake.blake.Blake",
    {"pair": _PAIRS, "ref_density": [3000.0, 1000.0], "cavity_radius": [0.1, 0.3], "pressure_scale": [1.0e6, 5.0e7]},
    # the last time is the late-time (static) limit, 2500 transit times after the default snapshot (seeded change S3-C20-3)
    lambda c: [4.0e-5, 1.6e-4, 4.0e-4, 1.0], lambda c, t, s: c.get("cavity_radius", 0.1) + 1.5 * _fr(12), resolve=_blake_resolve)

# ------------------------------------------------------------------------------------------------- burn-time solvers


def _polar(r0, r1, n=12, d=2):
    def f(c, t, s):
        r = r0 + (r1 - r0) * _fr(n)
        th = 0.1 + 5.9 * ((np.arange(n) * 5 % (2 * n + 1)) + 0.53) / (2 * n + 1.3)
        cols = [r * np.cos(th), r * np.sin(th)]
        if c.get("geometry", 2) == 3:
            cols = [0.95 * cols[0], 0.95 * cols[1], 0.3122499 * r * np.where(np.arange(n) % 2, 1.0, -1.0)]
        return np.stack(cols, axis=1)
    return f


def _k_resolve(default2, default3):
    def f(cfg):
        kw = dict(cfg)
        if kw.get("geometry", 2) == 3 and "x_d" not in kw:
            kw["x_d"] = default3
        if "x_d" in kw:
            xd = tuple(kw["x_d"])
            if kw.get("geometry", 2) == 3 and len(xd) == 2:
                xd = (xd[0], 0.0, xd[1])
            kw["x_d"] = xd
        return kw
    return f


fam("Kenamond1", "kenamond.kenamond1.Kenamond1", {"geometry": [2, 3], "D": [1.0, 2.5], "x_d": [[0.0, 0.0], [1.0, -2.0]], "t_d": [0.0, 1.5]},
    lambda c: [0.0], _polar(0.0, 6.0), resolve=_k_resolve((0.0, 0.0), (0.0, 0.0, 0.0)))
fam("Kenamond2", "kenamond.kenamond2.Kenamond2",
    {"geometry": [2, 3], "R": [3.0, 2.0], "D1": [2.0, 3.0], "D2": [1.0, 1.5], "dets": [[10.0, 5.0, -5.0, -10.0], [12.0, 6.0, -4.0, -8.0]],
     "t_d": [[2.0, 1.0, 0.0, 1.0, 2.0], [3.0, 2.0, 0.5, 2.5, 3.5]]},
    lambda c: [0.0], _polar(0.0, 14.0))
fam("Kenamond3", "kenamond.kenamond3.Kenamond3", {"geometry": [2, 3], "R": [3.0, 1.0], "D": [2.0, 0.5], "x_d": [[0.0, 5.0], [4.0, 3.0]], "t_d": [0.0, 1.5]},
    lambda c: [0.0], _polar(3.05, 9.0), resolve=_k_resolve((0.0, 5.0), (0.0, 0.0, 5.0)))
fam("CylindricalExpansion", "dsd.cylexpansion.CylindricalExpansion",
    {"r_1": [1.0, 0.5], "r_2": [2.0, 3.0], "D_CJ_1": [0.5, 0.8], "D_CJ_2": [1.0, 0.6], "alpha_1": [0.1, 0.0, 0.2], "alpha_2": [0.1, 0.0, 0.3], "t_d": [0.0, 1.0]},
    lambda c: [0.0], _polar(0.2, 5.0))


def _rs_pts(c, t, s):
    R = c.get("R", 1.0)
    X, Y = np.meshgrid(np.linspace(0.0, R, 3), np.linspace(0.0, 0.04, 2))
    return np.stack([X.ravel(), Y.ravel()], axis=1)


fam("RateStick", "dsd.ratestick.RateStick",
    {"geometry": [1, 2], "R": [1.0, 0.8], "omega_c": [math.pi / 4, 0.9, 1.4], "D_CJ": [1.0, 0.8], "alpha": [0.1, 0.05], "IC": [1, 2, 3], "r_d": [math.sqrt(626.0), 5.0]},
    lambda c: [0.0], _rs_pts, ctor={"xnodes": 3, "ynodes": 2, "t_f": 0.06}, cost="medium")


def _arc_pts(c, t, s):
    r1, r2 = c.get("r_1", 2.0), c.get("r_2", 4.0)
    R, T = np.meshgrid(np.linspace(r1, r2, 2), np.linspace(-math.pi / 2, math.pi / 2, 3))
    return np.stack([(R * np.cos(T)).ravel(), (R * np.sin(T)).ravel()], axis=1)


fam("ExplosiveArc", "dsd.explosivearc.ExplosiveArc",
    {"r_1": [2.0, 1.0], "r_2": [4.0, 5.0], "omega_in": [math.pi / 4, 0.5], "omega_out": [math.pi / 2, 1.0], "x_d": [-4.0, -1.0], "D_CJ": [1.0, 0.8], "alpha": [0.1, 0.05]},
    lambda c: [0.0], _arc_pts, ctor={"xnodes": 2, "ynodes": 3, "t_f": 0.06}, cost="medium")

# ------------------------------------------------------------------------------------------------- 2D steady Riemann
# states [p, rho, Mach, flow angle (deg), gamma]: one value per wave pattern (R-C-S default, S-C-R, S-C-S converging,
# R-C-R diverging, no wave at all) plus non-unit / unequal-gamma values; all supersonic, as the package doc assumes
_B0, _T0 = [1.0, 1.0, 2.4, 0.0, 1.4], [0.25, 0.5, 7.0, 0.0, 1.4]
fam("Riemann2D", "riemann2D_2section_steadystate.ep_riemann2D_2section_steadystate.IGEOS_Solver",
    {"bottom_state": [_B0, [0.25, 0.5, 7.0, 0.0, 1.4], [1.0, 1.0, 2.4, 10.0, 1.4], [1.0, 1.0, 2.4, -10.0, 1.4], [1.0, 1.0, 2.4, 0.0, 5.0 / 3.0], [2.0, 3.0, 3.0, 0.0, 1.4]],
     "top_state": [_T0, [1.0, 1.0, 2.4, 0.0, 1.4], [0.25, 0.5, 7.0, 10.0, 1.4], [0.25, 0.5, 7.0, -10.0, 1.4], [4.0, 2.0, 3.0, 0.0, 1.4], [0.25, 0.5, 7.0, 0.0, 5.0 / 3.0]]},
    lambda c: [0.25], lambda c, t, s: np.stack(np.meshgrid([0.3, 1.0], [-0.6, -0.2, -0.02, 0.03, 0.25, 0.7]), axis=-1).reshape(-1, 2), cost="medium")


def by_name(name):
    for f in EXTRA:
        if f["name"] == name:
            return f
    raise KeyError(name)


def build(f, cfg):
    """-> (solver, constructor kwargs).  Raises what the constructor raises."""
    import contextlib
    import io
    from .solvers import get_class
    kw = dict(f["ctor"])
    kw.update(f["resolve"](cfg) if f["resolve"] else cfg)
    for k, v in list(kw.items()):
        if k == "x_d" and isinstance(v, list):
            kw[k] = tuple(v)
    with contextlib.redirect_stdout(io.StringIO()):
        return get_class(f["path"])(**kw), kw
