"""Restriction catalogue for C20: every documented restriction on constructor parameters and on the time/space domain of
every public solver class, transcribed from parameter help strings, class/module docstrings, package docs and the
constructors' own error messages (the text a user is shown).  Each entry names its source.

A *parameter restriction* R(...) holds, per class it applies to:
    rid         short stable name used in the clause  restriction:<Class>:<rid>:<level>
    doc         where the restriction is documented (quoted)
    violating   kwargs overrides that clearly violate it           -> ValueError at construction demanded
    boundary    kwargs overrides sitting exactly on the boundary   -> ValueError demanded only if strict=True
    admissible  nearest admissible overrides                        -> must construct without a non-ValueError exception
A *domain restriction* D(...) holds a valid configuration and a request outside the time/space domain on which the solution
exists -> the call must raise or mark every outside record with NaN.

Geometry sets are not listed here: they are parsed at run time from each class's own 'geometry' help string.
No expected field values appear anywhere.
"""
import math

PI = math.pi
RESTRICTIONS = []
DOMAINS = []
SPECIAL_INDOMAIN = []

_PCS = ("Planar", "Cylindrical", "Spherical")


def family(mod, base, wrappers=_PCS, extra=()):
    """Base class path + its geometry wrappers (+ extra named subclasses of the same module)."""
    pre = mod + "."
    return [pre + base] + [pre + w + base for w in wrappers] + [pre + x for x in extra]


def R(classes, rid, doc, violating=(), boundary=(), strict=False, admissible=(), base=None):
    if isinstance(classes, str):
        classes = [classes]
    RESTRICTIONS.append(dict(classes=list(classes), rid=rid, doc=doc, violating=[dict(v) for v in violating],
                             boundary=[dict(v) for v in boundary], strict=strict, admissible=[dict(v) for v in admissible],
                             base=dict(base or {})))


def D(classes, did, doc, t=None, pts=None, base=None, outside="all", level="outside", int_pts=False):
    """pts: list of points (contract layout) or None for the table's default points; t None = the table's valid time.
    outside: 'all' (every record is outside the domain) or a list of record indices that are."""
    if isinstance(classes, str):
        classes = [classes]
    DOMAINS.append(dict(classes=list(classes), did=did, doc=doc, t=t, pts=pts, base=dict(base or {}), outside=outside, level=level,
                        int_pts=bool(int_pts)))


# =============================================================================================== Coggeshall
R(family("cog.cog13", "Cog13"), "gamma!=1", "cog13.py constructor message 'gamma cannot be one' (T0 divides by gamma-1)",
  violating=[{"gamma": 1.0}, {"gamma": 1}], admissible=[{"gamma": 1.001}])
R(["cog.cog16.Cog16"], "b!=geometry-1", "cog16.py constructor message 'the parameter b canot equal to geometry-1' (T ~ 1/(k-b))",
  violating=[{"b": 2.0}, {"geometry": 2, "b": 1.0}, {"b": 2}], admissible=[{"b": 1.999}, {"geometry": 2, "b": 2.0}])
R(["cog.cog16.CylindricalCog16"], "b!=geometry-1", "cog16.py constructor message", violating=[{"b": 1.0}], admissible=[{"b": 2.0}])
R(["cog.cog16.SphericalCog16"], "b!=geometry-1", "cog16.py constructor message", violating=[{"b": 2.0}], admissible=[{"b": 1.0}])
R(family("cog.cog18", "Cog18"), "alpha!=0", "cog18.py constructor message 'alpha cannot equal 0' (exponents divide by alpha)",
  violating=[{"alpha": 0.0}, {"alpha": 0}], admissible=[{"alpha": 0.001}, {"alpha": -0.001}])
R(family("cog.cog20", "Cog20"), "a!=0", "cog20.py constructor message 'parameter a cannot be zero' (shock position divides by a)",
  violating=[{"a": 0.0}, {"a": 0}], admissible=[{"a": 0.001}, {"a": -0.001}])
R(family("cog.cog19", "Cog19"), "u0<0", "cog19.py module docstring 'u_0 (with u_0 < 0)'; constructor message 'u0 must be strictly negative'",
  violating=[{"u0": 1.0}, {"u0": 2.3}], boundary=[{"u0": 0.0}, {"u0": 0}], strict=True, admissible=[{"u0": -0.001}])
# Cog4 / Cog12: the help string says gamma 'must be < 1' but the class default is 1.4 and the constructor only prints a warning:
# recorded as 'documented as a warning only' (counted, not judged) -- see WARNING_ONLY below.
WARNING_ONLY = [
    ("cog.cog4.Cog4", "gamma<1", "help string '(must be < 1)'; the class default 1.4 violates it and the constructor prints a warning"),
    ("cog.cog12.Cog12", "gamma<1", "module docstring 'T > 0 only when gamma < 1'; constructor prints a warning"),
    ("cog.*", "alpha in [-2,-1], beta in [1,3]", "constructor prints '*** warning: ... lies outside range'; package doc gives -1<=alpha<=2"),
    ("blake.blake.Blake", "pressure_scale < 0.1 bulk_mod", "constructor issues warnings.warn"),
]

_T0_COGS = (family("cog.cog1", "Cog1") + family("cog.cog2", "Cog2") + family("cog.cog7", "Cog7", extra=("Kidder76",))
            + family("cog.cog8", "Cog8") + family("cog.cog9", "Cog9") + family("cog.cog11", "Cog11") + family("cog.cog13", "Cog13")
            + family("cog.cog17", "Cog17") + ["cog.cog21.Cog21"])
D(_T0_COGS, "t>0", "source comment 'No valid solution at t=0' and the NaN branch 'if t <= 0' of each _run", t=0.0, level="boundary")
D(_T0_COGS, "t>0", "as above", t=-1.0)
_TAU6 = family("cog.cog6", "Cog6", extra=("Kidder74",))
_TAU18 = family("cog.cog18", "Cog18")
_TAU7 = family("cog.cog7", "Cog7", extra=("Kidder76",))
for _cl in (_TAU6, _TAU18, _TAU7):
    D(_cl, "t<tau", "module docstring: every field carries a negative power of (tau^2 - t^2): the solution collapses at t = tau (default 1.25)",
      t=1.25, level="boundary")
    D(_cl, "t<tau", "as above", t=2.0)
D(family("cog.cog20", "Cog20"), "t<1/a", "module docstring: every field carries a negative power of (1 - a t): singular at t = 1/a",
  t=4.0, base={"a": 0.25}, level="boundary")
D(family("cog.cog20", "Cog20"), "t<1/a", "as above (beyond the singular time the density formula is negative for k+1 odd)", t=5.0, base={"a": 0.25})
# a < 0: the condition is 1 - a t > 0, i.e. t > 1/a; times before 1/a (negative) lie beyond the singularity (seeded change S4-C20-3: a guard
# written as t >= 1/a is right only for a > 0)
D(family("cog.cog20", "Cog20"), "1-at>0 (a<0)", "module docstring: (1 - a t) must stay positive; constructor forbids only a = 0", t=-2.0, base={"a": -0.5}, level="boundary")
D(family("cog.cog20", "Cog20"), "1-at>0 (a<0)", "as above", t=-3.0, base={"a": -0.5})
D(family("cog.cog20", "Cog20"), "1-at>0 (a<0)", "as above", t=-10.0, base={"a": -0.5})

# =============================================================================================== Noh family
R(["noh.noh1.Noh"], "u0<0", "help string 'incident velocity (negative)'; constructor message 'Incident velocity must be negative'",
  violating=[{"u0": 1.0}], boundary=[{"u0": 0.0}, {"u0": 0}], strict=True, admissible=[{"u0": -0.001}])
R(["nohblackboxeos.blackboxnoh.NohBlackBoxEos"], "u0<0", "help string 'incident velocity (negative)' (same text as noh1.Noh, which enforces it)",
  violating=[{"u0": 1.0}], boundary=[{"u0": 0.0}], strict=True, admissible=[{"u0": -0.5}])
_NOH2 = family("noh2.noh2", "Noh2") + ["noh2.noh2_cog.Noh2Cog"]
D(_NOH2, "t<1", "noh2/__init__.py 'the time domain of the problem is 0 <= t < 1. Note that at t=1 the solution becomes singular'; "
  "_run message 'The time t must be less than 1'", t=1.0, level="boundary")
D(_NOH2, "t<1", "as above", t=1.5)

# =============================================================================================== Sedov
_SED = ["sedov.sedov.Sedov", "sedov.PlanarSedov", "sedov.CylindricalSedov", "sedov.SphericalSedov"]
R(_SED, "gamma>1", "sedov.py constructor message 'gamma must be greater than 1'",
  violating=[{"gamma": 0.9}], boundary=[{"gamma": 1.0}, {"gamma": 1}], strict=True, admissible=[{"gamma": 1.05}])
R(["sedov.sedov.Sedov"], "rho0>0", "sedov.py constructor message 'density must be greater than 0'",
  violating=[{"rho0": -1.0}], boundary=[{"rho0": 0.0}], strict=True, admissible=[{"rho0": 1e-3}])
R(["sedov.sedov.Sedov"], "eblast>0", "sedov.py constructor message 'eblast must be greater than 0'",
  violating=[{"eblast": -1.0}], boundary=[{"eblast": 0.0}], strict=True, admissible=[{"eblast": 1e-3}])
R(["sedov.sedov.Sedov"], "0<=omega<geometry", "sedov.py comment 'Omega must be between 0 and geometry (see Kamm&Timmes)' and message",
  violating=[{"omega": -0.1}, {"omega": 3.5}, {"omega": 3.0}, {"geometry": 2, "omega": 2.0}], boundary=[{"omega": 0.0}], strict=False,
  admissible=[{"omega": 0.0}])
D(_SED, "t>0", "sedov.py comment 'There is no valid solution a t = 0' and the NaN branch", t=0.0, level="boundary")
D(_SED, "t>0", "as above", t=-1.0)
# the same two requests with integer-typed positions: a NaN written into an array that took the request's dtype is a finite integer
# (seeded change S4-C20-2)
D(_SED, "t>0 (integer-typed positions)", "as above", t=0.0, pts=[1, 2, 3], level="boundary", int_pts=True)
D(_SED, "t>0 (integer-typed positions)", "as above", t=-1.0, pts=[1, 2, 3], int_pts=True)

# =============================================================================================== EHEP / SDRZ / Mader
_E = "ehep.ehep.EscapeOfHEProducts"
R(_E, "gamma==3", "help string 'adiabatic index, must be 3.0'; package doc 'The value gamma=3 is required to enable the derivation of the exact solution'",
  violating=[{"gamma": 2.0}, {"gamma": 1.4}, {"gamma": 3.5}], admissible=[{"gamma": 3.0}, {"gamma": 3}])
R(_E, "D>0", "constructor message 'Detonation velocity must be > 0'", violating=[{"D": -1.0}], boundary=[{"D": 0.0}], strict=True,
  admissible=[{"D": 0.3}])
R(_E, "rho_0>0", "constructor message 'Initial density must be > 0'", violating=[{"rho_0": -1.0}], boundary=[{"rho_0": 0.0}], strict=True,
  admissible=[{"rho_0": 1e-3}])
R(_E, "up>=0", "constructor message 'Piston velocity must be >= 0'", violating=[{"up": -0.01}], boundary=[{"up": 0.0}], strict=False,
  admissible=[{"up": 0.0}])
R(_E, "up<D/(gamma+1)", "constructor message 'Piston velocity must be less than C-J particle velocity'",
  violating=[{"up": 0.3}], boundary=[{"up": 0.2125}], strict=True, admissible=[{"up": 0.21}])
R(_E, "0<xtilde<=xmax", "constructor message 'xtilde must be between zero and xmax'", violating=[{"xtilde": -1.0}, {"xtilde": 11.0}],
  boundary=[{"xtilde": 10.0}], strict=False, admissible=[{"xtilde": 10.0}, {"xtilde": 0.01}])
R(_E, "tmax>0", "constructor message 'tmax must be >0'", violating=[{"tmax": -1.0}], boundary=[{"tmax": 0.0}], strict=True, admissible=[{"tmax": 0.5}])
D(_E, "t<=tmax", "help string 'maximum value of t allowed for exact solution' (default 10)", t=11.0, pts=[0.5, 1.0, 2.0])
D(_E, "x<=xmax", "help string 'maximum value of x allowed for exact solution' (default 10)", t=1.0, pts=[10.5, 11.0, 12.0])
_S = "sdrz.sdrz.SteadyDetonationReactionZone"
R(_S, "D>0", "constructor check (message 'Detonation velocity must be >=0')", violating=[{"D": -1.0}], admissible=[{"D": 0.3}])
R(_S, "rho_0>0", "constructor check (message 'Initial density must be >=0')", violating=[{"rho_0": -1.0}], admissible=[{"rho_0": 0.5}])
R(_S, "gamma>0", "constructor check (message 'Adiabatic index must be >=0')", violating=[{"gamma": -1.0}], admissible=[{"gamma": 1.5}])
D("mader.timmes.Mader", "t>0", "rarefaction.py NaN branch 'if t <= 0'", t=0.0, level="boundary")
D("mader.timmes.Mader", "t>0", "as above", t=-1.0e-6)
D("suolson.suolson.SuOlson", "t>0", "suolson/timmes.py comment 'At t=0 the solution is invalid' and the NaN branch", t=0.0, level="boundary")
D("suolson.suolson.SuOlson", "t>0", "as above", t=-1.0e-9)

# =============================================================================================== Kenamond
_K1, _K2, _K3 = "kenamond.kenamond1.Kenamond1", "kenamond.kenamond2.Kenamond2", "kenamond.kenamond3.Kenamond3"
R(_K1, "D>0", "constructor message 'Detonation velocity must be > 0'", violating=[{"D": -1.0}], boundary=[{"D": 0.0}], strict=True, admissible=[{"D": 0.1}])
R(_K1, "len(x_d)==geometry", "constructor message 'Detonator location and geometry dimensions must be compatible'",
  violating=[{"x_d": (0.0, 0.0, 0.0)}, {"geometry": 3}, {"x_d": (0.0,)}], admissible=[{"geometry": 3, "x_d": (0.0, 0.0, 0.0)}])
R(_K2, "R>0", "constructor message 'Inner HE radius must be > 0'", violating=[{"R": -1.0}], boundary=[{"R": 0.0}], strict=True, admissible=[{"R": 0.1}])
R(_K2, "D1>0", "constructor message", violating=[{"D1": -1.0}], boundary=[{"D1": 0.0}], strict=True)
R(_K2, "D2>0", "constructor message", violating=[{"D2": -1.0}], boundary=[{"D2": 0.0}], strict=True, admissible=[{"D2": 0.1}])
R(_K2, "D2<D1", "help string 'detonation velocity of the outer HE, D2 < D1'; module docstring 'D_1 > D_2'; constructor message 'D1 must be > D2'",
  violating=[{"D1": 1.0, "D2": 2.0}], boundary=[{"D1": 1.0, "D2": 1.0}, {"D2": 2.0}], strict=True, admissible=[{"D2": 1.999}])
R(_K2, "len(dets)==4", "constructor message '4 detonator locations must be specified'",
  violating=[{"dets": [10.0, 5.0, -5.0]}, {"dets": [10.0, 5.0, 0.0, -5.0, -10.0]}])
R(_K2, "|dets|>R", "module docstring 'Only detonator 3 is located inside the inner HE region'; constructor message 'must be in outer HE region'",
  violating=[{"dets": [10.0, 2.0, -5.0, -10.0]}, {"dets": [10.0, 5.0, -5.0, -1.0]}], boundary=[{"dets": [10.0, 3.0, -5.0, -10.0]}], strict=False,
  admissible=[{"dets": [10.0, 3.01, -5.0, -10.0], "t_d": [2.0, 1.5, 0.0, 1.0, 2.0]}])
R(_K2, "len(t_d)==5", "constructor message '5 detonation times must be specified'", violating=[{"t_d": [2.0, 1.0, 0.0, 1.0]}])
R(_K2, "t_d_i>=t_d3+R(1/D1+1/D2)-|a_i|/D2", "module docstring displayed inequality; constructor message 'Detonation time i must be no less than'",
  violating=[{"t_d": [2.0, -1.0, 0.0, 1.0, 2.0]}, {"t_d": [-6.0, 1.0, 0.0, 1.0, 2.0]}], boundary=[{"t_d": [2.0, -0.5, 0.0, 1.0, 2.0]}], strict=False,
  admissible=[{"t_d": [2.0, -0.5, 0.0, 1.0, 2.0]}])
# the same inequality with a NON-default centre detonation time t_d3 = 3 (bound for the detonator at 5: 3 + 4.5 - 5 = 2.5): a check
# that hard-codes the default t_d3 = 0 lets the first vector through (seeded change S-C20-1)
R(_K2, "t_d_i>=t_d3+R(1/D1+1/D2)-|a_i|/D2 (t_d3 != 0)", "module docstring displayed inequality, with a non-default centre detonation time",
  violating=[{"t_d": [2.0, 1.0, 3.0, 1.0, 2.0]}, {"t_d": [2.0, 2.4, 3.0, 2.6, 2.0]}], admissible=[{"t_d": [2.0, 2.6, 3.0, 2.6, 2.0]}])
# ... and with a NON-default outer detonation speed (D2 = 1.5: bound for the detonator at 5 is 3 (1/2 + 2/3) - 5/1.5 = 1/6; D2 = 0.5: bound
# 3 (1/2 + 2) - 10 = -2.5): a threshold factored so that it is right only for D2 = 1 (seeded change S3-C20-1)
R(_K2, "t_d_i>=t_d3+R(1/D1+1/D2)-|a_i|/D2 (D2 != 1)", "module docstring displayed inequality, with a non-default outer detonation speed",
  violating=[{"D2": 1.5, "t_d": [2.0, 0.1, 0.0, 1.0, 2.0]}, {"D2": 0.5, "t_d": [2.0, -2.6, 0.0, 1.0, 2.0]}],
  admissible=[{"D2": 1.5, "t_d": [2.0, 0.2, 0.0, 1.0, 2.0]}, {"D2": 0.5, "t_d": [2.0, -2.4, 0.0, 1.0, 2.0]}])
R(_K3, "R>0", "constructor message 'Inert obstacle radius must be > 0'", violating=[{"R": -1.0}], boundary=[{"R": 0.0}], strict=True, admissible=[{"R": 0.1}])
R(_K3, "D>0", "constructor message", violating=[{"D": -1.0}], boundary=[{"D": 0.0}], strict=True)
R(_K3, "len(x_d)==geometry", "constructor message", violating=[{"x_d": (0.0, 0.0, 5.0)}, {"geometry": 3}])
R(_K3, "|x_d|>R", "module docstring 'The detonator must be located outside of the inert region'",
  violating=[{"x_d": (0.0, 1.0)}, {"x_d": (0.0, 0.0)}], boundary=[{"x_d": (0.0, 3.0)}], strict=True, admissible=[{"x_d": (0.0, 3.01)}])
D(_K3, "|p|>=R", "class docstring 'The solver will only accept points outside of or on the surface of the inert region'",
  pts=[[0.0, 4.0], [1.0, 1.0], [5.0, 0.0]], outside=[1])

# =============================================================================================== DSD
_CE = "dsd.cylexpansion.CylindricalExpansion"
R(_CE, "r_1>0", "constructor message 'Inner radius of HE1 must be > 0'", violating=[{"r_1": -1.0}], boundary=[{"r_1": 0.0}], strict=True)
R(_CE, "r_2>r_1", "constructor message 'Radius of interface ... must be > inner radius'", violating=[{"r_2": 0.5}, {"r_2": -1.0}],
  boundary=[{"r_2": 1.0}], strict=True, admissible=[{"r_2": 1.001}])
R(_CE, "D_CJ_1>0", "class docstring 'The nominal detonation velocities of both HEs must be positive'", violating=[{"D_CJ_1": -1.0}],
  boundary=[{"D_CJ_1": 0.0}], strict=True)
R(_CE, "D_CJ_2>0", "as above", violating=[{"D_CJ_2": -1.0}], boundary=[{"D_CJ_2": 0.0}], strict=True)
R(_CE, "alpha_1>=0", "constructor message 'Alpha for HE1 must be >= 0' (class docstring says 'positive')", violating=[{"alpha_1": -0.1}],
  admissible=[{"alpha_1": 0.0}])
R(_CE, "alpha_2>=0", "constructor message 'Alpha for HE2 must be >= 0'", violating=[{"alpha_2": -0.1}], admissible=[{"alpha_2": 0.0}])
R(_CE, "r_1>alpha_1/D_CJ_1", "class docstring 'All radii are assumed to be positive and large enough to avoid the singularity at the origin, "
  "i.e. r_1 > alpha_1/D_CJ_1 and r_2 > alpha_2/D_CJ_2'; module docstring 'r > alpha_i/D_CJ_i'",
  violating=[{"alpha_1": 0.75}, {"r_1": 0.1}], boundary=[{"alpha_1": 0.5}], strict=True, admissible=[{"alpha_1": 0.49}])
R(_CE, "r_2>alpha_2/D_CJ_2", "as above", violating=[{"alpha_2": 3.0}], boundary=[{"alpha_2": 2.0}], strict=True, admissible=[{"alpha_2": 1.9}])
_RS = "dsd.ratestick.RateStick"
R(_RS, "R>0", "constructor message 'Radius/thickness must be > 0'", violating=[{"R": -1.0}], boundary=[{"R": 0.0}], strict=True)
R(_RS, "0<omega_c<pi/2", "class docstring 'The edge angle omega_c is assumed to satisfy 0 < omega_c < pi/2'",
  violating=[{"omega_c": -1.0}, {"omega_c": 2.0}], boundary=[{"omega_c": 0.0}, {"omega_c": PI / 2.0}], strict=True, admissible=[{"omega_c": 1.5}])
R(_RS, "D_CJ>0", "class docstring 'D_CJ must be positive'", violating=[{"D_CJ": -1.0}], boundary=[{"D_CJ": 0.0}], strict=True)
R(_RS, "alpha>=0", "constructor message 'Alpha must be >= 0'", violating=[{"alpha": -1.0}])
R(_RS, "IC in {1,2,3}", "constructor message 'IC must be 1, 2 or 3'", violating=[{"IC": 0}, {"IC": 4}], admissible=[{"IC": 2}, {"IC": 3}])
R(_RS, "r_d>=R/cos(omega_c)", "class docstring 'if IC = 1 ... r_d >= R/cos(omega_c)'", violating=[{"r_d": 1.0}],
  boundary=[{"r_d": 1.0 / math.cos(PI / 4.0)}], strict=False, admissible=[{"r_d": 1.5}])
R(_RS, "t_f>0", "constructor message 'Final time must be positive'", violating=[{"t_f": -1.0}], boundary=[{"t_f": 0.0}], strict=True)
R(_RS, "xnodes>0", "constructor message 'Number of x-nodes must be specified'", violating=[{"xnodes": 0}, {"xnodes": -1}])
R(_RS, "ynodes>0", "constructor message 'Number of y-nodes must be specified'", violating=[{"ynodes": 0}, {"ynodes": -1}])
_EA = "dsd.explosivearc.ExplosiveArc"
R(_EA, "r_1>0", "constructor message", violating=[{"r_1": -1.0}], boundary=[{"r_1": 0.0}], strict=True)
R(_EA, "r_2>r_1", "constructor message 'Outer radius must be larger than inner radius'", violating=[{"r_2": 1.0}], boundary=[{"r_2": 2.0}], strict=True)
R(_EA, "0<omega_in<pi/2", "class docstring '0 < omega_s < pi/2'", violating=[{"omega_in": -1.0}, {"omega_in": 2.0, "omega_out": 2.0}],
  boundary=[{"omega_in": 0.0}, {"omega_in": PI / 2.0}], strict=True)
R(_EA, "omega_in<=omega_out<=pi/2", "constructor messages", violating=[{"omega_out": 0.5}, {"omega_out": 2.0}],
  boundary=[{"omega_out": PI / 4.0}], strict=False, admissible=[{"omega_out": 1.0}])
R(_EA, "x_d<0", "class docstring 'x_d is assumed to be negative'; constructor message 'Detonator position must be < 0'",
  violating=[{"x_d": 1.0}], boundary=[{"x_d": 0.0}], strict=True, admissible=[{"x_d": -0.5}])
R(_EA, "D_CJ>0", "class docstring", violating=[{"D_CJ": -1.0}], boundary=[{"D_CJ": 0.0}], strict=True)
R(_EA, "alpha>=0", "constructor message", violating=[{"alpha": -1.0}])
R(_EA, "t_f>0", "constructor message", violating=[{"t_f": -1.0}], boundary=[{"t_f": 0.0}], strict=True)
R(_EA, "xnodes>0", "constructor message", violating=[{"xnodes": 0}])
R(_EA, "ynodes>0", "constructor message", violating=[{"ynodes": 0}])
D(_RS, "mesh matches xnodes*ynodes", "_run message 'xnodes and ynodes do not match xylist'", pts=[[0.0, 0.0], [0.5, 0.0], [1.0, 0.0]],
  base={"xnodes": 2, "ynodes": 1})
D(_RS, "mesh spans 0..R", "_run messages 'xylist does not match R' / 'xylist must reach x=0'", pts=[[0.1, 0.0], [0.9, 0.0]], base={"xnodes": 2, "ynodes": 1})
D(_EA, "x>=0", "_run message 'HE must have positive x-position'", pts=[[-1.0, 2.0], [0.0, 3.0], [0.0, -3.0], [3.0, 0.0]], base={"xnodes": 2, "ynodes": 2},
  outside=[0])
# alpha = 0 is admissible by the constructor message ('Alpha must be >= 0'): the call must then work or be rejected with ValueError
SPECIAL_INDOMAIN.append(dict(cls=_RS, cfg={"alpha": 0.0}, doc="constructor message 'Alpha must be >= 0' admits alpha = 0"))
SPECIAL_INDOMAIN.append(dict(cls=_EA, cfg={"alpha": 0.0}, doc="constructor message 'Alpha must be >= 0' admits alpha = 0"))
# Sedov's special singularities hit EXACTLY in floating point: omega3 = j(2 - gamma) and omega2 = (2(gamma-1) + j)/gamma are
# admissible (0 <= omega < geometry) and the constructor documents a special branch for them (seeded change S-C20-3)
for _g, _ga, _om in ((2, 1.5, 1.0), (1, 1.5, 0.5), (3, 1.5, 1.5), (2, 1.25, 1.5), (3, 2.0, 2.5)):
    SPECIAL_INDOMAIN.append(dict(cls="sedov.sedov.Sedov", cfg={"geometry": _g, "gamma": _ga, "omega": _om},
                                 doc="sedov.py: special_singularity 'omega2'/'omega3' branch for |denom| <= 1e-4"))

# =============================================================================================== Blake
_B = "blake.blake.Blake"
R(_B, "ref_density>0", "constructor message 'ref_density parameter is non-positive.'", violating=[{"ref_density": -1.0}], boundary=[{"ref_density": 0.0}], strict=True)
R(_B, "cavity_radius>0", "constructor message", violating=[{"cavity_radius": -0.1}], boundary=[{"cavity_radius": 0.0}], strict=True)
R(_B, "pressure_scale>0", "constructor message", violating=[{"pressure_scale": -1.0}], boundary=[{"pressure_scale": 0.0}], strict=True)
R(_B, "blake_debug is bool", "constructor message 'blake_debug parameter is not boolean'", violating=[{"blake_debug": 1}, {"blake_debug": "yes"}])
R(_B, "exactly two moduli", "class docstring 'requires any two of these'; set_elastic_params 'EXACTLY *two* of the six'",
  violating=[{"lame_mod": 25e9}, {"poisson_ratio": 0.25}, {"lame_mod": 25e9, "shear_mod": 25e9, "youngs_mod": 62.5e9},
             {"lame_mod": 25e9, "shear_mod": 25e9, "youngs_mod": 62.5e9, "poisson_ratio": 0.25, "bulk_mod": 41.66666666666667e9, "long_mod": 75e9}],
  admissible=[{"lame_mod": 25e9, "shear_mod": 25e9}, {"youngs_mod": 62.5e9, "poisson_ratio": 0.25}, {"bulk_mod": 41.66666666666667e9, "long_mod": 75e9}])
R(_B, "modulus>0", "set_elastic_params docstring '1. Each user-specified modulus parameter is positive.'",
  violating=[{"shear_mod": -1.0, "bulk_mod": 4e10}, {"lame_mod": -1e9, "shear_mod": 25e9}, {"youngs_mod": -1.0, "long_mod": 75e9}],
  boundary=[{"shear_mod": 0.0, "bulk_mod": 4e10}, {"lame_mod": 0.0, "shear_mod": 25e9}], strict=True)
R(_B, "-1<poisson_ratio<0.5", "set_elastic_params message 'not in the open interval: (-1.0, 0.5)'",
  violating=[{"shear_mod": 25e9, "poisson_ratio": 0.6}, {"shear_mod": 25e9, "poisson_ratio": -1.5}],
  boundary=[{"shear_mod": 25e9, "poisson_ratio": 0.5}, {"shear_mod": 25e9, "poisson_ratio": -1.0}], strict=True,
  admissible=[{"shear_mod": 25e9, "poisson_ratio": 0.49}, {"shear_mod": 25e9, "poisson_ratio": -0.9}, {"shear_mod": 25e9, "poisson_ratio": 0.0}])
R(_B, "pair defines a positive-definite material", "set_elastic_params docstring '2. Each pair of user-specified parameters define a material "
  "which has a positive-definite (PD) strain energy function ... If conditions 1 or 2 aren't satisfied, an error message is issued'",
  violating=[{"lame_mod": 25e9, "bulk_mod": 10e9},            # G = 3(K-lambda)/2 < 0
             {"lame_mod": 25e9, "poisson_ratio": 0.0},        # lambda = 2 G nu/(1-2nu) = 0 for nu = 0: no material has lambda > 0, nu = 0
             {"lame_mod": 25e9, "poisson_ratio": -0.2},       # G < 0
             {"lame_mod": 25e9, "long_mod": 20e9},            # G = (M-lambda)/2 < 0
             {"bulk_mod": 75e9, "long_mod": 41e9},            # G = 3(M-K)/4 < 0
             {"youngs_mod": 62.5e9, "long_mod": 10e9}])       # E > M impossible for -1 < nu < 0.5
D(_B, "r>=0", "_run message 'Minimum coordinate of radial grid is negative'", pts=[-0.1, 0.2, 0.5], outside=[0])

# =============================================================================================== EP piston
_P = "ep_piston.ep_piston.EPpiston"
R(_P, "G>0", "constructor message 'Shear modulus must be > 0'", violating=[{"G": -1.0}], boundary=[{"G": 0.0}], strict=True)
R(_P, "Y>0", "constructor message 'Yield Stress must be > 0'", violating=[{"Y": -1.0}], boundary=[{"Y": 0.0}], strict=True)
R(_P, "rho0>0", "constructor message 'Initial density must be > 0'", violating=[{"rho0": -1.0}], boundary=[{"rho0": 0.0}], strict=True)
R(_P, "up>=0", "constructor message 'Piston velocity must be >= 0'", violating=[{"up": -0.01}], boundary=[{"up": 0.0}], strict=False)
R(_P, "model in {hypo,hyperIfin,hyperFin}", "help string and constructor message", violating=[{"model": "hyper"}, {"model": ""}, {"model": 1}],
  admissible=[{"model": "hypo"}, {"model": "hyperFin"}])
D(_P, "t<=max(x)/wv_el", "_run message 'Elastic Wave went beyond xmax ... reduce time or increase xmax'", t=5.0, pts=[0.2, 0.5, 1.0])
# just beyond the guard (default material: wv_el = 0.6518, t_max = max(x)/wv_el = 1.5341; the plastic front reaches x = 1 only at
# 1.816): a guard that tests the wrong (slower) front lets these through (seeded change S-C20-2)
D(_P, "t<=max(x)/wv_el", "as above, 3 % beyond the guard", t=1.5825, pts=[0.2, 0.5, 1.0])
D(_P, "t<=max(x)/wv_el", "as above, 13 % beyond the guard", t=1.74, pts=[0.2, 0.5, 1.0])
# the same three probes with the default problem expressed in SI (Pa, kg/m^3, m/s, m, s): the transit then lasts 1.5e-6 s, and an
# absolute cushion on the guard that is invisible in cm / microseconds is as large as t_max itself (seeded change S3-C20-2)
_P_SI = {"G": 0.286e11, "Y": 0.0026e11, "rho0": 2790.0, "up": 100.0, "c0": 5330.0}
D(_P, "t<=max(x)/wv_el (SI)", "as above in SI units, far beyond the guard", t=5.0e-6, pts=[0.002, 0.005, 0.01], base=_P_SI)
D(_P, "t<=max(x)/wv_el (SI)", "as above in SI units, 3 % beyond the guard", t=1.5825e-6, pts=[0.002, 0.005, 0.01], base=_P_SI)
D(_P, "t<=max(x)/wv_el (SI)", "as above in SI units, 13 % beyond the guard", t=1.74e-6, pts=[0.002, 0.005, 0.01], base=_P_SI)

# =============================================================================================== Guderley / Rod1D (checked by the library at call time)
_G = "guderley.guderley.Guderley"
R(_G, "gamma in (1.00001, 9999)", "guderley/eexp.py message 'Invalid polytropic index.' (raised from the first call, not the constructor)",
  violating=[{"gamma": 1.0}, {"gamma": 0.5}, {"gamma": 10000.0}])
R("heat.rod1d.Rod1D", "BC2: gamma1/beta1 == gamma2/beta2", "rod1d.py _run message 'The flux at either end of rod must be equal' (raised from the call)",
  violating=[{"alpha1": 0.0, "beta1": 1.0, "alpha2": 0.0, "beta2": 1.0, "gamma1": 1.0, "gamma2": 2.0}],
  admissible=[{"alpha1": 0.0, "beta1": 1.0, "alpha2": 0.0, "beta2": 1.0, "gamma1": 1.0, "gamma2": 1.0}])

R("heat.rod1d.Rod1D", "(alpha_i,beta_i)!=(0,0)", "rod1d.py module docstring: each end carries 'a linear combination of Dirichlet and Neumann boundary "
  "conditions' alpha_i T + beta_i dT/dx = gamma_i; alpha_i = beta_i = 0 is no boundary condition",
  violating=[{"alpha1": 0.0}, {"alpha2": 0.0}, {"alpha1": 0.0, "alpha2": 0.0}], admissible=[{"alpha1": 0.0, "beta1": 1.0}])

# =============================================================================================== Riemann (1D)
for _c in ("riemann.ep_riemann.IGEOS_Solver", "riemann.ep_riemann.GenEOS_Solver"):
    R(_c, "rho,p>0", "riemann/__init__.py 'Since (p, a, rho) are required to be positive'",
      violating=[{"rl": -1.0}, {"pl": -1.0}, {"rr": -0.125}, {"pr": -0.1}])
    R(_c, "no vacuum between the waves", "riemann.py prints 'the solution for this problem is not ready' for the R,C,V,C,R pattern "
      "(ur - ul exceeds 2 al/(gl-1) + 2 ar/(gr-1))", violating=[{"ul": -20.0, "ur": 20.0}, {"ur": 12.0}], admissible=[{"ul": -0.5, "ur": 0.5}])


def geometry_set(help_string):
    """Admissible geometry values named by a class's own help string, e.g. '1=planar, 2=cylindrical' -> {1, 2}."""
    import re
    return sorted({int(m) for m in re.findall(r"(\d)\s*=", help_string)})
